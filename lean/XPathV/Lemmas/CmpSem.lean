import XPathV.Lemmas.PathSem
import XPathV.Lemmas.C07Base
import XPathV.Lemmas.C08Base
import XPathV.Lemmas.ArithSem
import XPathV.Lemmas.StringFns.Nested
/-!
# C07 — comparison and boolean operators follow XPath 1.0, at the level of *expressions*

`Theorems/C07.lean` holds the per-cell facts for the cells the property lists.  This file

1. adds the boolean cells of the dispatch matrix (`cell_boolAny`, `cell_anyBool`: all six operators
   since the repair of `cmpBooleanAny`/`cmpAnyBoolean`) and assembles all sixteen cells into
   `cmpM_emb_cell` / `cmpM_vrel` — no type pair and no operator excluded,
2. states `and`/`or` (with short-circuit) and `not()`/`boolean()`/`true()`/`false()` at the
   `evalP` level,
3. assembles them into a theorem about comparison expressions over literals and predicate-free
   paths (`CmpExp`), closed under `and`/`or`/`not()`/`boolean()`/grouping (`XExpG`, over two leaf
   fragments of number- and string-valued expressions; `XExp0` = no leaves) for the un-rewritten
   plans (`xplan`),
4. transports it through `build`, with the arithmetic expressions of C08 (`ArithSem.NumEC`) and the
   nested string-function calls of C09 (`StringFns.StrE`) as leaves: `XExp`.

After the repair of `notFunc` (`default: return !asBool(t, v)`) `not()` takes an operand of any
type: `callFn_not_spec`, `sem_not`, and the `not` constructor of `XExpG` have no restriction left.
-/
namespace XPathV.CmpSem
open XPathV XPathV.Model NumAlg XPathV.PathSem
open XPathV.Theorems.C08 (emb)

variable {F : Type} [NumAlg F]

/-! ## 1. The remaining cells of the comparison matrix -/

/-! The cells with a string operand and the node-set/node-set cell hold for **all six** operators
since the repairs of `cmpStringStringF`, `cmpNodeSetString` and `cmpStringNumeric`
(`Theorems.C07.cell_strStr`, `cell_strNum`, `cell_numStr`, `cell_setStr`, `cell_strSet`,
`cell_setSet` in `Lemmas/C07Base.lean`).  The `_eq` / `_ne` statements below are the former ones
(they were restricted to `=` / `!=` because the engine compared strings lexically and handed
`cmpNodeSetString` its operands in reverse), kept as corollaries.  `cell_strNum_swapped` (the engine's
value for string/number was the oracle's for the *swapped* operands) and the two
`cell_strNum_*_of_symm` (string/number `=`/`!=` under a symmetry hypothesis on `NumAlg.eq`) are gone:
`Theorems.C07.cell_strNum` holds for all six operators without hypothesis. -/

/-- node-set vs string, `=` -/
theorem cell_setStr_eq (d : Doc) (l : List Ref) (s : String) :
    cmpM (F := F) d .eq (.nodes l) (.str s) = .ok (Spec.compare (F := F) d .eq (.nodes l) (.str s)) :=
  Theorems.C07.cell_setStr d .eq l s

/-- node-set vs string, `!=` -/
theorem cell_setStr_ne (d : Doc) (l : List Ref) (s : String) :
    cmpM (F := F) d .ne (.nodes l) (.str s) = .ok (Spec.compare (F := F) d .ne (.nodes l) (.str s)) :=
  Theorems.C07.cell_setStr d .ne l s

/-- string vs node-set, `=` -/
theorem cell_strSet_eq (d : Doc) (s : String) (l : List Ref) :
    cmpM (F := F) d .eq (.str s) (.nodes l) = .ok (Spec.compare (F := F) d .eq (.str s) (.nodes l)) :=
  Theorems.C07.cell_strSet d .eq s l

/-- string vs node-set, `!=` -/
theorem cell_strSet_ne (d : Doc) (s : String) (l : List Ref) :
    cmpM (F := F) d .ne (.str s) (.nodes l) = .ok (Spec.compare (F := F) d .ne (.str s) (.nodes l)) :=
  Theorems.C07.cell_strSet d .ne s l

/-- the model's truth conversion on an embedded oracle value is `boolean()` -/
theorem asBool_emb (v : Spec.Value F) : asBoolM (emb v) = .ok (Spec.toBool v) := by
  cases v <;> simp [emb, asBoolM, Spec.toBool]

/-- **boolean vs anything, all six operators** (after the repair of `cmpBooleanAny`): for `=` and
`!=` the other operand is converted with `boolean()`; for the relational operators both operands
are numbers — `0`/`1` for the boolean, the number itself, `number()` of a string, `0`/`1` of
`boolean()` of a node-set.  (Before the repair the relational operators converted the other operand
with `boolean()` as well: `true() < 2` was false.) -/
theorem cell_boolAny (d : Doc) (op : Spec.CmpOp) (a : Bool) (v : Spec.Value F) :
    cmpM d op (.bool a) (emb v) = .ok (Spec.compare d op (.bool a) v) := by
  cases v <;> cases op <;> simp [emb, cmpM, xtypeOf, asBoolM, cmpBoolF, numBesideBoolM, goParseFloat,
    Spec.compare, Spec.cmpAtom, Spec.CmpOp.isRel, Spec.toBool, Spec.toNum, bind, Except.bind, pure,
    Except.pure, bne]

/-- **anything vs boolean, all six operators** (after the repair of `cmpAnyBoolean`) -/
theorem cell_anyBool (d : Doc) (op : Spec.CmpOp) (v : Spec.Value F) (b : Bool) :
    cmpM d op (emb v) (.bool b) = .ok (Spec.compare d op v (.bool b)) := by
  cases v <;> cases op <;> simp [emb, cmpM, xtypeOf, asBoolM, cmpBoolF, numBesideBoolM, goParseFloat,
    Spec.compare, Spec.cmpAtom, Spec.CmpOp.isRel, Spec.toBool, Spec.toNum, bind, Except.bind, pure,
    Except.pure, bne]

/-- boolean vs anything, `=`: the other operand is converted with `boolean()` -/
theorem cell_boolAny_eq (d : Doc) (a : Bool) (v : Spec.Value F) :
    cmpM d .eq (.bool a) (emb v) = .ok (Spec.compare d .eq (.bool a) v) := cell_boolAny d .eq a v

/-- boolean vs anything, `!=` -/
theorem cell_boolAny_ne (d : Doc) (a : Bool) (v : Spec.Value F) :
    cmpM d .ne (.bool a) (emb v) = .ok (Spec.compare d .ne (.bool a) v) := cell_boolAny d .ne a v

/-- anything vs boolean, `=` -/
theorem cell_anyBool_eq (d : Doc) (v : Spec.Value F) (b : Bool) :
    cmpM d .eq (emb v) (.bool b) = .ok (Spec.compare d .eq v (.bool b)) := cell_anyBool d .eq v b

/-- anything vs boolean, `!=` -/
theorem cell_anyBool_ne (d : Doc) (v : Spec.Value F) (b : Bool) :
    cmpM d .ne (emb v) (.bool b) = .ok (Spec.compare d .ne v (.bool b)) := cell_anyBool d .ne v b

/-- boolean vs boolean, all six operators (relational ones on 0/1) -/
theorem cell_boolBool (d : Doc) (op : Spec.CmpOp) (a b : Bool) :
    cmpM (F := F) d op (.bool a) (.bool b) = .ok (Spec.compare (F := F) d op (.bool a) (.bool b)) :=
  cell_boolAny d op a (.bool b)

/-- boolean vs node-set, all six operators: the node-set is converted with `boolean()` first -/
theorem cell_boolSet (d : Doc) (op : Spec.CmpOp) (a : Bool) (l : List Ref) :
    cmpM (F := F) d op (.bool a) (.nodes l) = .ok (Spec.compare (F := F) d op (.bool a) (.nodes l)) :=
  cell_boolAny d op a (.nodes l)

/-- node-set vs boolean, all six operators -/
theorem cell_setBool (d : Doc) (op : Spec.CmpOp) (l : List Ref) (b : Bool) :
    cmpM (F := F) d op (.nodes l) (.bool b) = .ok (Spec.compare (F := F) d op (.nodes l) (.bool b)) :=
  cell_anyBool d op (.nodes l) b

/-! ## 2. `and` / `or` / `not()` / `boolean()` at the `evalP` level -/

/-- `or`, left operand true: the result is `true` and the right operand is **not evaluated**
(`r` is arbitrary — it may fail) -/
theorem evalP_or_left (d : Doc) (cfg : ECfg) (l r : Plan) (c : Ref) (lv : MVal F)
    (hl : evalP (F := F) d cfg l c = .ok lv) (hb : asBoolM lv = .ok true) :
    evalP (F := F) d cfg (.boolean true l r) c = .ok (.bool true) := by
  simp [evalP, hl, hb, bind, Except.bind]

/-- `and`, left operand false: the result is `false` and the right operand is **not evaluated** -/
theorem evalP_and_left (d : Doc) (cfg : ECfg) (l r : Plan) (c : Ref) (lv : MVal F)
    (hl : evalP (F := F) d cfg l c = .ok lv) (hb : asBoolM lv = .ok false) :
    evalP (F := F) d cfg (.boolean false l r) c = .ok (.bool false) := by
  simp [evalP, hl, hb, bind, Except.bind]

/-- `or`, left operand false: the result is the truth value of the right operand -/
theorem evalP_or_right (d : Doc) (cfg : ECfg) (l r : Plan) (c : Ref) (lv rv : MVal F) (b : Bool)
    (hl : evalP (F := F) d cfg l c = .ok lv) (hb : asBoolM lv = .ok false)
    (hr : evalP (F := F) d cfg r c = .ok rv) (hrb : asBoolM rv = .ok b) :
    evalP (F := F) d cfg (.boolean true l r) c = .ok (.bool b) := by
  simp [evalP, hl, hb, hr, hrb, bind, Except.bind]

/-- `and`, left operand true: the result is the truth value of the right operand -/
theorem evalP_and_right (d : Doc) (cfg : ECfg) (l r : Plan) (c : Ref) (lv rv : MVal F) (b : Bool)
    (hl : evalP (F := F) d cfg l c = .ok lv) (hb : asBoolM lv = .ok true)
    (hr : evalP (F := F) d cfg r c = .ok rv) (hrb : asBoolM rv = .ok b) :
    evalP (F := F) d cfg (.boolean false l r) c = .ok (.bool b) := by
  simp [evalP, hl, hb, hr, hrb, bind, Except.bind]

/-- `or` on embedded oracle values, short-circuit branch: an error (or anything else) in the right
operand does not matter -/
theorem evalP_or_short (d : Doc) (cfg : ECfg) (l r : Plan) (c : Ref) (va : Spec.Value F)
    (hl : evalP (F := F) d cfg l c = .ok (emb va)) (ht : Spec.toBool va = true) :
    evalP (F := F) d cfg (.boolean true l r) c = .ok (.bool true) :=
  evalP_or_left d cfg l r c _ hl (by rw [asBool_emb, ht])

/-- `and` on embedded oracle values, short-circuit branch -/
theorem evalP_and_short (d : Doc) (cfg : ECfg) (l r : Plan) (c : Ref) (va : Spec.Value F)
    (hl : evalP (F := F) d cfg l c = .ok (emb va)) (ht : Spec.toBool va = false) :
    evalP (F := F) d cfg (.boolean false l r) c = .ok (.bool false) :=
  evalP_and_left d cfg l r c _ hl (by rw [asBool_emb, ht])

/-- `or` on embedded oracle values, both operands evaluated -/
theorem evalP_or_spec (d : Doc) (cfg : ECfg) (l r : Plan) (c : Ref) (va vb : Spec.Value F)
    (hl : evalP (F := F) d cfg l c = .ok (emb va)) (hr : evalP (F := F) d cfg r c = .ok (emb vb)) :
    evalP (F := F) d cfg (.boolean true l r) c = .ok (.bool (Spec.toBool va || Spec.toBool vb)) := by
  cases ht : Spec.toBool va with
  | true => simpa using evalP_or_short d cfg l r c va hl ht
  | false =>
    simpa using evalP_or_right d cfg l r c _ _ _ hl (by rw [asBool_emb, ht]) hr (asBool_emb vb)

/-- `and` on embedded oracle values, both operands evaluated -/
theorem evalP_and_spec (d : Doc) (cfg : ECfg) (l r : Plan) (c : Ref) (va vb : Spec.Value F)
    (hl : evalP (F := F) d cfg l c = .ok (emb va)) (hr : evalP (F := F) d cfg r c = .ok (emb vb)) :
    evalP (F := F) d cfg (.boolean false l r) c = .ok (.bool (Spec.toBool va && Spec.toBool vb)) := by
  cases ht : Spec.toBool va with
  | false => simpa using evalP_and_short d cfg l r c va hl ht
  | true =>
    simpa using evalP_and_right d cfg l r c _ _ _ hl (by rw [asBool_emb, ht]) hr (asBool_emb vb)

/-- the oracle's `or` / `and` (for reference: same shape, same short-circuit) -/
theorem spec_or (d : Doc) (l r : Ast) (c : Spec.Ctx) (va : Spec.Value F) (ga : Option (List (List Ref)))
    (hl : Spec.eval (F := F) d l c = .ok (.val va ga)) :
    (Spec.toBool va = true → Spec.eval (F := F) d (.oper "or" l r) c = .ok (.val (.bool true) none)) ∧
    (∀ vb gb, Spec.toBool va = false → Spec.eval (F := F) d r c = .ok (.val vb gb) →
      Spec.eval (F := F) d (.oper "or" l r) c = .ok (.val (.bool (Spec.toBool vb)) none)) := by
  constructor
  · intro ht; simp [Spec.eval, hl, ht, bind, Except.bind, Spec.Res.value]
  · intro vb gb ht hr; simp [Spec.eval, hl, ht, hr, bind, Except.bind, Spec.Res.value]

theorem spec_and (d : Doc) (l r : Ast) (c : Spec.Ctx) (va : Spec.Value F) (ga : Option (List (List Ref)))
    (hl : Spec.eval (F := F) d l c = .ok (.val va ga)) :
    (Spec.toBool va = false → Spec.eval (F := F) d (.oper "and" l r) c = .ok (.val (.bool false) none)) ∧
    (∀ vb gb, Spec.toBool va = true → Spec.eval (F := F) d r c = .ok (.val vb gb) →
      Spec.eval (F := F) d (.oper "and" l r) c = .ok (.val (.bool (Spec.toBool vb)) none)) := by
  constructor
  · intro ht; simp [Spec.eval, hl, ht, bind, Except.bind, Spec.Res.value]
  · intro vb gb ht hr; simp [Spec.eval, hl, ht, hr, bind, Except.bind, Spec.Res.value]

/-- `true()` / `false()` -/
theorem callFn_true (d : Doc) (cfg : ECfg) (fi : Plan) (c : Ref) (ctx : Spec.Ctx)
    (args : List (Except EErr (MVal F))) (asel : Option (List Ref)) :
    callFn (F := F) d cfg "true" fi c args asel = .ok (.bool true) ∧
    Spec.callFn (F := F) d ctx "true" [] = .ok (.bool true) := by
  exact ⟨by simp [callFn], rfl⟩

theorem callFn_false (d : Doc) (cfg : ECfg) (fi : Plan) (c : Ref) (ctx : Spec.Ctx)
    (args : List (Except EErr (MVal F))) (asel : Option (List Ref)) :
    callFn (F := F) d cfg "false" fi c args asel = .ok (.bool false) ∧
    Spec.callFn (F := F) d ctx "false" [] = .ok (.bool false) := by
  exact ⟨by simp [callFn], rfl⟩

/-- `boolean(v)` is the oracle's, for every type of argument -/
theorem callFn_boolean (d : Doc) (cfg : ECfg) (fi : Plan) (c : Ref) (ctx : Spec.Ctx)
    (v : Spec.Value F) (asel : Option (List Ref)) :
    callFn (F := F) d cfg "boolean" fi c [.ok (emb v)] asel = .ok (.bool (Spec.toBool v)) ∧
    Spec.callFn (F := F) d ctx "boolean" [v] = .ok (.bool (Spec.toBool v)) := by
  constructor
  · simp [callFn, asBool_emb, bind, Except.bind]
  · rfl

/-- `not(v)` on a boolean or a node-set argument is the oracle's -/
theorem callFn_not_bool (d : Doc) (cfg : ECfg) (fi : Plan) (c : Ref) (ctx : Spec.Ctx)
    (b : Bool) (asel : Option (List Ref)) :
    callFn (F := F) d cfg "not" fi c [.ok (.bool b)] asel = .ok (.bool (!b)) ∧
    Spec.callFn (F := F) d ctx "not" [.bool b] = .ok (.bool (!b)) := by
  constructor
  · simp [callFn, bind, Except.bind]
  · rfl

theorem callFn_not_nodes (d : Doc) (cfg : ECfg) (fi : Plan) (c : Ref) (ctx : Spec.Ctx)
    (l : List Ref) (asel : Option (List Ref)) :
    callFn (F := F) d cfg "not" fi c [.ok (.nodes l)] asel = .ok (.bool l.isEmpty) ∧
    Spec.callFn (F := F) d ctx "not" [.nodes l] = .ok (.bool l.isEmpty) := by
  constructor
  · simp [callFn, bind, Except.bind]
  · have h : Spec.callFn (F := F) d ctx "not" [.nodes l] = .ok (.bool (!Spec.toBool (F := F) (.nodes l))) := rfl
    rw [h]; simp [Spec.toBool]

/-- **`not(v)` is the oracle's, for every type of argument** (after the repair of `notFunc`: the
default arm is `!asBool(v)`): boolean ↦ `!b`, node-set ↦ "is empty", number ↦ "is 0 or NaN",
string ↦ "is empty" -/
theorem callFn_not_spec (d : Doc) (cfg : ECfg) (fi : Plan) (c : Ref) (ctx : Spec.Ctx)
    (v : Spec.Value F) (asel : Option (List Ref)) :
    callFn (F := F) d cfg "not" fi c [.ok (emb v)] asel = .ok (.bool (!Spec.toBool v)) ∧
    Spec.callFn (F := F) d ctx "not" [v] = .ok (.bool (!Spec.toBool v)) := by
  refine ⟨?_, rfl⟩
  cases v <;> simp [callFn, emb, asBoolM, Spec.toBool, bind, Except.bind]

/-- `not(v)` on a boolean or a node-set (the two arms the Go code always had); kept for reference —
`callFn_not_spec` has no restriction on the type -/
theorem callFn_not (d : Doc) (cfg : ECfg) (fi : Plan) (c : Ref) (ctx : Spec.Ctx)
    (v : Spec.Value F) (_hv : (∃ b, v = .bool b) ∨ (∃ l, v = .nodes l)) (asel : Option (List Ref)) :
    callFn (F := F) d cfg "not" fi c [.ok (emb v)] asel = .ok (.bool (!Spec.toBool v)) ∧
    Spec.callFn (F := F) d ctx "not" [v] = .ok (.bool (!Spec.toBool v)) :=
  callFn_not_spec d cfg fi c ctx v asel

/-- `not(number)`: true exactly when the number is zero or NaN — model and oracle (replaces the old
`callFn_not_num_model`, which recorded the constant `false` of the defective `notFunc`) -/
theorem callFn_not_num_spec (d : Doc) (cfg : ECfg) (fi : Plan) (c : Ref) (ctx : Spec.Ctx) (x : F)
    (asel : Option (List Ref)) :
    callFn (F := F) d cfg "not" fi c [.ok (.num x)] asel = .ok (.bool (!Spec.toBool (F := F) (.num x))) ∧
    Spec.callFn (F := F) d ctx "not" [.num x] = .ok (.bool (!Spec.toBool (F := F) (.num x))) :=
  callFn_not_spec d cfg fi c ctx (.num x) asel

/-- `not(string)`: true exactly when the string is empty — model and oracle (replaces the old
`callFn_not_str_model`) -/
theorem callFn_not_str_spec (d : Doc) (cfg : ECfg) (fi : Plan) (c : Ref) (ctx : Spec.Ctx) (s : String)
    (asel : Option (List Ref)) :
    callFn (F := F) d cfg "not" fi c [.ok (.str s)] asel = .ok (.bool (s == "")) ∧
    Spec.callFn (F := F) d ctx "not" [.str s] = .ok (.bool (s == "")) := by
  have h := callFn_not_spec (F := F) d cfg fi c ctx (.str s) asel
  have e : (!Spec.toBool (F := F) (.str s)) = (s == "") := by simp [Spec.toBool, bne]
  rw [e] at h
  exact h

/-- the arguments `not` cannot convert: the Go `int` that `round()` returns makes `asBool` panic
("unexpected type"), in `not` as in `boolean` -/
theorem callFn_not_int_crash (d : Doc) (cfg : ECfg) (fi : Plan) (c : Ref) (i : Int) (asel : Option (List Ref)) :
    callFn (F := F) d cfg "not" fi c [.ok (.int i)] asel = .error (.crash .unknownType) := by
  simp [callFn, asBoolM, bind, Except.bind]

/-- `not` on any model value: the negation of `asBool` (the `int` crash included) -/
theorem callFn_not_asBool (d : Doc) (cfg : ECfg) (fi : Plan) (c : Ref) (v : MVal F) (asel : Option (List Ref)) :
    callFn (F := F) d cfg "not" fi c [.ok v] asel = (asBoolM v).bind (fun b => .ok (.bool (!b))) := by
  cases v <;> simp [callFn, asBoolM, bind, Except.bind]

/-! ## 3. Expression level -/

/-! ### the cells only depend on the *set* of nodes -/

theorem any_congr_mem {α : Type} (l1 l2 : List α) (f : α → Bool) (h : ∀ x, x ∈ l1 ↔ x ∈ l2) :
    l1.any f = l2.any f := by
  rw [Bool.eq_iff_iff, List.any_eq_true, List.any_eq_true]
  constructor
  · rintro ⟨x, hx, hf⟩; exact ⟨x, (h x).1 hx, hf⟩
  · rintro ⟨x, hx, hf⟩; exact ⟨x, (h x).2 hx, hf⟩

theorem isEmpty_congr_mem {α : Type} (l1 l2 : List α) (h : ∀ x, x ∈ l1 ↔ x ∈ l2) :
    l1.isEmpty = l2.isEmpty := by
  cases l1 with
  | nil =>
    cases l2 with
    | nil => rfl
    | cons y t => exact absurd ((h y).2 (List.mem_cons_self)) (List.not_mem_nil)
  | cons x t =>
    cases l2 with
    | nil => exact absurd ((h x).1 (List.mem_cons_self)) (List.not_mem_nil)
    | cons y t' => rfl

theorem compare_congr_left (d : Doc) (op : Spec.CmpOp) (l ns : List Ref) (h : ∀ x, x ∈ l ↔ x ∈ ns)
    (vb : Spec.Value F) :
    Spec.compare d op (.nodes l) vb = Spec.compare d op (.nodes ns) vb := by
  cases vb with
  | nodes lb => simp only [Spec.compare]; exact any_congr_mem _ _ _ h
  | bool b => simp only [Spec.compare, Spec.toBool, isEmpty_congr_mem _ _ h]
  | num y => simp only [Spec.compare]; exact any_congr_mem _ _ _ h
  | str s => simp only [Spec.compare]; exact any_congr_mem _ _ _ h

theorem compare_congr_right (d : Doc) (op : Spec.CmpOp) (l ns : List Ref) (h : ∀ x, x ∈ l ↔ x ∈ ns)
    (va : Spec.Value F) :
    Spec.compare d op va (.nodes l) = Spec.compare d op va (.nodes ns) := by
  cases va with
  | nodes la =>
    simp only [Spec.compare]
    congr 1; funext x; exact any_congr_mem _ _ _ h
  | bool b => simp only [Spec.compare, Spec.toBool, isEmpty_congr_mem _ _ h]
  | num y => simp only [Spec.compare]; exact any_congr_mem _ _ _ h
  | str s => simp only [Spec.compare]; exact any_congr_mem _ _ _ h

/-! ### value kinds, the relation between a model value and an oracle value -/

inductive Kind | num | str | set | bool
  deriving DecidableEq, Repr

def vkind : Spec.Value F → Kind
  | .nodes _ => .set
  | .bool _ => .bool
  | .num _ => .num
  | .str _ => .str

/-- a model value represents an oracle value: equal atoms, node lists with the same members -/
def VRel : MVal F → Spec.Value F → Prop
  | .nodes l, .nodes ns => ∀ x, x ∈ l ↔ x ∈ ns
  | .bool a, .bool b => a = b
  | .num a, .num b => a = b
  | .str a, .str b => a = b
  | _, _ => False

omit [NumAlg F] in
theorem vrel_emb_self (v : Spec.Value F) : VRel (emb v) v := by
  cases v <;> simp [emb, VRel]

/-- a related model value is the embedding of an oracle value of the same kind that no comparison
and no truth conversion can tell from the given one -/
theorem vrel_emb (d : Doc) (m : MVal F) (v : Spec.Value F) (h : VRel m v) :
    ∃ v', m = emb v' ∧ vkind v' = vkind v ∧
      (∀ op w, Spec.compare d op v' w = Spec.compare d op v w) ∧
      (∀ op w, Spec.compare d op w v' = Spec.compare d op w v) ∧
      Spec.toBool v' = Spec.toBool v := by
  cases v with
  | nodes ns =>
    cases m <;> simp only [VRel] at h
    rename_i l
    exact ⟨.nodes l, rfl, rfl, fun op w => compare_congr_left d op l ns h w,
      fun op w => compare_congr_right d op l ns h w, by simp only [Spec.toBool, isEmpty_congr_mem _ _ h]⟩
  | bool b =>
    cases m <;> simp only [VRel] at h
    subst h; exact ⟨_, rfl, rfl, fun _ _ => rfl, fun _ _ => rfl, rfl⟩
  | num x =>
    cases m <;> simp only [VRel] at h
    subst h; exact ⟨_, rfl, rfl, fun _ _ => rfl, fun _ _ => rfl, rfl⟩
  | str s =>
    cases m <;> simp only [VRel] at h
    subst h; exact ⟨_, rfl, rfl, fun _ _ => rfl, fun _ _ => rfl, rfl⟩

theorem asBool_vrel (m : MVal F) (v : Spec.Value F) (h : VRel m v) :
    asBoolM m = .ok (Spec.toBool v) := by
  obtain ⟨v', rfl, _, _, _, ht⟩ := vrel_emb [] m v h
  rw [asBool_emb, ht]

omit [NumAlg F] in
theorem vrel_bool (m : MVal F) (v : Spec.Value F) (h : VRel m v) (hk : vkind v = .bool) :
    ∃ t, m = .bool t ∧ v = .bool t := by
  cases v <;> simp only [vkind, reduceCtorEq] at hk
  cases m <;> simp only [VRel] at h
  subst h; exact ⟨_, rfl, rfl⟩

open XPathV.Theorems.C07 in
/-- **all the cells in one statement, no exception**: on every pair of value types and for all six
operators the model's comparison of two embedded oracle values is XPath's `compare`.  (Before the
repairs of `cmpStringStringF`, `cmpNodeSetString`, `cmpStringNumeric`, `cmpBooleanAny` and
`cmpAnyBoolean` this carried a table `pairOK` of admissible type pairs: string/number was out, and so
were the relational operators on two strings, on a node-set with a string or a node-set, and on a
boolean with a number or a string.) -/
theorem cmpM_emb_cell (d : Doc) (cop : Spec.CmpOp) (va vb : Spec.Value F) :
    cmpM d cop (emb va) (emb vb) = .ok (Spec.compare d cop va vb) := by
  cases va with
  | bool a => exact cell_boolAny d cop a vb
  | nodes la =>
    cases vb with
    | nodes lb => exact cell_setSet d _ _ _
    | bool b => exact cell_setBool d _ _ _
    | num y => exact cell_setNum d _ _ _
    | str s => exact cell_setStr d _ _ _
  | num x =>
    cases vb with
    | nodes lb => exact cell_numSet d _ _ _
    | bool b => exact cell_anyBool d cop (.num x) b
    | num y => exact cell_numNum d _ _ _
    | str s => exact cell_numStr d _ _ _
  | str x =>
    cases vb with
    | nodes lb => exact cell_strSet d _ _ _
    | bool b => exact cell_anyBool d cop (.str x) b
    | num y => exact cell_strNum d _ _ _
    | str s => exact cell_strStr d _ _ _

/-- the comparison of two model values that represent oracle values is the oracle's comparison —
every pair of types, all six operators -/
theorem cmpM_vrel (d : Doc) (cop : Spec.CmpOp) (m n : MVal F) (va vb : Spec.Value F)
    (hm : VRel m va) (hn : VRel n vb) :
    cmpM d cop m n = .ok (Spec.compare d cop va vb) := by
  obtain ⟨va', rfl, _, hal, _, _⟩ := vrel_emb d m va hm
  obtain ⟨vb', rfl, _, _, hbr, _⟩ := vrel_emb d n vb hn
  rw [cmpM_emb_cell d cop va' vb', hal, hbr]

/-! ### the value of a path plan -/

/-- plans of the axis query types (the arm of `Evaluate` that returns the selected node list) -/
def isPathKind : Plan → Bool
  | .context | .absolute | .ancestor _ _ _ | .attr _ _ | .child _ _ | .cachedChild _ _
  | .descendant _ _ _ | .following _ _ _ | .preceding _ _ _ | .parent _ _ | .self _ _
  | .descOverDesc _ _ _ => true
  | _ => false

theorem evalP_pathKind (d : Doc) (cfg : ECfg) (q : Plan) (hq : isPathKind q = true) (c : Ref) :
    evalP (F := F) d cfg q c = (sel (F := F) d cfg q c).bind (fun s =>
      .ok (.nodes (if cfg.setSemantics then Spec.docOrder d (refs s) else refs s))) := by
  cases q <;> simp only [isPathKind, Bool.false_eq_true] at hq <;> simp only [evalP] <;> rfl

/-- the value of a path plan whose selection is (as a set) a list of valid nodes -/
theorem path_val_of_sel (d : Doc) (cfg : ECfg) (q : Plan) (hq : isPathKind q = true) (c : Ref)
    (out : List Item) (ns : List Ref) (hs : sel (F := F) d cfg q c = .ok out)
    (hm : ∀ x, x ∈ refs out ↔ x ∈ ns) (hv : ∀ x ∈ ns, validRef d x = true) :
    ∃ l, evalP (F := F) d cfg q c = .ok (.nodes l) ∧ ∀ x, x ∈ l ↔ x ∈ ns := by
  rw [evalP_pathKind d cfg q hq c, hs]
  refine ⟨_, rfl, fun x => ?_⟩
  split
  · rw [mem_docOrder, hm]
    exact ⟨fun h => h.1, fun h => ⟨h, hv x h⟩⟩
  · exact hm x

theorem stepPlan_pathKind (a : AxisInfo) (ha : a.axis ∈ axes12) (inp : Plan) :
    isPathKind (stepPlan a inp) = true := by
  simp only [axes12, List.mem_cons, List.not_mem_nil, or_false] at ha
  rcases ha with h | h | h | h | h | h | h | h | h | h | h | h <;> simp [stepPlan, h, isPathKind]

theorem naivePlan_pathKind (p : Ast) (hp : PathPF p) : isPathKind (naivePlan p) = true := by
  cases hp with
  | none => rfl
  | root s => rfl
  | axis a inp _ ha => exact stepPlan_pathKind a ha _

/-! ### `Sem`: a plan computes the oracle's value of an expression -/

/-- at context node `c` the plan `q` evaluates (without failure) to a model value that represents
the value the oracle assigns to `e` (context position and size 1), which is of kind `k` -/
def Sem (d : Doc) (cfg : ECfg) (c : Ref) (k : Kind) (q : Plan) (e : Ast) : Prop :=
  ∃ (mv : MVal F) (v : Spec.Value F) (g : Option (List (List Ref))),
    evalP (F := F) d cfg q c = .ok mv ∧ Spec.eval (F := F) d e ⟨c, 1, 1⟩ = .ok (.val v g) ∧
    VRel mv v ∧ vkind v = k

theorem sem_num (d : Doc) (cfg : ECfg) (c : Ref) (lex : String) :
    Sem (F := F) d cfg c .num (.constNum lex) (.num lex) :=
  ⟨.num (Spec.strToNum lex), .num (Spec.strToNum lex), none, by simp [evalP], by simp [Spec.eval],
    rfl, rfl⟩

theorem sem_str (d : Doc) (cfg : ECfg) (c : Ref) (s : String) :
    Sem (F := F) d cfg c .str (.constStr s) (.str s) :=
  ⟨.str s, .str s, none, by simp [evalP], by simp [Spec.eval], rfl, rfl⟩

/-- a predicate-free path, un-rewritten plan (from `PathSem.naive_sem`) -/
theorem sem_path_naive {d : Doc} (wf : WF d) (cfg : ECfg) (hns : cfg.nsIface = true)
    (hinj : HashInj d cfg) (c : Ref) (hc : validRef d c = true) (p : Ast) (hp : PathPF p) :
    Sem (F := F) d cfg c .set (naivePlan p) p := by
  obtain ⟨out, ns, g, hs, he, hm, hv⟩ := naive_sem (F := F) wf cfg hns hinj p hp c hc
  obtain ⟨l, hl, hlm⟩ := path_val_of_sel (F := F) d cfg _ (naivePlan_pathKind p hp) c out ns hs hm hv
  exact ⟨.nodes l, .nodes ns, g, hl, he, hlm, rfl⟩

/-- the six comparison operators as spelled in the parse tree -/
theorem ofString_inv (op : String) (cop : Spec.CmpOp) (h : Spec.CmpOp.ofString op = some cop) :
    op = "=" ∨ op = "!=" ∨ op = "<" ∨ op = "<=" ∨ op = ">" ∨ op = ">=" := by
  unfold Spec.CmpOp.ofString at h
  split at h <;> simp_all

/-- the oracle on a comparison node -/
theorem spec_cmp (d : Doc) (op : String) (cop : Spec.CmpOp) (hop : Spec.CmpOp.ofString op = some cop)
    (a b : Ast) (c : Spec.Ctx) (va vb : Spec.Value F) (ga gb : Option (List (List Ref)))
    (ha : Spec.eval (F := F) d a c = .ok (.val va ga)) (hb : Spec.eval (F := F) d b c = .ok (.val vb gb)) :
    Spec.eval (F := F) d (.oper op a b) c = .ok (.val (.bool (Spec.compare d cop va vb)) none) := by
  rcases ofString_inv op cop hop with h | h | h | h | h | h <;> subst h <;>
    simp only [Spec.CmpOp.ofString, Option.some.injEq] at hop <;> subst hop <;>
    simp [Spec.eval, ha, hb, bind, Except.bind, Spec.Res.value, Spec.CmpOp.ofString]

/-- a comparison node over two operands whose plans compute the oracle's values — of any two kinds,
any of the six operators: the `.logical` plan yields exactly `Spec.compare` of the oracle's operand
values, which is the oracle's value of the comparison expression -/
theorem sem_cmp_explicit (d : Doc) (cfg : ECfg) (c : Ref) (op : String) (cop : Spec.CmpOp)
    (hop : Spec.CmpOp.ofString op = some cop) (ka kb : Kind) (ql qr : Plan) (a b : Ast)
    (ha : Sem (F := F) d cfg c ka ql a) (hb : Sem (F := F) d cfg c kb qr b) :
    ∃ (va vb : Spec.Value F) (ga gb : Option (List (List Ref))),
      Spec.eval (F := F) d a ⟨c, 1, 1⟩ = .ok (.val va ga) ∧
      Spec.eval (F := F) d b ⟨c, 1, 1⟩ = .ok (.val vb gb) ∧
      evalP (F := F) d cfg (.logical op ql qr) c = .ok (.bool (Spec.compare d cop va vb)) ∧
      Spec.eval (F := F) d (.oper op a b) ⟨c, 1, 1⟩ = .ok (.val (.bool (Spec.compare d cop va vb)) none) := by
  obtain ⟨ma, va, ga, hea, hsa, hra, hka⟩ := ha
  obtain ⟨mb, vb, gb, heb, hsb, hrb, hkb⟩ := hb
  refine ⟨va, vb, ga, gb, hsa, hsb, ?_, spec_cmp d op cop hop a b _ va vb ga gb hsa hsb⟩
  have hcm := cmpM_vrel d cop ma mb va vb hra hrb
  simp only [evalP, hea, heb, bind, Except.bind, logicalVal, hop, hcm]

theorem sem_cmp (d : Doc) (cfg : ECfg) (c : Ref) (op : String) (cop : Spec.CmpOp)
    (hop : Spec.CmpOp.ofString op = some cop) (ka kb : Kind) (ql qr : Plan) (a b : Ast)
    (ha : Sem (F := F) d cfg c ka ql a) (hb : Sem (F := F) d cfg c kb qr b) :
    Sem (F := F) d cfg c .bool (.logical op ql qr) (.oper op a b) := by
  obtain ⟨va, vb, ga, gb, _, _, h1, h2⟩ := sem_cmp_explicit d cfg c op cop hop ka kb ql qr a b ha hb
  exact ⟨_, _, none, h1, h2, rfl, rfl⟩

/-- `or` over two operands of the fragment (any kinds): the oracle's value, with the oracle's
short-circuit -/
theorem sem_or (d : Doc) (cfg : ECfg) (c : Ref) (ka kb : Kind) (ql qr : Plan) (a b : Ast)
    (ha : Sem (F := F) d cfg c ka ql a) (hb : Sem (F := F) d cfg c kb qr b) :
    Sem (F := F) d cfg c .bool (.boolean true ql qr) (.oper "or" a b) := by
  obtain ⟨ma, va, ga, hea, hsa, hra, _⟩ := ha
  obtain ⟨mb, vb, gb, heb, hsb, hrb, _⟩ := hb
  have hba := asBool_vrel ma va hra
  cases ht : Spec.toBool va with
  | true =>
    rw [ht] at hba
    exact ⟨_, _, none, evalP_or_left d cfg ql qr c ma hea hba, (spec_or d a b _ va ga hsa).1 ht, rfl, rfl⟩
  | false =>
    rw [ht] at hba
    exact ⟨_, _, none, evalP_or_right d cfg ql qr c ma mb _ hea hba heb (asBool_vrel mb vb hrb),
      (spec_or d a b _ va ga hsa).2 vb gb ht hsb, rfl, rfl⟩

theorem sem_and (d : Doc) (cfg : ECfg) (c : Ref) (ka kb : Kind) (ql qr : Plan) (a b : Ast)
    (ha : Sem (F := F) d cfg c ka ql a) (hb : Sem (F := F) d cfg c kb qr b) :
    Sem (F := F) d cfg c .bool (.boolean false ql qr) (.oper "and" a b) := by
  obtain ⟨ma, va, ga, hea, hsa, hra, _⟩ := ha
  obtain ⟨mb, vb, gb, heb, hsb, hrb, _⟩ := hb
  have hba := asBool_vrel ma va hra
  cases ht : Spec.toBool va with
  | false =>
    rw [ht] at hba
    exact ⟨_, _, none, evalP_and_left d cfg ql qr c ma hea hba, (spec_and d a b _ va ga hsa).1 ht, rfl, rfl⟩
  | true =>
    rw [ht] at hba
    exact ⟨_, _, none, evalP_and_right d cfg ql qr c ma mb _ hea hba heb (asBool_vrel mb vb hrb),
      (spec_and d a b _ va ga hsa).2 vb gb ht hsb, rfl, rfl⟩

/-- `or`/`and`, short-circuit at the `Sem` level: when the left operand (in the fragment) decides,
the right operand may be *any* plan and *any* expression — it is evaluated on neither side -/
theorem sem_or_short (d : Doc) (cfg : ECfg) (c : Ref) (ka : Kind) (ql qr : Plan) (a b : Ast)
    (ha : Sem (F := F) d cfg c ka ql a)
    (ht : ∀ v g, Spec.eval (F := F) d a ⟨c, 1, 1⟩ = .ok (.val v g) → Spec.toBool v = true) :
    Sem (F := F) d cfg c .bool (.boolean true ql qr) (.oper "or" a b) := by
  obtain ⟨ma, va, ga, hea, hsa, hra, _⟩ := ha
  have hba := asBool_vrel ma va hra
  rw [ht va ga hsa] at hba
  exact ⟨_, _, none, evalP_or_left d cfg ql qr c ma hea hba, (spec_or d a b _ va ga hsa).1 (ht va ga hsa), rfl, rfl⟩

theorem sem_and_short (d : Doc) (cfg : ECfg) (c : Ref) (ka : Kind) (ql qr : Plan) (a b : Ast)
    (ha : Sem (F := F) d cfg c ka ql a)
    (ht : ∀ v g, Spec.eval (F := F) d a ⟨c, 1, 1⟩ = .ok (.val v g) → Spec.toBool v = false) :
    Sem (F := F) d cfg c .bool (.boolean false ql qr) (.oper "and" a b) := by
  obtain ⟨ma, va, ga, hea, hsa, hra, _⟩ := ha
  have hba := asBool_vrel ma va hra
  rw [ht va ga hsa] at hba
  exact ⟨_, _, none, evalP_and_left d cfg ql qr c ma hea hba, (spec_and d a b _ va ga hsa).1 (ht va ga hsa), rfl, rfl⟩

/-- evaluation of a one-argument call of a function that is not one of the name functions -/
theorem evalP_func1 (d : Doc) (cfg : ECfg) (c : Ref) (name : String) (fi h : Plan)
    (hn : (name == "name" || name == "local-name" || name == "namespace-uri") = false) :
    evalP (F := F) d cfg (.func name fi (.pcons h .pnil)) c =
      callFn (F := F) d cfg name fi c [evalP (F := F) d cfg h c] none := by
  simp only [evalP, argVals, bind, Except.bind, hn, Bool.false_eq_true, ↓reduceIte, pure, Except.pure]

theorem evalP_func0 (d : Doc) (cfg : ECfg) (c : Ref) (name : String) (fi : Plan) :
    evalP (F := F) d cfg (.func name fi .pnil) c = callFn (F := F) d cfg name fi c [] none := by
  simp only [evalP, argVals, bind, Except.bind, pure, Except.pure]

theorem spec_call1 (d : Doc) (name pfx : String) (a : Ast) (c : Spec.Ctx) (va : Spec.Value F)
    (ga : Option (List (List Ref))) (ha : Spec.eval (F := F) d a c = .ok (.val va ga)) :
    Spec.eval (F := F) d (.call name pfx (.acons a .anil)) c =
      (Spec.callFn (F := F) d c name [va]).bind (fun v => .ok (.val v none)) := by
  simp only [Spec.eval, ha, bind, Except.bind, Spec.Res.value, Spec.Res.argList]

theorem spec_call0 (d : Doc) (name pfx : String) (c : Spec.Ctx) :
    Spec.eval (F := F) d (.call name pfx .anil) c =
      (Spec.callFn (F := F) d c name []).bind (fun v => .ok (.val v none)) := by
  simp only [Spec.eval, bind, Except.bind, Spec.Res.argList]

theorem sem_boolean (d : Doc) (cfg : ECfg) (c : Ref) (ka : Kind) (q : Plan) (a : Ast) (pfx : String)
    (fi : Plan) (ha : Sem (F := F) d cfg c ka q a) :
    Sem (F := F) d cfg c .bool (.func "boolean" fi (.pcons q .pnil)) (.call "boolean" pfx (.acons a .anil)) := by
  obtain ⟨ma, va, ga, hea, hsa, hra, _⟩ := ha
  refine ⟨.bool (Spec.toBool va), .bool (Spec.toBool va), none, ?_, ?_, rfl, rfl⟩
  · rw [evalP_func1 d cfg c "boolean" fi q (by decide), hea]
    simp [callFn, asBool_vrel ma va hra, bind, Except.bind]
  · rw [spec_call1 d "boolean" pfx a _ va ga hsa, (callFn_boolean d cfg fi c ⟨c, 1, 1⟩ va none).2]
    rfl

/-- `not()` over an operand of the fragment of **any** type (boolean, node-set, number, string):
the oracle's `not(boolean(v))` -/
theorem sem_not (d : Doc) (cfg : ECfg) (c : Ref) (ka : Kind)
    (q : Plan) (a : Ast) (pfx : String) (fi : Plan) (ha : Sem (F := F) d cfg c ka q a) :
    Sem (F := F) d cfg c .bool (.func "not" fi (.pcons q .pnil)) (.call "not" pfx (.acons a .anil)) := by
  obtain ⟨ma, va, ga, hea, hsa, hra, hk⟩ := ha
  have hspec : Spec.callFn (F := F) d ⟨c, 1, 1⟩ "not" [va] = .ok (.bool (!Spec.toBool va)) := rfl
  refine ⟨.bool (!Spec.toBool va), .bool (!Spec.toBool va), none, ?_, ?_, rfl, rfl⟩
  · rw [evalP_func1 d cfg c "not" fi q (by decide), hea]
    obtain ⟨v', rfl, _, _, _, ht⟩ := vrel_emb d ma va hra
    rw [(callFn_not_spec d cfg fi c ⟨c, 1, 1⟩ v' none).1, ht]
  · rw [spec_call1 d "not" pfx a _ va ga hsa, hspec]
    rfl

theorem sem_true (d : Doc) (cfg : ECfg) (c : Ref) (pfx : String) (fi : Plan) :
    Sem (F := F) d cfg c .bool (.func "true" fi .pnil) (.call "true" pfx .anil) := by
  refine ⟨.bool true, .bool true, none, ?_, ?_, rfl, rfl⟩
  · rw [evalP_func0, (callFn_true d cfg fi c ⟨c, 1, 1⟩ [] none).1]
  · rw [spec_call0, (callFn_true (F := F) d cfg fi c ⟨c, 1, 1⟩ [] none).2]; rfl

theorem sem_false (d : Doc) (cfg : ECfg) (c : Ref) (pfx : String) (fi : Plan) :
    Sem (F := F) d cfg c .bool (.func "false" fi .pnil) (.call "false" pfx .anil) := by
  refine ⟨.bool false, .bool false, none, ?_, ?_, rfl, rfl⟩
  · rw [evalP_func0, (callFn_false d cfg fi c ⟨c, 1, 1⟩ [] none).1]
  · rw [spec_call0, (callFn_false (F := F) d cfg fi c ⟨c, 1, 1⟩ [] none).2]; rfl

/-- parentheses -/
theorem sem_group (d : Doc) (cfg : ECfg) (c : Ref) (k : Kind) (q : Plan) (a : Ast)
    (ha : Sem (F := F) d cfg c k q a) : Sem (F := F) d cfg c k (.group q) (.group a) := by
  obtain ⟨ma, va, ga, hea, hsa, hra, hk⟩ := ha
  exact ⟨ma, va, none, by simp only [evalP, hea],
    by simp only [Spec.eval, hsa, bind, Except.bind, Spec.Res.value], hra, hk⟩

/-! ### the operand fragment and comparison expressions -/

/-- operands: a number literal, a string literal, or a predicate-free location path (a node-set) -/
inductive Opnd : Ast → Prop
  | num (lex : String) : Opnd (.num lex)
  | str (s : String) : Opnd (.str s)
  | path (p : Ast) : PathPF p → Opnd p

/-- the static type of an operand -/
def okind : Ast → Kind
  | .num _ => .num
  | .str _ => .str
  | _ => .set

/-- the un-rewritten plan of an operand -/
def opPlan : Ast → Plan
  | .num l => .constNum l
  | .str s => .constStr s
  | p => naivePlan p

/-- comparison expressions of the property: `a op b`, `op` one of the six comparison operators,
`a`, `b` operands (number literal, string literal, path) — **every** pair of operand types, all six
operators.  (Before the repairs of the string cells this carried the table `pairC07` of the seven
pairs the property lists, with string/string, node-set/string, string/node-set and
node-set/node-set restricted to `=` and `!=`.) -/
inductive CmpExp : Ast → Prop
  | mk (op : String) (cop : Spec.CmpOp) (a b : Ast) : Spec.CmpOp.ofString op = some cop →
      Opnd a → Opnd b → CmpExp (.oper op a b)

theorem sem_opnd {d : Doc} (wf : WF d) (cfg : ECfg) (hns : cfg.nsIface = true)
    (hinj : HashInj d cfg) (c : Ref) (hc : validRef d c = true) (a : Ast) (ha : Opnd a) :
    Sem (F := F) d cfg c (okind a) (opPlan a) a := by
  cases ha with
  | num lex => exact sem_num d cfg c lex
  | str s => exact sem_str d cfg c s
  | path p hp =>
    have h := sem_path_naive (F := F) wf cfg hns hinj c hc a hp
    cases hp <;> exact h

/-- **C07, comparison expressions (un-rewritten plans)**: for a well-formed document, a valid
context node and a comparison `a op b` of the property's fragment, the plan
`.logical op (plan a) (plan b)` evaluates to `Spec.compare d op va vb`, where `va`, `vb` are the
oracle's values of the operands — and that is the oracle's value of the expression -/
theorem cmp_sem {d : Doc} (wf : WF d) (cfg : ECfg) (hns : cfg.nsIface = true)
    (hinj : HashInj d cfg) (c : Ref) (hc : validRef d c = true)
    (op : String) (cop : Spec.CmpOp) (a b : Ast) (hop : Spec.CmpOp.ofString op = some cop)
    (ha : Opnd a) (hb : Opnd b) :
    ∃ (va vb : Spec.Value F) (ga gb : Option (List (List Ref))),
      Spec.eval (F := F) d a ⟨c, 1, 1⟩ = .ok (.val va ga) ∧
      Spec.eval (F := F) d b ⟨c, 1, 1⟩ = .ok (.val vb gb) ∧
      evalP (F := F) d cfg (.logical op (opPlan a) (opPlan b)) c = .ok (.bool (Spec.compare d cop va vb)) ∧
      Spec.eval (F := F) d (.oper op a b) ⟨c, 1, 1⟩ = .ok (.val (.bool (Spec.compare d cop va vb)) none) :=
  sem_cmp_explicit d cfg c op cop hop _ _ _ _ a b (sem_opnd wf cfg hns hinj c hc a ha)
    (sem_opnd wf cfg hns hinj c hc b hb)

/-- the same against the top-level oracle -/
theorem cmp_sem_evalTop {d : Doc} (wf : WF d) (cfg : ECfg) (hns : cfg.nsIface = true)
    (hinj : HashInj d cfg) (c : Ref) (hc : validRef d c = true) (e : Ast) (he : CmpExp e) :
    ∃ (op : String) (a b : Ast) (t : Bool), e = .oper op a b ∧
      evalP (F := F) d cfg (.logical op (opPlan a) (opPlan b)) c = .ok (.bool t) ∧
      Spec.evalTop (F := F) d e c = .ok (.bool t) := by
  cases he with
  | mk op cop a b hop ha hb =>
    obtain ⟨va, vb, ga, gb, _, _, h1, h2⟩ := cmp_sem (F := F) wf cfg hns hinj c hc op cop a b hop ha hb
    exact ⟨op, a, b, _, rfl, h1, by simp [Spec.evalTop, h2, bind, Except.bind, pure, Except.pure, Spec.Res.value]⟩

/-! ### closure under `and` / `or` / `not()` / `boolean()` / `true()` / `false()` / parentheses -/

/-- the expression fragment, indexed by the static type of the expression, over two leaf fragments
`NP` (number-valued expressions) and `SP` (string-valued expressions).  Comparison nodes take *any*
two expressions of the fragment as operands — **every** pair of the four types (number, string,
node-set, boolean), all six operators: after the repairs of `cmpStringStringF`, `cmpNodeSetString`,
`cmpStringNumeric`, `cmpBooleanAny` and `cmpAnyBoolean` no type pair is excluded (the constructor
used to carry `pairOK cop ka kb = true`); `and`, `or`, `boolean()` and — after the repair of
`notFunc` — `not()` take an operand of **any** type. -/
inductive XExpG (NP SP : Ast → Prop) : Kind → Ast → Prop
  | num (lex : String) : XExpG NP SP .num (.num lex)
  | str (s : String) : XExpG NP SP .str (.str s)
  | path (p : Ast) : PathPF p → XExpG NP SP .set p
  /-- a number-valued expression of the leaf fragment (arithmetic, `count()`, …) -/
  | numE (e : Ast) : NP e → XExpG NP SP .num e
  /-- a string-valued expression of the leaf fragment (string functions) -/
  | strE (e : Ast) : SP e → XExpG NP SP .str e
  | cmp (op : String) (cop : Spec.CmpOp) (ka kb : Kind) (a b : Ast) :
      Spec.CmpOp.ofString op = some cop → XExpG NP SP ka a → XExpG NP SP kb b →
      XExpG NP SP .bool (.oper op a b)
  | and (ka kb : Kind) (a b : Ast) : XExpG NP SP ka a → XExpG NP SP kb b → XExpG NP SP .bool (.oper "and" a b)
  | or (ka kb : Kind) (a b : Ast) : XExpG NP SP ka a → XExpG NP SP kb b → XExpG NP SP .bool (.oper "or" a b)
  | not (ka : Kind) (a : Ast) (pfx : String) : XExpG NP SP ka a →
      XExpG NP SP .bool (.call "not" pfx (.acons a .anil))
  | boolean (ka : Kind) (a : Ast) (pfx : String) : XExpG NP SP ka a →
      XExpG NP SP .bool (.call "boolean" pfx (.acons a .anil))
  | true (pfx : String) : XExpG NP SP .bool (.call "true" pfx .anil)
  | false (pfx : String) : XExpG NP SP .bool (.call "false" pfx .anil)
  | group (k : Kind) (a : Ast) : XExpG NP SP k a → XExpG NP SP k (.group a)

/-- **the C07 fragment**: number-valued leaves are the arithmetic expressions of C08
(`ArithSem.NumEC`: literals, `+ - * div`, unary minus, `floor`, `ceiling`, `number`,
`string-length('…')`, `count` over flat paths), string-valued leaves the nested string-function
calls of C09 (`StringFns.StrE`: `concat`, `substring-before/after`, `substring`, `normalize-space`,
`translate`, `lower-case`, `string`).  So `not(count(b))`, `not(1 - 1)`, `not(concat('', ''))`,
`count(a) > 1 and not('')` … are all in the fragment. -/
abbrev XExp : Kind → Ast → Prop := XExpG ArithSem.NumEC StringFns.StrE

/-- the core fragment without leaf fragments (literals and paths only) -/
abbrev XExp0 : Kind → Ast → Prop := XExpG (fun _ => False) (fun _ => False)

theorem XExpG.mono {NP NP' SP SP' : Ast → Prop} (hn : ∀ e, NP e → NP' e) (hs : ∀ e, SP e → SP' e)
    {k : Kind} {e : Ast} (h : XExpG NP SP k e) : XExpG NP' SP' k e := by
  induction h with
  | num lex => exact .num lex
  | str s => exact .str s
  | path p hp => exact .path p hp
  | numE e he => exact .numE e (hn e he)
  | strE e he => exact .strE e (hs e he)
  | cmp op cop ka kb a b hop _ _ iha ihb => exact .cmp op cop ka kb a b hop iha ihb
  | and ka kb a b _ _ iha ihb => exact .and ka kb a b iha ihb
  | or ka kb a b _ _ iha ihb => exact .or ka kb a b iha ihb
  | not ka a pfx _ ih => exact .not ka a pfx ih
  | boolean ka a pfx _ ih => exact .boolean ka a pfx ih
  | true pfx => exact .true pfx
  | false pfx => exact .false pfx
  | group k a _ ih => exact .group k a ih

theorem XExpG.of_opnd {NP SP : Ast → Prop} (a : Ast) (h : Opnd a) : XExpG NP SP (okind a) a := by
  cases h with
  | num lex => exact .num lex
  | str s => exact .str s
  | path p hp => cases hp <;> exact .path _ (by constructor <;> assumption)

/-- the property's comparison expressions are in the fragment -/
theorem XExpG.of_cmpExp {NP SP : Ast → Prop} (e : Ast) (h : CmpExp e) : XExpG NP SP .bool e := by
  cases h with
  | mk op cop a b hop ha hb =>
    exact .cmp op cop _ _ a b hop (.of_opnd a ha) (.of_opnd b hb)

/-- boolean combinations of the property's comparison expressions (the closure the property asks
for), as a sub-fragment of `XExp .bool` -/
inductive BExp : Ast → Prop
  | cmp (e : Ast) : CmpExp e → BExp e
  | and (a b : Ast) : BExp a → BExp b → BExp (.oper "and" a b)
  | or (a b : Ast) : BExp a → BExp b → BExp (.oper "or" a b)
  | not (a : Ast) (pfx : String) : BExp a → BExp (.call "not" pfx (.acons a .anil))
  | boolean (a : Ast) (pfx : String) : BExp a → BExp (.call "boolean" pfx (.acons a .anil))

theorem XExpG.of_bexp {NP SP : Ast → Prop} (e : Ast) (h : BExp e) : XExpG NP SP .bool e := by
  induction h with
  | cmp e he => exact .of_cmpExp e he
  | and a b _ _ iha ihb => exact .and _ _ a b iha ihb
  | or a b _ _ iha ihb => exact .or _ _ a b iha ihb
  | not a pfx _ ih => exact .not _ a pfx ih
  | boolean a pfx _ ih => exact .boolean _ a pfx ih

theorem XExp.of_opnd (a : Ast) (h : Opnd a) : XExp (okind a) a := XExpG.of_opnd a h
theorem XExp.of_cmpExp (e : Ast) (h : CmpExp e) : XExp .bool e := XExpG.of_cmpExp e h
theorem XExp.of_bexp (e : Ast) (h : BExp e) : XExp .bool e := XExpG.of_bexp e h

/-- the un-rewritten plan of an expression: literals → constants, paths → `naivePlan`, comparison
nodes → `.logical`, `and`/`or` → `.boolean`, calls → `.func` (no first input), `(e)` → `.group` -/
def xplan : Ast → Plan
  | .num l => .constNum l
  | .str s => .constStr s
  | .none => .context
  | .root _ => .absolute
  | .axis a inp => stepPlan a (naivePlan inp)
  | .group x => .group (xplan x)
  | .oper op l r =>
    if op = "and" then .boolean false (xplan l) (xplan r)
    else if op = "or" then .boolean true (xplan l) (xplan r)
    else .logical op (xplan l) (xplan r)
  | .call name _ args => .func name .nil (xplan args)
  | .anil => .pnil
  | .acons h t => .pcons (xplan h) (xplan t)
  | .filter _ _ => .nil
  | .var _ _ => .nil

theorem xplan_path (p : Ast) (hp : PathPF p) : xplan p = naivePlan p := by
  cases hp <;> rfl

theorem xplan_opnd (a : Ast) (ha : Opnd a) : xplan a = opPlan a := by
  cases ha with
  | num lex => rfl
  | str s => rfl
  | path p hp => cases hp <;> rfl

theorem xplan_cmp (op : String) (cop : Spec.CmpOp) (hop : Spec.CmpOp.ofString op = some cop) (a b : Ast) :
    xplan (.oper op a b) = .logical op (xplan a) (xplan b) := by
  rcases ofString_inv op cop hop with h | h | h | h | h | h <;> subst h <;> simp [xplan]

/-- **C07, expression level (un-rewritten plans)**: every expression of the fragment is evaluated by
its plan, without failure, to (a representative of) the value the XPath 1.0 oracle assigns to it —
for any leaf fragments whose members are (`hN`, `hS`) -/
theorem xexpG_sem {d : Doc} (wf : WF d) (cfg : ECfg) (hns : cfg.nsIface = true)
    (hinj : HashInj d cfg) (c : Ref) (hc : validRef d c = true) {NP SP : Ast → Prop}
    (hN : ∀ e, NP e → Sem (F := F) d cfg c .num (xplan e) e)
    (hS : ∀ e, SP e → Sem (F := F) d cfg c .str (xplan e) e)
    (k : Kind) (e : Ast) (h : XExpG NP SP k e) :
    Sem (F := F) d cfg c k (xplan e) e := by
  induction h with
  | num lex => exact sem_num d cfg c lex
  | str s => exact sem_str d cfg c s
  | path p hp => rw [xplan_path p hp]; exact sem_path_naive wf cfg hns hinj c hc p hp
  | numE e he => exact hN e he
  | strE e he => exact hS e he
  | cmp op cop ka kb a b hop _ _ iha ihb =>
    rw [xplan_cmp op cop hop]; exact sem_cmp d cfg c op cop hop ka kb _ _ a b iha ihb
  | and ka kb a b _ _ iha ihb => exact sem_and d cfg c ka kb _ _ a b iha ihb
  | or ka kb a b _ _ iha ihb => exact sem_or d cfg c ka kb _ _ a b iha ihb
  | not ka a pfx _ ih => exact sem_not d cfg c ka _ a pfx .nil ih
  | boolean ka a pfx _ ih => exact sem_boolean d cfg c ka _ a pfx .nil ih
  | true pfx => exact sem_true d cfg c pfx .nil
  | false pfx => exact sem_false d cfg c pfx .nil
  | group k a _ ih => exact sem_group d cfg c k _ a ih

/-- the core fragment (literals and paths as leaves) on un-rewritten plans -/
theorem xexp_sem {d : Doc} (wf : WF d) (cfg : ECfg) (hns : cfg.nsIface = true)
    (hinj : HashInj d cfg) (c : Ref) (hc : validRef d c = true) (k : Kind) (e : Ast) (h : XExp0 k e) :
    Sem (F := F) d cfg c k (xplan e) e :=
  xexpG_sem wf cfg hns hinj c hc (fun _ h => h.elim) (fun _ h => h.elim) k e h

/-- a `Sem` of boolean kind in plain words: both sides yield the same truth value -/
theorem sem_bool_out (d : Doc) (cfg : ECfg) (c : Ref) (q : Plan) (e : Ast)
    (h : Sem (F := F) d cfg c .bool q e) :
    ∃ t : Bool, evalP (F := F) d cfg q c = .ok (.bool t) ∧ Spec.evalTop (F := F) d e c = .ok (.bool t) := by
  obtain ⟨mv, v, g, he, hs, hr, hk⟩ := h
  obtain ⟨t, rfl, rfl⟩ := vrel_bool mv v hr hk
  exact ⟨t, he, by simp [Spec.evalTop, hs, bind, Except.bind, pure, Except.pure, Spec.Res.value]⟩

/-- **C07 for boolean-valued expressions of the fragment**: comparison expressions closed under
`and`/`or`/`not()`/`boolean()` (any nesting) evaluate to the truth value the oracle assigns -/
theorem bool_expr_sem {d : Doc} (wf : WF d) (cfg : ECfg) (hns : cfg.nsIface = true)
    (hinj : HashInj d cfg) (c : Ref) (hc : validRef d c = true) (e : Ast) (h : XExp0 .bool e) :
    ∃ t : Bool, evalP (F := F) d cfg (xplan e) c = .ok (.bool t) ∧
      Spec.evalTop (F := F) d e c = .ok (.bool t) :=
  sem_bool_out d cfg c _ e (xexp_sem wf cfg hns hinj c hc .bool e h)

theorem bexp_sem {d : Doc} (wf : WF d) (cfg : ECfg) (hns : cfg.nsIface = true)
    (hinj : HashInj d cfg) (c : Ref) (hc : validRef d c = true) (e : Ast) (h : BExp e) :
    ∃ t : Bool, evalP (F := F) d cfg (xplan e) c = .ok (.bool t) ∧
      Spec.evalTop (F := F) d e c = .ok (.bool t) :=
  bool_expr_sem wf cfg hns hinj c hc e (XExpG.of_bexp e h)

/-! ## 4. Through `build` -/

theorem axisPlan_kind (a : AxisInfo) (fl : Flags) (pr : Props) (inp q : Plan) (pr' : Props)
    (h : axisPlan a fl pr inp = .ok (q, pr')) : isPathKind q = true := by
  unfold axisPlan at h
  split at h <;> first
    | (cases h; done)
    | (simp only [Except.ok.injEq, Prod.mk.injEq] at h
       obtain ⟨rfl, _⟩ := h
       first | rfl | (split <;> rfl))

/-- the plan `build` makes of a predicate-free path is of one of the axis query types -/
theorem build_path_kind (regexOk : RegexOk) (limit : Nat) (snt sdf : Bool) (p : Ast) (hp : PathPF p)
    (fl : Flags) (st : BState) (o : BOut) (h : build regexOk limit snt sdf p fl st = .ok o) :
    isPathKind o.q = true := by
  cases hp with
  | none => rw [build] at h; cases h
  | root s =>
    rw [build] at h
    replace h := enter_ok _ _ _ _ h
    cases h; rfl
  | axis a inp hinp ha =>
    cases hinp with
    | none =>
      rw [build] at h
      replace h := enter_ok _ _ _ _ h
      obtain ⟨⟨q, props⟩, hq, hfin⟩ := except_bind_ok _ _ _ h
      rw [finAxis_q _ _ _ _ hfin]
      exact axisPlan_kind _ _ _ _ _ _ hq
    | root s =>
      rw [build] at h
      · replace h := enter_ok _ _ _ _ h
        obtain ⟨o1, ho1, h⟩ := except_bind_ok _ _ _ h
        obtain ⟨⟨q, props⟩, hq, hfin⟩ := except_bind_ok _ _ _ h
        rw [finAxis_q _ _ _ _ hfin]
        exact axisPlan_kind _ _ _ _ _ _ hq
      · intro h; cases h
      · intro b g h; cases h
    | axis b g hg hb =>
      rw [build] at h
      replace h := enter_ok _ _ _ _ h
      simp only [] at h
      split at h
      · cases hg with
        | none =>
          simp only [pure, Except.pure, bind, Except.bind] at h
          rw [finAxis_q _ _ _ _ h]; rfl
        | root s =>
          simp only [] at h
          obtain ⟨o1, ho1, h⟩ := except_bind_ok _ _ _ h
          simp only [pure, Except.pure, bind, Except.bind] at h
          rw [finAxis_q _ _ _ _ h]; rfl
        | axis e g2 hg2 he =>
          simp only [] at h
          obtain ⟨o1, ho1, h⟩ := except_bind_ok _ _ _ h
          simp only [pure, Except.pure, bind, Except.bind] at h
          rw [finAxis_q _ _ _ _ h]; rfl
      · obtain ⟨o1, ho1, h⟩ := except_bind_ok _ _ _ h
        obtain ⟨⟨q, props⟩, hq, hfin⟩ := except_bind_ok _ _ _ h
        rw [finAxis_q _ _ _ _ hfin]
        exact axisPlan_kind _ _ _ _ _ _ hq

/-- a predicate-free path, the plan `build` makes of it (all rewrites): from `PathSem.build_pathpf`
and `PathSem.naive_sem` -/
theorem sem_path_build {d : Doc} (wf : WF d) (cfg : ECfg) (hns : cfg.nsIface = true)
    (hinj : HashInj d cfg) (c : Ref) (hc : validRef d c = true) (regexOk : RegexOk) (limit : Nat)
    (sdf : Bool) (p : Ast) (hp : PathPF p) (st : BState) (o : BOut)
    (hb : build regexOk limit true sdf p {} st = .ok o) :
    Sem (F := F) d cfg c .set o.q p := by
  obtain ⟨out, nv, h1, h2, h12⟩ := build_pathpf (F := F) wf cfg hinj regexOk limit sdf p hp st o hb c hc
  obtain ⟨nv', ns, g, h2', hev, hmem, hval⟩ := naive_sem (F := F) wf cfg hns hinj p hp c hc
  rw [h2] at h2'; cases h2'
  obtain ⟨l, hl, hlm⟩ := path_val_of_sel (F := F) d cfg o.q
    (build_path_kind regexOk limit true sdf p hp {} st o hb) c out ns h1
    (fun x => (h12 x).trans (hmem x)) hval
  exact ⟨.nodes l, .nodes ns, g, hl, hev, hlm, rfl⟩

/-! ### inversion of `build` on the node types of the fragment -/

theorem build_oper_inv (regexOk : RegexOk) (limit : Nat) (snt sdf : Bool) (op : String) (l r : Ast)
    (fl : Flags) (st : BState) (o : BOut) (h : build regexOk limit snt sdf (.oper op l r) fl st = .ok o) :
    ∃ st1 lo ro, build regexOk limit snt sdf l {} st1 = .ok lo ∧
      build regexOk limit snt sdf r {} lo.st = .ok ro ∧
      o.q = (if op == "+" || op == "-" || op == "*" || op == "div" || op == "mod" then .numeric op lo.q ro.q
        else if op == "=" || op == ">" || op == ">=" || op == "<" || op == "<=" || op == "!=" then .logical op lo.q ro.q
        else if op == "or" then .boolean true lo.q ro.q
        else if op == "and" then .boolean false lo.q ro.q
        else if op == "|" then .union lo.q ro.q
        else .nil) := by
  rw [build] at h
  replace h := enter_ok _ _ _ _ h
  obtain ⟨lo, hlo, h⟩ := except_bind_ok _ _ _ h
  obtain ⟨ro, hro, h⟩ := except_bind_ok _ _ _ h
  refine ⟨_, lo, ro, hlo, hro, ?_⟩
  simp only [] at h
  repeat' (split at h)
  all_goals (cases h; simp_all)

theorem build_call1_inv (regexOk : RegexOk) (limit : Nat) (snt sdf : Bool) (nm pfx : String) (a : Ast)
    (mx : Option Nat) (idx : Bool)
    (hA : fnArity nm = some (1, mx, idx))
    (hmx : mx = none ∨ mx = some 1)
    (hU : fnUsed nm 1 = 1)
    (h1 : (nm == "normalize-space" || nm == "string" || nm == "number") = false)
    (h2 : (nm == "last" || nm == "position") = false)
    (h3 : (nm == "reverse") = false) (h4 : (nm == "matches") = false)
    (fl : Flags) (st : BState) (o : BOut)
    (h : build regexOk limit snt sdf (.call nm pfx (.acons a .anil)) fl st = .ok o) :
    ∃ st1 ao, build regexOk limit snt sdf a {} st1 = .ok ao ∧ o.q = .func nm .nil (.pcons ao.q .pnil) := by
  rw [build] at h
  replace h := enter_ok _ _ _ _ h
  have hn : (a.acons Ast.anil).argList.length = 1 := rfl
  simp only [hn] at h
  rw [hA] at h
  simp only [hU, h1, h2, h3, h4, Nat.lt_irrefl, ↓reduceIte, Bool.false_eq_true, Bool.false_and] at h
  have key : ∃ ao, build regexOk limit snt sdf (a.acons Ast.anil) { take := 1 }
            { depth := st.depth + 1, firstInput := st.firstInput, predInput := st.predInput } = .ok ao ∧ o.q = .func nm .nil ao.q := by
    rcases hmx with rfl | rfl <;>
    · simp only [Nat.lt_irrefl, decide_false, ↓reduceIte, Bool.false_eq_true, gt_iff_lt] at h
      obtain ⟨ao, hao, h⟩ := except_bind_ok _ _ _ h
      cases h
      exact ⟨ao, hao, rfl⟩
  obtain ⟨ao, hao, hq⟩ := key
  rw [build] at hao
  have e : (({ take := 1 } : Flags).take == 0) = false := rfl
  simp only [e, Bool.false_eq_true, ↓reduceIte] at hao
  obtain ⟨ho, hho, hao⟩ := except_bind_ok _ _ _ hao
  obtain ⟨to, hto, hao⟩ := except_bind_ok _ _ _ hao
  rw [build] at hto
  cases hto
  cases hao
  exact ⟨_, ho, hho, hq⟩

theorem build_call0_inv (regexOk : RegexOk) (limit : Nat) (snt sdf : Bool) (nm pfx : String)
    (idx : Bool)
    (hA : fnArity nm = some (0, none, idx))
    (hU : fnUsed nm 0 = 0)
    (h1 : (nm == "normalize-space" || nm == "string" || nm == "number") = false)
    (h2 : (nm == "last" || nm == "position") = false)
    (h3 : (nm == "reverse") = false) (h4 : (nm == "matches") = false)
    (fl : Flags) (st : BState) (o : BOut)
    (h : build regexOk limit snt sdf (.call nm pfx .anil) fl st = .ok o) :
    o.q = .func nm .nil .pnil := by
  rw [build] at h
  replace h := enter_ok _ _ _ _ h
  have hn : Ast.anil.argList.length = 0 := rfl
  simp only [hn] at h
  rw [hA] at h
  simp only [hU, h1, h2, h3, h4, Nat.lt_irrefl, ↓reduceIte, Bool.false_eq_true, Bool.false_and] at h
  obtain ⟨ao, hao, h⟩ := except_bind_ok _ _ _ h
  rw [build] at hao
  cases hao
  cases h
  rfl

theorem build_lit_num (regexOk : RegexOk) (limit : Nat) (snt sdf : Bool) (l : String)
    (fl : Flags) (st : BState) (o : BOut)
    (h : build regexOk limit snt sdf (.num l) fl st = .ok o) : o.q = .constNum l := by
  rw [build] at h
  replace h := enter_ok _ _ _ _ h
  cases h; rfl

theorem build_lit_str (regexOk : RegexOk) (limit : Nat) (snt sdf : Bool) (l : String)
    (fl : Flags) (st : BState) (o : BOut)
    (h : build regexOk limit snt sdf (.str l) fl st = .ok o) : o.q = .constStr l := by
  rw [build] at h
  replace h := enter_ok _ _ _ _ h
  cases h; rfl

theorem build_group_inv (regexOk : RegexOk) (limit : Nat) (snt sdf : Bool) (x : Ast)
    (fl : Flags) (st : BState) (o : BOut)
    (h : build regexOk limit snt sdf (.group x) fl st = .ok o) :
    ∃ st1 xo, build regexOk limit snt sdf x {} st1 = .ok xo ∧ o.q = .group xo.q := by
  rw [build] at h
  replace h := enter_ok _ _ _ _ h
  obtain ⟨xo, hxo, h⟩ := except_bind_ok _ _ _ h
  cases h
  exact ⟨_, xo, hxo, rfl⟩

theorem build_cmp_q (op : String) (cop : Spec.CmpOp) (hop : Spec.CmpOp.ofString op = some cop) (lq rq : Plan) :
    (if op == "+" || op == "-" || op == "*" || op == "div" || op == "mod" then Plan.numeric op lq rq
        else if op == "=" || op == ">" || op == ">=" || op == "<" || op == "<=" || op == "!=" then .logical op lq rq
        else if op == "or" then .boolean true lq rq
        else if op == "and" then .boolean false lq rq
        else if op == "|" then .union lq rq
        else .nil) = .logical op lq rq := by
  rcases ofString_inv op cop hop with h | h | h | h | h | h <;> subst h <;> rfl

/-- **C07 through `build`**: for every expression of the fragment, the plan the builder produces
(paths with all their rewrites; comparison nodes as `logicalQuery`, `and`/`or` as `booleanQuery`,
calls as `functionQuery`, parentheses as `groupQuery`) evaluates, at every valid context node of a
well-formed document, to (a representative of) the oracle's value — for any leaf fragments whose
members do (`hN`, `hS`) -/
theorem build_xexpG {d : Doc} (wf : WF d) (cfg : ECfg) (hns : cfg.nsIface = true)
    (hinj : HashInj d cfg) (c : Ref) (hc : validRef d c = true) (regexOk : RegexOk) (limit : Nat)
    (sdf : Bool) {NP SP : Ast → Prop}
    (hN : ∀ e, NP e → ∀ (st : BState) (o : BOut), build regexOk limit true sdf e {} st = .ok o →
      Sem (F := F) d cfg c .num o.q e)
    (hS : ∀ e, SP e → ∀ (st : BState) (o : BOut), build regexOk limit true sdf e {} st = .ok o →
      Sem (F := F) d cfg c .str o.q e)
    (k : Kind) (e : Ast) (h : XExpG NP SP k e) :
    ∀ (st : BState) (o : BOut), build regexOk limit true sdf e {} st = .ok o →
      Sem (F := F) d cfg c k o.q e := by
  induction h with
  | num lex => intro st o hb; rw [build_lit_num _ _ _ _ _ _ _ _ hb]; exact sem_num d cfg c lex
  | str s => intro st o hb; rw [build_lit_str _ _ _ _ _ _ _ _ hb]; exact sem_str d cfg c s
  | path p hp => intro st o hb; exact sem_path_build wf cfg hns hinj c hc regexOk limit sdf p hp st o hb
  | numE e he => exact hN e he
  | strE e he => exact hS e he
  | cmp op cop ka kb a b hop _ _ iha ihb =>
    intro st o hb
    obtain ⟨st1, lo, ro, hlo, hro, hq⟩ := build_oper_inv _ _ _ _ _ _ _ _ _ _ hb
    rw [hq, build_cmp_q op cop hop]
    exact sem_cmp d cfg c op cop hop ka kb _ _ a b (iha _ _ hlo) (ihb _ _ hro)
  | and ka kb a b _ _ iha ihb =>
    intro st o hb
    obtain ⟨st1, lo, ro, hlo, hro, hq⟩ := build_oper_inv _ _ _ _ _ _ _ _ _ _ hb
    have hq' : o.q = .boolean false lo.q ro.q := by rw [hq]; rfl
    rw [hq']
    exact sem_and d cfg c ka kb _ _ a b (iha _ _ hlo) (ihb _ _ hro)
  | or ka kb a b _ _ iha ihb =>
    intro st o hb
    obtain ⟨st1, lo, ro, hlo, hro, hq⟩ := build_oper_inv _ _ _ _ _ _ _ _ _ _ hb
    have hq' : o.q = .boolean true lo.q ro.q := by rw [hq]; rfl
    rw [hq']
    exact sem_or d cfg c ka kb _ _ a b (iha _ _ hlo) (ihb _ _ hro)
  | not ka a pfx _ ih =>
    intro st o hb
    obtain ⟨st1, ao, hao, hq⟩ := build_call1_inv regexOk limit true sdf "not" pfx a none false
      (by rfl) (Or.inl rfl) (by rfl) (by decide) (by decide) (by decide) (by decide) _ _ _ hb
    rw [hq]
    exact sem_not d cfg c ka _ a pfx .nil (ih _ _ hao)
  | boolean ka a pfx _ ih =>
    intro st o hb
    obtain ⟨st1, ao, hao, hq⟩ := build_call1_inv regexOk limit true sdf "boolean" pfx a (some 1) false
      (by rfl) (Or.inr rfl) (by rfl) (by decide) (by decide) (by decide) (by decide) _ _ _ hb
    rw [hq]
    exact sem_boolean d cfg c ka _ a pfx .nil (ih _ _ hao)
  | true pfx =>
    intro st o hb
    rw [build_call0_inv regexOk limit true sdf "true" pfx false (by rfl) (by rfl) (by decide)
      (by decide) (by decide) (by decide) _ _ _ hb]
    exact sem_true d cfg c pfx .nil
  | false pfx =>
    intro st o hb
    rw [build_call0_inv regexOk limit true sdf "false" pfx false (by rfl) (by rfl) (by decide)
      (by decide) (by decide) (by decide) _ _ _ hb]
    exact sem_false d cfg c pfx .nil
  | group k a _ ih =>
    intro st o hb
    obtain ⟨st1, xo, hxo, hq⟩ := build_group_inv _ _ _ _ _ _ _ _ hb
    rw [hq]
    exact sem_group d cfg c k _ a (ih _ _ hxo)

/-- the arithmetic leaves (C08, `ArithSem.numEC_sem`) compute the oracle's number -/
theorem sem_numEC_build {d : Doc} (wf : WF d) (cfg : ECfg) (hns : cfg.nsIface = true)
    (hinj : HashInj d cfg) (c : Ref) (hc : validRef d c = true) (regexOk : RegexOk) (limit : Nat)
    (sdf : Bool) (e : Ast) (he : ArithSem.NumEC e) (st : BState) (o : BOut)
    (hb : build regexOk limit true sdf e {} st = .ok o) : Sem (F := F) d cfg c .num o.q e := by
  obtain ⟨x, h1, h2⟩ := ArithSem.numEC_sem (F := F) wf cfg hns hinj regexOk limit sdf c hc 1 1 he {} st o hb
  exact ⟨.num x, .num x, none, h1, h2, rfl, rfl⟩

/-- the full arithmetic fragment of C08 (`mod` and `sum` inside the oracle's domain at this context) -/
theorem sem_numEF_build {d : Doc} (wf : WF d) (cfg : ECfg) (hns : cfg.nsIface = true)
    (hinj : HashInj d cfg) (c : Ref) (hc : validRef d c = true) (regexOk : RegexOk) (limit : Nat)
    (sdf : Bool) (e : Ast) (he : ArithSem.NumEF d ⟨c, 1, 1⟩ F e) (st : BState) (o : BOut)
    (hb : build regexOk limit true sdf e {} st = .ok o) : Sem (F := F) d cfg c .num o.q e := by
  obtain ⟨x, h1, h2⟩ := ArithSem.numEF_sem (F := F) wf cfg hns hinj regexOk limit sdf c hc 1 1 he {} st o hb
  exact ⟨.num x, .num x, none, h1, h2, rfl, rfl⟩

/-- the string-function leaves (C09, `StringFns.strE_sem`) compute the oracle's string -/
theorem sem_strE_build (d : Doc) (cfg : ECfg) (c : Ref) (regexOk : RegexOk) (limit : Nat)
    (snt sdf : Bool) (e : Ast) (he : StringFns.StrE e) (st : BState) (o : BOut)
    (hb : build regexOk limit snt sdf e {} st = .ok o) : Sem (F := F) d cfg c .str o.q e := by
  obtain ⟨s, h1, _, h3, _⟩ := StringFns.strE_sem (F := F) e he d cfg c regexOk limit snt sdf st o hb
  exact ⟨.str s, .str s, none, h1, h3, rfl, rfl⟩

/-- **C07 through `build`** on `XExp` (arithmetic and string-function leaves) -/
theorem build_xexp {d : Doc} (wf : WF d) (cfg : ECfg) (hns : cfg.nsIface = true)
    (hinj : HashInj d cfg) (c : Ref) (hc : validRef d c = true) (regexOk : RegexOk) (limit : Nat)
    (sdf : Bool) (k : Kind) (e : Ast) (h : XExp k e) :
    ∀ (st : BState) (o : BOut), build regexOk limit true sdf e {} st = .ok o →
      Sem (F := F) d cfg c k o.q e :=
  build_xexpG wf cfg hns hinj c hc regexOk limit sdf
    (fun e he st o hb => sem_numEC_build wf cfg hns hinj c hc regexOk limit sdf e he st o hb)
    (fun e he st o hb => sem_strE_build d cfg c regexOk limit true sdf e he st o hb) k e h

/-- **C07 through `build`, boolean-valued expressions**: the built plan of a comparison expression,
or of any `and`/`or`/`not()`/`boolean()` combination, evaluates to the oracle's truth value -/
theorem build_bool_expr_sem {d : Doc} (wf : WF d) (cfg : ECfg) (hns : cfg.nsIface = true)
    (hinj : HashInj d cfg) (c : Ref) (hc : validRef d c = true) (regexOk : RegexOk) (limit : Nat)
    (sdf : Bool) (e : Ast) (h : XExp .bool e) (st : BState) (o : BOut)
    (hb : build regexOk limit true sdf e {} st = .ok o) :
    ∃ t : Bool, evalP (F := F) d cfg o.q c = .ok (.bool t) ∧
      Spec.evalTop (F := F) d e c = .ok (.bool t) :=
  sem_bool_out d cfg c _ e (build_xexp wf cfg hns hinj c hc regexOk limit sdf .bool e h st o hb)

/-- the same with the *full* arithmetic fragment of C08 as number-valued leaves (`mod` and `sum`
inside the oracle's domain at the context node — a hypothesis on the document, hence not part of
the document-independent `XExp`) -/
theorem build_bool_expr_sem_full {d : Doc} (wf : WF d) (cfg : ECfg) (hns : cfg.nsIface = true)
    (hinj : HashInj d cfg) (c : Ref) (hc : validRef d c = true) (regexOk : RegexOk) (limit : Nat)
    (sdf : Bool) (e : Ast) (h : XExpG (ArithSem.NumEF d ⟨c, 1, 1⟩ F) StringFns.StrE .bool e)
    (st : BState) (o : BOut) (hb : build regexOk limit true sdf e {} st = .ok o) :
    ∃ t : Bool, evalP (F := F) d cfg o.q c = .ok (.bool t) ∧
      Spec.evalTop (F := F) d e c = .ok (.bool t) :=
  sem_bool_out d cfg c _ e (build_xexpG wf cfg hns hinj c hc regexOk limit sdf
    (fun e he st o hb => sem_numEF_build wf cfg hns hinj c hc regexOk limit sdf e he st o hb)
    (fun e he st o hb => sem_strE_build d cfg c regexOk limit true sdf e he st o hb) .bool e h st o hb)

/-- the same for the property's own fragment (`BExp`: comparison expressions over literals and
predicate-free paths on every pair of operand types and all six operators, closed under `and`/`or`/`not()`/`boolean()`) -/
theorem build_bexp_sem {d : Doc} (wf : WF d) (cfg : ECfg) (hns : cfg.nsIface = true)
    (hinj : HashInj d cfg) (c : Ref) (hc : validRef d c = true) (regexOk : RegexOk) (limit : Nat)
    (sdf : Bool) (e : Ast) (h : BExp e) (st : BState) (o : BOut)
    (hb : build regexOk limit true sdf e {} st = .ok o) :
    ∃ t : Bool, evalP (F := F) d cfg o.q c = .ok (.bool t) ∧
      Spec.evalTop (F := F) d e c = .ok (.bool t) :=
  build_bool_expr_sem wf cfg hns hinj c hc regexOk limit sdf e (XExp.of_bexp e h) st o hb

/-- through `build`, a single comparison expression, with the explicit value -/
theorem build_cmp_sem {d : Doc} (wf : WF d) (cfg : ECfg) (hns : cfg.nsIface = true)
    (hinj : HashInj d cfg) (c : Ref) (hc : validRef d c = true) (regexOk : RegexOk) (limit : Nat)
    (sdf : Bool) (op : String) (cop : Spec.CmpOp) (a b : Ast) (hop : Spec.CmpOp.ofString op = some cop)
    (ha : Opnd a) (hb : Opnd b)
    (st : BState) (o : BOut) (hbd : build regexOk limit true sdf (.oper op a b) {} st = .ok o) :
    ∃ (va vb : Spec.Value F) (ga gb : Option (List (List Ref))),
      Spec.eval (F := F) d a ⟨c, 1, 1⟩ = .ok (.val va ga) ∧
      Spec.eval (F := F) d b ⟨c, 1, 1⟩ = .ok (.val vb gb) ∧
      evalP (F := F) d cfg o.q c = .ok (.bool (Spec.compare d cop va vb)) ∧
      Spec.eval (F := F) d (.oper op a b) ⟨c, 1, 1⟩ = .ok (.val (.bool (Spec.compare d cop va vb)) none) := by
  obtain ⟨st1, lo, ro, hlo, hro, hq⟩ := build_oper_inv _ _ _ _ _ _ _ _ _ _ hbd
  rw [hq, build_cmp_q op cop hop]
  exact sem_cmp_explicit d cfg c op cop hop _ _ _ _ a b
    (build_xexp wf cfg hns hinj c hc regexOk limit sdf _ a (XExp.of_opnd a ha) _ _ hlo)
    (build_xexp wf cfg hns hinj c hc regexOk limit sdf _ b (XExp.of_opnd b hb) _ _ hro)

end XPathV.CmpSem

/-! ## Axiom audit -/
section AxiomAudit
open XPathV.CmpSem
end AxiomAudit
