import XPathV.Lemmas.FullGrammarComplete.Main
import XPathV.Lemmas.FullGrammarComplete.Unique
/-!
# C10 (oracle side): the reference parser is complete for the full XPath 1.0 grammar, and the
grammar is unambiguous

`Spec/FullGrammar.lean` gives the grammar relation `D` (one constructor per production of the
Recommendation), `Parses ns toks a`, the executable reference parser `refParseFull` and its soundness
`refParseFull_sound`.  Here is the converse:

* `refParseFull_complete : Parses ns toks a → refParseFull ns toks = some a`
* `refParseFull_iff      : refParseFull ns toks = some a ↔ Parses ns toks a`
* `Parses_unique         : Parses ns toks a → Parses ns toks b → a = b`
* `D_expr_unique         : D ns .Expr ts a → D ns .Expr ts b → a = b` (any ExprToken list, classified
  or not), and for every non-terminal `D_unique : D ns X ts a → D ns X ts b → a = b`
  (`FullGrammarComplete/Unique.lean`)
* per parser function: `pPath_complete`, `pUnion_complete`, `pRel_complete`, `pStep_complete`,
  `pFilter_complete`, `pPrimary_complete`, `pArgs_complete`, `pPreds_complete`, `pUnary_complete`

Structure of the proof (sub-files of `FullGrammarComplete/`):

* `First`  — First sets: `D.first : D ns X ts a → First X ts`;
* `Defs`   — for every parser function a *parse statement* `PX ts a`: "on `ts ++ rest`, for every
  `rest` whose first token does not continue the construct (Follow condition) and every fuel
  `f ≥ 16·|ts| + k_X`, the function returns `(a, rest)`"; the iterative forms `TTail`/`RTail`/`PTail`
  of the left-recursive productions; the induction motive `M`;
* `Loops`  — the accumulator loops read an iterative tail and stop at `rest`;
* `Heads`  — the one-token decisions of the parser, from the First sets;
* `Main`   — `D.complete : D ns X ts a → M ns X ts a` by induction on the derivation;
* `Unique` — `M.unique`, `D_unique`.

The fuel `32·(n+2)` of `refParseFull` is enough because `16·n + 19` is (`PExpr`).
-/
namespace XPathV.Spec.Full
open XPathV

/-- every derivable Expr is what `pTier … upperTiers` returns, with any fuel `≥ 16·|ts| + 19` -/
theorem pTier_complete {ns : Option NsMap} {ts : List ETok} {a : Ast} (h : D ns .Expr ts a)
    {f : Nat} (hf : 16 * ts.length + 19 ≤ f) : pTier ns f upperTiers ts = some (a, []) := by
  have hp : PExpr ns ts a := D.complete h
  simpa using hp f [] trivial hf

/-! ### completeness of the individual parser functions (each with its Follow condition on `rest`
and its fuel bound, see `Defs`) -/

theorem pPath_complete {ns : Option NsMap} {ts : List ETok} {a : Ast} (h : D ns .PathExpr ts a) :
    ∀ f rest, okHead blkPath rest → 16 * ts.length + 4 ≤ f → pPath ns f (ts ++ rest) = some (a, rest) :=
  D.complete h

theorem pUnion_complete {ns : Option NsMap} {ts : List ETok} {a : Ast} (h : D ns .UnionExpr ts a) :
    ∀ f rest, okHead blkU rest → 16 * ts.length + 5 ≤ f → pUnion ns f (ts ++ rest) = some (a, rest) :=
  union_of_spine (D.complete h)

theorem pUnary_complete {ns : Option NsMap} {n : Nat} {ts : List ETok} {x : Ast}
    (h : D ns (.UnaryRun n) ts x) :
    ∀ f m rest, okHead blkU rest → 16 * ts.length + 6 ≤ f →
      pUnary ns f m (ts ++ rest) = some (negEnc (m + n) x, rest) :=
  D.complete h

theorem pRel_complete {ns : Option NsMap} {inp : Ast} {ts : List ETok} {a : Ast}
    (h : D ns (.RelativeLocationPath inp) ts a) :
    ∀ f rest, okHead isRelCont rest → 16 * ts.length + 3 ≤ f →
      pRel ns f inp (ts ++ rest) = some (a, rest) :=
  rel_of_spine (D.complete h)

theorem pStep_complete {ns : Option NsMap} {inp : Ast} {ts : List ETok} {a : Ast}
    (h : D ns (.Step inp) ts a) :
    ∀ f rest, okHead isLb rest → 16 * ts.length + 2 ≤ f → pStep ns f inp (ts ++ rest) = some (a, rest) :=
  D.complete h

theorem pPreds_complete {ns : Option NsMap} {inp : Ast} {ts : List ETok} {a : Ast}
    (h : D ns (.Predicates inp) ts a) :
    ∀ f rest, okHead isLb rest → 16 * ts.length + 1 ≤ f → pPreds ns f inp (ts ++ rest) = some (a, rest) :=
  preds_loop (D.complete h)

theorem pFilter_complete {ns : Option NsMap} {ts : List ETok} {a : Ast} (h : D ns .FilterExpr ts a) :
    ∀ f rest, okHead isLb rest → 16 * ts.length + 2 ≤ f → pFilter ns f (ts ++ rest) = some (a, rest) :=
  filter_of_spine (D.complete h)

theorem pPrimary_complete {ns : Option NsMap} {ts : List ETok} {a : Ast} (h : D ns .PrimaryExpr ts a) :
    ∀ f rest, 16 * ts.length + 1 ≤ f → pPrimary ns f (ts ++ rest) = some (a, rest) :=
  D.complete h

theorem pArgs_complete {ns : Option NsMap} {ts : List ETok} {a : Ast} (h : D ns .Arguments ts a) :
    ∀ f rest, 16 * ts.length + 20 ≤ f → pArgs ns f (ts ++ .rparen :: rest) = some (a, rest) :=
  D.complete h

/-- Expr [14] with a continuation: `rest` empty or starting with `)`, `]`, `,` or any other token that
is no operator, `/`, `//`, `[`, `|` and starts no step -/
theorem pTier_complete_rest {ns : Option NsMap} {ts : List ETok} {a : Ast} (h : D ns .Expr ts a) :
    ∀ f rest, okHead (blkT upperTiers) rest → 16 * ts.length + 19 ≤ f →
      pTier ns f upperTiers (ts ++ rest) = some (a, rest) :=
  D.complete h

/-- **Completeness of the reference parser**: the tree of every derivation of the grammar is the one
the reference parser returns. -/
theorem refParseFull_complete {ns : Option NsMap} {toks : List TokV} {a : Ast}
    (h : Parses ns toks a) : refParseFull ns toks = some a := by
  have e := pTier_complete (f := 32 * ((classify none toks).length + 2)) h (by omega)
  simp only [refParseFull, e]

/-- the reference parser decides the grammar -/
theorem refParseFull_iff {ns : Option NsMap} {toks : List TokV} {a : Ast} :
    refParseFull ns toks = some a ↔ Parses ns toks a :=
  ⟨refParseFull_sound, refParseFull_complete⟩

/-- **Unambiguity of the full XPath 1.0 expression grammar** (after the token classification of
§3.7): the tree is a function of the token stream. -/
theorem Parses_unique {ns : Option NsMap} {toks : List TokV} {a b : Ast}
    (ha : Parses ns toks a) (hb : Parses ns toks b) : a = b := by
  have h := (refParseFull_complete ha).symm.trans (refParseFull_complete hb)
  exact Option.some.inj h

/-- unambiguity on ExprToken lists (whether or not they come from `classify`) -/
theorem D_expr_unique {ns : Option NsMap} {ts : List ETok} {a b : Ast}
    (ha : D ns .Expr ts a) (hb : D ns .Expr ts b) : a = b := by
  have h := (pTier_complete ha (Nat.le_refl _)).symm.trans (pTier_complete hb (Nat.le_refl _))
  simpa using h

/-- what the reference parser rejects is not an expression -/
theorem not_Parses_of_none {ns : Option NsMap} {toks : List TokV} (h : refParseFull ns toks = none)
    (a : Ast) : ¬ Parses ns toks a := by
  intro hp
  rw [refParseFull_complete hp] at h
  cases h

instance {ns : Option NsMap} {toks : List TokV} {a : Ast} : Decidable (Parses ns toks a) :=
  decidable_of_iff _ refParseFull_iff

/-! ## Examples -/
section Examples
open TokV

-- a/b[1] has exactly one tree
example (t : Ast) (h : Parses none [nm "a", slash, nm "b", lbracket, num "1", rbracket] t) :
    t = .filter (child "b" (child "a")) (.num "1") :=
  Parses_unique h (refParseFull_sound (by decide))

-- - - - a | b : one run of three minus signs over the union
example (t : Ast) (h : Parses none [minus, minus, minus, nm "a", union, nm "b"] t) :
    t = neg1 (.oper "|" (child "a") (child "b")) :=
  Parses_unique h (refParseFull_sound (by decide))

-- * * * : NameTest, MultiplyOperator, NameTest — and nothing else
example (t : Ast) (h : Parses none [star, star, star] t) : t = .oper "*" childAny childAny :=
  Parses_unique h (refParseFull_sound (by decide))

-- count(//a) + 1 > 2 and not(b)
example (t : Ast) (h : Parses none
      [fn "count", lparen, slashslash, nm "a", rparen, plus, num "1", gt, num "2", nm "and",
       fn "not", lparen, nm "b", rparen] t) :
    t = .oper "and"
        (.oper ">"
          (.oper "+" (.call "count" "" (.acons (child "a" (dos (.root "/"))) .anil)) (.num "1"))
          (.num "2"))
        (.call "not" "" (.acons (child "b") .anil)) :=
  Parses_unique h (refParseFull_sound (by decide))

-- the hand derivation of §4 of Spec/FullGrammar.lean is found by the parser
example : refParseFull none [star, star, star] = some (.oper "*" childAny childAny) :=
  refParseFull_complete (by
    show D none .Expr [.wild, .mul, .wild] _
    have w : D none (.Step .none) ([] ++ [.wild] ++ []) childAny := .step (.abbrev .child) .wild .preds_nil
    have p : D none .PathExpr [.wild] childAny := .path_loc (.loc_rel (.rel_step (by simpa using w)))
    have u : D none .UnaryExpr [.wild] childAny := by
      simpa [negEnc] using D.unary (.unary_union (.up rfl p))
    have m : D none .MultiplicativeExpr ([.wild] ++ [.mul] ++ [.wild]) (.oper "*" childAny childAny) :=
      .bin rfl (by simp) (D.of_path p) u
    exact D.expr_of_mul m)

-- no derivation exists for what the parser rejects:  a b,  .[1],  / and b,  a/,  text(1)
example (t : Ast) : ¬ Parses none [nm "a", nm "b"] t := not_Parses_of_none (by decide) t
example (t : Ast) : ¬ Parses none [dot, lbracket, num "1", rbracket] t := not_Parses_of_none (by decide) t
example (t : Ast) : ¬ Parses none [slash, nm "and", nm "b"] t := not_Parses_of_none (by decide) t
example (t : Ast) : ¬ Parses none [nm "a", slash] t := not_Parses_of_none (by decide) t
example (t : Ast) : ¬ Parses none [fn "text", lparen, num "1", rparen] t := not_Parses_of_none (by decide) t

-- `Parses` is decidable
example : Parses none [slash, union, nm "a"] (.oper "|" (.root "/") (child "a")) := by decide

end Examples

end XPathV.Spec.Full

