import XPathV.Lemmas.PredSem2.Truth
/-!
# C02, extension — the fragment `Frag2`, the naive plan `predPlan2`, model = oracle on naive plans

`Frag2` extends `PredSem.Frag` by

* `count(P) op n` and `n op count(P)` (the six comparison operators, `n` a number literal),
* `not(count(P))` (after the repair of `notFunc`: `not` of a number is `not(boolean(…))`),
* `contains(S, 'lit')`, `starts-with(S, 'lit')`, `ends-with(S, 'lit')` with
  `S ∈ { 'literal', local-name(), local-name(P), P }`,
* (after the repair of `containsFunc`/`startwithFunc`/`endwithFunc`, which now read their second
  argument like the first) `contains(P, Q)`, `contains('lit', Q)` … with a flat path `Q` in *second*
  position,
* `local-name() = 'lit'`, `local-name() != 'lit'`, `local-name(P) = 'lit'`, `local-name(P) != 'lit'`,
* the path form `(P)[b]` (a parenthesised path filtered by a boolean-valued predicate),
* a path compared with a path, `P op Q` for all six operators (`//a[b = c]`, `//a[@x != ../@y]`,
  `//a[b < c/d]`): `P` and `Q` are *arbitrary* paths of the fragment (all twelve axes, any
  predicates, **no** flatness requirement — the truth is existential over the two node sets,
  `compare_nodes_congr`).  (First stated for `=`/`!=` only: the engine compared string-values
  byte-wise for `<`, `<=`, `>`, `>=` — `<b>10</b>` against `<c>9</c>` satisfied `b < c`;
  `cmpStringStringF` was repaired.)
* a path compared with a string literal for all six operators, either side: `P op 'lit'`,
  `'lit' op P` (`eqStr`/`neStr` are the `=`/`!=` instances with the literal on the right; the
  relational ones became XPath's with the repairs of `cmpStringStringF` and `cmpNodeSetString`).

**Restriction on `P` as a function argument** (`count(P)`, `local-name(P)`, `contains(P, …)`): `P`
is a *flat* path — steps over `child` / `attribute` / `self` from the context node or the root,
carrying any predicates of the fragment (`FlatFiltered.FlatAny P ∧ Frag2 true P`).  The engine hands
a function the *sequence* it selected (`count` = its length, the string functions and `local-name`
= its first element), the oracle the node-set in document order; for flat paths the sequence *is*
the document-ordered duplicate-free node list (`FlatFiltered.flatAny_sorted`), for other paths it
need not be (duplicates, other order) and the two sides may differ.  A bare `count(P)` as a
predicate is a number, hence positional, and is not part of the fragment.
-/
namespace XPathV.PredSem2
open XPathV XPathV.Model XPathV.PathSem XPathV.PredSem
open XPathV.FlatFiltered (FlatAny)

variable {F : Type} [NumAlg F]

/-! ## the naive plan -/

/-- the plan without any builder rewrite: steps as `stepPlan`, predicates as `.filter`, comparisons
as `.logical`, `and`/`or` as `.boolean`, calls as `.func` over their arguments, `(P)` as `.group` -/
def predPlan2 : Ast → Plan
  | .none => .context
  | .root _ => .absolute
  | .axis a inp => stepPlan a (predPlan2 inp)
  | .filter inp b => .filter (predPlan2 inp) (predPlan2 b)
  | .oper op l r =>
    if op = "and" then .boolean false (predPlan2 l) (predPlan2 r)
    else if op = "or" then .boolean true (predPlan2 l) (predPlan2 r)
    else .logical op (predPlan2 l) (predPlan2 r)
  | .str s => .constStr s
  | .num l => .constNum l
  | .call name _ args => .func name .nil (predPlan2 args)
  | .anil => .pnil
  | .acons h t => .pcons (predPlan2 h) (predPlan2 t)
  | .group x => .group (predPlan2 x)
  | .var _ _ => .nil

theorem predPlan2_cmp (op : String) (hop : op ∈ cmpOps) (l r : Ast) :
    predPlan2 (.oper op l r) = .logical op (predPlan2 l) (predPlan2 r) := by
  simp only [cmpOps, List.mem_cons, List.not_mem_nil, or_false] at hop
  rcases hop with rfl | rfl | rfl | rfl | rfl | rfl <;> simp [predPlan2]

/-! ## the fragment -/

/-- `Frag2 true e`: `e` is a location path over the twelve axes whose steps (and the path start) may
carry any number of boolean-valued predicates, or such a path in parentheses followed by
predicates; `Frag2 false e`: `e` is a boolean-valued predicate over such paths -/
inductive Frag2 : Bool → Ast → Prop
  | none : Frag2 true .none
  | root (s : String) : Frag2 true (.root s)
  | axis (a : AxisInfo) (inp : Ast) : Frag2 true inp → a.axis ∈ axes12 → Frag2 true (.axis a inp)
  | filter (inp b : Ast) : Frag2 true inp → Frag2 false b → Frag2 true (.filter inp b)
  /-- `(P)[b]` -/
  | gfilter (p b : Ast) : Frag2 true p → Frag2 false b → Frag2 true (.filter (.group p) b)
  | exist (p : Ast) : Frag2 true p → Frag2 false p
  | eqStr (p : Ast) (s : String) : Frag2 true p → Frag2 false (.oper "=" p (.str s))
  | neStr (p : Ast) (s : String) : Frag2 true p → Frag2 false (.oper "!=" p (.str s))
  | cmpNumR (op : String) (p : Ast) (lex : String) : op ∈ cmpOps → Frag2 true p →
      Frag2 false (.oper op p (.num lex))
  | cmpNumL (op : String) (lex : String) (p : Ast) : op ∈ cmpOps → Frag2 true p →
      Frag2 false (.oper op (.num lex) p)
  | not (pfx : String) (b : Ast) : Frag2 false b → Frag2 false (.call "not" pfx (.acons b .anil))
  | and (b1 b2 : Ast) : Frag2 false b1 → Frag2 false b2 → Frag2 false (.oper "and" b1 b2)
  | or (b1 b2 : Ast) : Frag2 false b1 → Frag2 false b2 → Frag2 false (.oper "or" b1 b2)
  /-- `count(P) op n` -/
  | countR (op pfx : String) (p : Ast) (lex : String) : op ∈ cmpOps → Frag2 true p → FlatAny p →
      Frag2 false (.oper op (.call "count" pfx (.acons p .anil)) (.num lex))
  /-- `n op count(P)` -/
  | countL (op lex pfx : String) (p : Ast) : op ∈ cmpOps → Frag2 true p → FlatAny p →
      Frag2 false (.oper op (.num lex) (.call "count" pfx (.acons p .anil)))
  /-- `not(count(P))` (`count(P) = 0`; the defective `notFunc` answered `false` to every number) -/
  | notCount (pfx pfx' : String) (p : Ast) : Frag2 true p → FlatAny p →
      Frag2 false (.call "not" pfx (.acons (.call "count" pfx' (.acons p .anil)) .anil))
  /-- `local-name() = 'lit'`, `local-name() != 'lit'` -/
  | lnCmp (op pfx lit : String) : op ∈ eqOps →
      Frag2 false (.oper op (.call "local-name" pfx .anil) (.str lit))
  /-- `local-name(P) = 'lit'`, `local-name(P) != 'lit'` -/
  | lnPathCmp (op pfx : String) (p : Ast) (lit : String) : op ∈ eqOps → Frag2 true p → FlatAny p →
      Frag2 false (.oper op (.call "local-name" pfx (.acons p .anil)) (.str lit))
  /-- `contains('s', 'lit')` … -/
  | strLit (name pfx s lit : String) : name ∈ strTests →
      Frag2 false (.call name pfx (.acons (.str s) (.acons (.str lit) .anil)))
  /-- `contains(local-name(), 'lit')` … -/
  | strLn (name pfx pfx' lit : String) : name ∈ strTests →
      Frag2 false (.call name pfx (.acons (.call "local-name" pfx' .anil) (.acons (.str lit) .anil)))
  /-- `contains(local-name(P), 'lit')` … -/
  | strLnPath (name pfx pfx' : String) (p : Ast) (lit : String) : name ∈ strTests → Frag2 true p →
      FlatAny p →
      Frag2 false (.call name pfx
        (.acons (.call "local-name" pfx' (.acons p .anil)) (.acons (.str lit) .anil)))
  /-- `contains(P, 'lit')` … -/
  | strPath (name pfx : String) (p : Ast) (lit : String) : name ∈ strTests → Frag2 true p →
      FlatAny p → Frag2 false (.call name pfx (.acons p (.acons (.str lit) .anil)))
  /-- `contains(P, Q)` …: flat paths in both positions -/
  | strPath2 (name pfx : String) (p q : Ast) : name ∈ strTests → Frag2 true p → FlatAny p →
      Frag2 true q → FlatAny q → Frag2 false (.call name pfx (.acons p (.acons q .anil)))
  /-- `contains('lit', Q)` …: a flat path in second position -/
  | strLitPath (name pfx s : String) (q : Ast) : name ∈ strTests → Frag2 true q → FlatAny q →
      Frag2 false (.call name pfx (.acons (.str s) (.acons q .anil)))
  /-- `P op Q`, all six operators: two paths of any shape -/
  | cmpPath (op : String) (p q : Ast) : op ∈ cmpOps → Frag2 true p → Frag2 true q →
      Frag2 false (.oper op p q)
  /-- `P op 'lit'`, all six operators -/
  | cmpStrR (op : String) (p : Ast) (s : String) : op ∈ cmpOps → Frag2 true p →
      Frag2 false (.oper op p (.str s))
  /-- `'lit' op P`, all six operators -/
  | cmpStrL (op : String) (s : String) (p : Ast) : op ∈ cmpOps → Frag2 true p →
      Frag2 false (.oper op (.str s) p)

/-- the extension contains the fragment of `PredSem` -/
theorem frag2_of_frag (k : Bool) (e : Ast) (h : Frag k e) : Frag2 k e := by
  induction h with
  | none => exact .none
  | root s => exact .root s
  | axis a inp _ ha ih => exact .axis a inp ih ha
  | filter inp b _ _ ih1 ih2 => exact .filter inp b ih1 ih2
  | exist p _ ih => exact .exist p ih
  | eqStr p s _ ih => exact .eqStr p s ih
  | neStr p s _ ih => exact .neStr p s ih
  | cmpNumR op p lex hop _ ih => exact .cmpNumR op p lex hop ih
  | cmpNumL op lex p hop _ ih => exact .cmpNumL op lex p hop ih
  | not pfx b _ ih => exact .not pfx b ih
  | and b1 b2 _ _ ih1 ih2 => exact .and b1 b2 ih1 ih2
  | or b1 b2 _ _ ih1 ih2 => exact .or b1 b2 ih1 ih2

/-- on the fragment of `PredSem` the naive plans coincide -/
theorem predPlan2_frag (k : Bool) (e : Ast) (h : Frag k e) : predPlan2 e = predPlan e := by
  induction h with
  | none => rfl
  | root s => rfl
  | axis a inp _ _ ih => simp only [predPlan2, predPlan, ih]
  | filter inp b _ _ ih1 ih2 => simp only [predPlan2, predPlan, ih1, ih2]
  | exist p _ ih => exact ih
  | eqStr p s _ ih => simp [predPlan2, predPlan, ih]
  | neStr p s _ ih => simp [predPlan2, predPlan, ih]
  | cmpNumR op p lex hop _ ih => rw [predPlan2_cmp op hop, predPlan_cmp op hop, ih]; rfl
  | cmpNumL op lex p hop _ ih => rw [predPlan2_cmp op hop, predPlan_cmp op hop, ih]; rfl
  | not pfx b _ ih => simp only [predPlan2, predPlan, ih]
  | and b1 b2 _ _ ih1 ih2 => simp [predPlan2, predPlan, ih1, ih2]
  | or b1 b2 _ _ ih1 ih2 => simp [predPlan2, predPlan, ih1, ih2]

/-! ## naive plans of flat paths yield separated sequences -/

/-- the naive plan of a flat path (any predicates) yields, from any context reference, a sequence
that is strictly increasing in document order -/
theorem naive_flat {d : Doc} (wf : WF d) (cfg : ECfg) (p : Ast) (hp : FlatAny p) :
    FlatFiltered.OutFlat d cfg F (predPlan2 p) := by
  induction hp with
  | none => exact FlatFiltered.outFlat_context cfg
  | root s => exact FlatFiltered.outFlat_absolute cfg
  | axis a inp ha _ ih =>
    intro c l h
    exact FlatFiltered.flat_stepPlan wf cfg a ha (predPlan2 inp) c l h (fun ins hins => ih c ins hins)
  | filter inp b _ ih =>
    intro c l h
    obtain ⟨ins, hins, hsub⟩ := FlatFiltered.sel_filter_sublist (F := F) d cfg _ _ c l h
    exact (ih c ins hins).sublist hsub

/-- for a flat path, set agreement of the naive plan is sequence agreement -/
theorem naive_seqOK {d : Doc} (wf : WF d) (cfg : ECfg) (p : Ast) (hp : FlatAny p) (c : Spec.Ctx)
    (h : PathOK (F := F) d cfg (predPlan2 p) p c) : SeqOK (F := F) d cfg (predPlan2 p) p c :=
  seqOK_of_pathOK d cfg _ p c h
    (fun out ho => (naive_flat (F := F) wf cfg p hp c.node out ho).sorted)
    (fun ns g hS => FlatFiltered.flatAny_spec_sorted (F := F) d p hp c ns g hS)

/-! ## the main induction -/

/-- **model = oracle on the whole extended fragment** (naive plans): at every valid context node and
any context position/size, a path of the fragment yields the same node set on both sides
(`PathOK`), a predicate of the fragment the same truth, and never a number (`PredOK`) -/
theorem frag_sem2 {d : Doc} (wf : WF d) (cfg : ECfg) (hns : cfg.nsIface = true) (hinj : HashInj d cfg)
    (k : Bool) (e : Ast) (he : Frag2 k e) :
    ∀ c : Spec.Ctx, validRef d c.node = true →
      (k = true → PathOK (F := F) d cfg (predPlan2 e) e c) ∧
      (k = false → PredOK (F := F) d cfg (predPlan2 e) e c) := by
  induction he with
  | none => exact fun c hc => ⟨fun _ => pathOK_none d cfg c hc, fun h => nomatch h⟩
  | root s => exact fun c _ => ⟨fun _ => pathOK_root wf cfg s c, fun h => nomatch h⟩
  | axis a inp _ ha ih =>
    exact fun c hc => ⟨fun _ => pathOK_axis wf cfg hns hinj a ha _ inp c ((ih c hc).1 rfl),
      fun h => nomatch h⟩
  | filter inp b _ _ ihp ihb =>
    exact fun c hc => ⟨fun _ => pathOK_filter d cfg _ _ inp b c ((ihp c hc).1 rfl)
      (fun x hx pos size => (ihb ⟨x, pos, size⟩ hx).2 rfl), fun h => nomatch h⟩
  | gfilter p b _ _ ihp ihb =>
    exact fun c hc => ⟨fun _ => pathOK_filter d cfg _ _ (.group p) b c
      (pathOK_group d cfg _ p c ((ihp c hc).1 rfl))
      (fun x hx pos size => (ihb ⟨x, pos, size⟩ hx).2 rfl), fun h => nomatch h⟩
  | exist p _ ih =>
    exact fun c hc => ⟨(fun h => nomatch h), fun _ => predOK_path d cfg _ p c ((ih c hc).1 rfl)⟩
  | eqStr p s _ ih =>
    exact fun c hc => ⟨(fun h => nomatch h), fun _ => predOK_eqStr d cfg _ p s c ((ih c hc).1 rfl)⟩
  | neStr p s _ ih =>
    exact fun c hc => ⟨(fun h => nomatch h), fun _ => predOK_neStr d cfg _ p s c ((ih c hc).1 rfl)⟩
  | cmpNumR op p lex hop _ ih =>
    refine fun c hc => ⟨(fun h => nomatch h), fun _ => ?_⟩
    rw [predPlan2_cmp op hop]
    exact predOK_cmpNumR d cfg op hop _ p lex c ((ih c hc).1 rfl)
  | cmpNumL op lex p hop _ ih =>
    refine fun c hc => ⟨(fun h => nomatch h), fun _ => ?_⟩
    rw [predPlan2_cmp op hop]
    exact predOK_cmpNumL d cfg op hop _ p lex c ((ih c hc).1 rfl)
  | not pfx b _ ih =>
    exact fun c hc => ⟨(fun h => nomatch h), fun _ => predOK_not d cfg _ b pfx c ((ih c hc).2 rfl)⟩
  | and b1 b2 _ _ ih1 ih2 =>
    exact fun c hc => ⟨(fun h => nomatch h),
      fun _ => predOK_and d cfg _ _ b1 b2 c ((ih1 c hc).2 rfl) ((ih2 c hc).2 rfl)⟩
  | or b1 b2 _ _ ih1 ih2 =>
    exact fun c hc => ⟨(fun h => nomatch h),
      fun _ => predOK_or d cfg _ _ b1 b2 c ((ih1 c hc).2 rfl) ((ih2 c hc).2 rfl)⟩
  | countR op pfx p lex hop _ hflat ih =>
    refine fun c hc => ⟨(fun h => nomatch h), fun _ => ?_⟩
    rw [predPlan2_cmp op hop]
    exact predOK_countR d cfg op hop pfx _ p lex c (naive_seqOK wf cfg p hflat c ((ih c hc).1 rfl))
  | countL op lex pfx p hop _ hflat ih =>
    refine fun c hc => ⟨(fun h => nomatch h), fun _ => ?_⟩
    rw [predPlan2_cmp op hop]
    exact predOK_countL d cfg op hop pfx _ p lex c (naive_seqOK wf cfg p hflat c ((ih c hc).1 rfl))
  | notCount pfx pfx' p _ hflat ih =>
    exact fun c hc => ⟨(fun h => nomatch h),
      fun _ => predOK_notCount d cfg pfx pfx' _ p c (naive_seqOK wf cfg p hflat c ((ih c hc).1 rfl))⟩
  | lnCmp op pfx lit hop =>
    refine fun c _ => ⟨(fun h => nomatch h), fun _ => ?_⟩
    rw [predPlan2_cmp op (eqOps_cmpOps hop)]
    exact predOK_strCmp d cfg op hop _ _ lit c (strValOK_localName0 d cfg pfx c)
  | lnPathCmp op pfx p lit hop _ hflat ih =>
    refine fun c hc => ⟨(fun h => nomatch h), fun _ => ?_⟩
    rw [predPlan2_cmp op (eqOps_cmpOps hop)]
    exact predOK_strCmp d cfg op hop _ _ lit c
      (strValOK_localName1 d cfg _ p pfx c (naive_seqOK wf cfg p hflat c ((ih c hc).1 rfl)))
  | strLit name pfx s lit hn =>
    exact fun c _ => ⟨(fun h => nomatch h),
      fun _ => predOK_strTest d cfg name hn pfx _ (.str s) lit c (strValOK_lit d cfg s c).strArgOK⟩
  | strLn name pfx pfx' lit hn =>
    exact fun c _ => ⟨(fun h => nomatch h),
      fun _ => predOK_strTest d cfg name hn pfx _ _ lit c (strValOK_localName0 d cfg pfx' c).strArgOK⟩
  | strLnPath name pfx pfx' p lit hn _ hflat ih =>
    exact fun c hc => ⟨(fun h => nomatch h),
      fun _ => predOK_strTest d cfg name hn pfx _ _ lit c
        (strValOK_localName1 d cfg _ p pfx' c
          (naive_seqOK wf cfg p hflat c ((ih c hc).1 rfl))).strArgOK⟩
  | strPath name pfx p lit hn _ hflat ih =>
    exact fun c hc => ⟨(fun h => nomatch h),
      fun _ => predOK_strTest d cfg name hn pfx _ p lit c
        (naive_seqOK wf cfg p hflat c ((ih c hc).1 rfl)).strArgOK⟩
  | strPath2 name pfx p q hn _ hflat _ hflatq ihp ihq =>
    exact fun c hc => ⟨(fun h => nomatch h),
      fun _ => predOK_strTest2 d cfg name hn pfx _ _ p q c
        (naive_seqOK wf cfg p hflat c ((ihp c hc).1 rfl)).strArgOK
        (naive_seqOK wf cfg q hflatq c ((ihq c hc).1 rfl)).strArgOK⟩
  | strLitPath name pfx s q hn _ hflatq ihq =>
    exact fun c hc => ⟨(fun h => nomatch h),
      fun _ => predOK_strTest2 d cfg name hn pfx _ _ (.str s) q c (strValOK_lit d cfg s c).strArgOK
        (naive_seqOK wf cfg q hflatq c ((ihq c hc).1 rfl)).strArgOK⟩
  | cmpPath op p q hop _ _ ihp ihq =>
    refine fun c hc => ⟨(fun h => nomatch h), fun _ => ?_⟩
    rw [predPlan2_cmp op hop]
    exact predOK_cmpPath d cfg op hop _ _ p q c ((ihp c hc).1 rfl) ((ihq c hc).1 rfl)
  | cmpStrR op p s hop _ ih =>
    refine fun c hc => ⟨(fun h => nomatch h), fun _ => ?_⟩
    rw [predPlan2_cmp op hop]
    exact predOK_cmpStrR d cfg op hop _ p s c ((ih c hc).1 rfl)
  | cmpStrL op s p hop _ ih =>
    refine fun c hc => ⟨(fun h => nomatch h), fun _ => ?_⟩
    rw [predPlan2_cmp op hop]
    exact predOK_cmpStrL d cfg op hop _ p s c ((ih c hc).1 rfl)

/-! ## the statements for naive plans -/

/-- **truth of a predicate of the extended fragment** (naive plans): the predicate plan evaluates,
at every valid node and whatever the context position/size, to a boolean or a node-set — never a
number — whose truth is `boolean()` of the oracle's value, which is not a number either -/
theorem pred_truth2 {d : Doc} (wf : WF d) (cfg : ECfg) (hns : cfg.nsIface = true)
    (hinj : HashInj d cfg) (b : Ast) (hb : Frag2 false b) (c : Ref) (hc : validRef d c = true)
    (pos size : Nat) :
    ∃ v sv g, evalP (F := F) d cfg (predPlan2 b) c = .ok v ∧
      Spec.eval (F := F) d b ⟨c, pos, size⟩ = .ok (.val sv g) ∧
      truthM v = Spec.toBool sv ∧ IsBN v ∧ NotNum sv := by
  obtain ⟨v, sv, g, hE, hS, hbn, hnn, htr⟩ :=
    (frag_sem2 (F := F) wf cfg hns hinj false b hb ⟨c, pos, size⟩ hc).2 rfl
  exact ⟨v, sv, g, hE, hS, htr, hbn, hnn⟩

/-- **C02, naive plans, extended fragment** -/
theorem C02_naive2 {d : Doc} (wf : WF d) (cfg : ECfg) (hns : cfg.nsIface = true)
    (hinj : HashInj d cfg) (p : Ast) (hp : Frag2 true p) (c : Ref) (hc : validRef d c = true) :
    ∃ out ns g, sel (F := F) d cfg (predPlan2 p) c = .ok out ∧
      Spec.eval (F := F) d p ⟨c, 1, 1⟩ = .ok (.val (.nodes ns) g) ∧
      (∀ x, x ∈ refs out ↔ x ∈ ns) ∧ (∀ x ∈ ns, validRef d x = true) := by
  obtain ⟨out, ns, g, hsel, _, hev, hm, hv, _⟩ :=
    (frag_sem2 (F := F) wf cfg hns hinj true p hp ⟨c, 1, 1⟩ hc).1 rfl
  exact ⟨out, ns, g, hsel, hev, hm, hv⟩

/-- **C02, the property itself** (naive plans, extended fragment): a predicate `b` on top of any
path `p` keeps exactly the nodes of `p` at which `b` is true -/
theorem C02_filter_keeps_true2 {d : Doc} (wf : WF d) (cfg : ECfg) (hns : cfg.nsIface = true)
    (hinj : HashInj d cfg) (p b : Ast) (hp : Frag2 true p) (hb : Frag2 false b)
    (c : Ref) (hc : validRef d c = true) :
    ∃ out0 ns0 g0 out ns g,
      sel (F := F) d cfg (predPlan2 p) c = .ok out0 ∧
      Spec.eval (F := F) d p ⟨c, 1, 1⟩ = .ok (.val (.nodes ns0) g0) ∧
      (∀ x, x ∈ refs out0 ↔ x ∈ ns0) ∧
      sel (F := F) d cfg (predPlan2 (.filter p b)) c = .ok out ∧
      Spec.eval (F := F) d (.filter p b) ⟨c, 1, 1⟩ = .ok (.val (.nodes ns) g) ∧
      refs out = (refs out0).filter (holds (F := F) d b) ∧
      (∀ x, x ∈ ns ↔ x ∈ ns0 ∧ holds (F := F) d b x = true) ∧
      (∀ x, x ∈ refs out ↔ x ∈ ns) := by
  obtain ⟨out0, ns0, g0, hsel, _, hev, hm0, hv0, hg0⟩ :=
    (frag_sem2 (F := F) wf cfg hns hinj true p hp ⟨c, 1, 1⟩ hc).1 rfl
  obtain ⟨out, ns, g, hout, hev', hrefs, hnsm, _⟩ :=
    filter_sem (F := F) d cfg (predPlan2 p) (predPlan2 b) p b ⟨c, 1, 1⟩
      out0 ns0 g0 hsel hev hm0 hv0 hg0
      (fun x hx pos size => (frag_sem2 (F := F) wf cfg hns hinj false b hb ⟨x, pos, size⟩ hx).2 rfl)
  refine ⟨out0, ns0, g0, out, ns, g, hsel, hev, hm0, hout, hev', hrefs, hnsm, fun x => ?_⟩
  rw [hrefs, List.mem_filter, hm0, hnsm]

/-- the same for a parenthesised path: `(p)[b]` keeps exactly the nodes of `p` at which `b` holds -/
theorem C02_gfilter_keeps_true2 {d : Doc} (wf : WF d) (cfg : ECfg) (hns : cfg.nsIface = true)
    (hinj : HashInj d cfg) (p b : Ast) (hp : Frag2 true p) (hb : Frag2 false b)
    (c : Ref) (hc : validRef d c = true) :
    ∃ out0 ns0 g0 out ns g,
      sel (F := F) d cfg (predPlan2 p) c = .ok out0 ∧
      Spec.eval (F := F) d p ⟨c, 1, 1⟩ = .ok (.val (.nodes ns0) g0) ∧
      (∀ x, x ∈ refs out0 ↔ x ∈ ns0) ∧
      sel (F := F) d cfg (predPlan2 (.filter (.group p) b)) c = .ok out ∧
      Spec.eval (F := F) d (.filter (.group p) b) ⟨c, 1, 1⟩ = .ok (.val (.nodes ns) g) ∧
      refs out = (refs out0).filter (holds (F := F) d b) ∧
      (∀ x, x ∈ ns ↔ x ∈ ns0 ∧ holds (F := F) d b x = true) ∧
      (∀ x, x ∈ refs out ↔ x ∈ ns) := by
  have hP := (frag_sem2 (F := F) wf cfg hns hinj true p hp ⟨c, 1, 1⟩ hc).1 rfl
  have hG := pathOK_group d cfg (predPlan2 p) p ⟨c, 1, 1⟩ hP
  obtain ⟨out0, ns0, g0, hsel, _, hev, hm0, hv0, _⟩ := hP
  obtain ⟨outg, nsg, gg, hselg, _, hevg, hmg, hvg, hgg⟩ := hG
  have e1 : outg = numbered (refs out0) := by
    have := sel_group (F := F) d cfg (predPlan2 p) c out0 hsel
    have h2 : sel (F := F) d cfg (.group (predPlan2 p)) c = .ok outg := hselg
    rw [this] at h2; cases h2; rfl
  have e2 : nsg = ns0 := by
    have := ArithSem.eval_group (F := F) d p ⟨c, 1, 1⟩ _ g0 hev
    rw [this] at hevg; cases hevg; rfl
  subst e2
  obtain ⟨out, ns, g, hout, hev', hrefs, hnsm, _⟩ :=
    filter_sem (F := F) d cfg (.group (predPlan2 p)) (predPlan2 b) (.group p) b ⟨c, 1, 1⟩
      outg nsg gg hselg hevg hmg hvg hgg
      (fun x hx pos size => (frag_sem2 (F := F) wf cfg hns hinj false b hb ⟨x, pos, size⟩ hx).2 rfl)
  rw [e1, numbered_refs] at hrefs
  refine ⟨out0, nsg, g0, out, ns, g, hsel, hev, hm0, hout, hev', hrefs, hnsm, fun x => ?_⟩
  rw [hrefs, List.mem_filter, hm0, hnsm]

/-- the truth `holds` used above is the model's own verdict -/
theorem holds_is_model_truth2 {d : Doc} (wf : WF d) (cfg : ECfg) (hns : cfg.nsIface = true)
    (hinj : HashInj d cfg) (b : Ast) (hb : Frag2 false b) (x : Ref) (hx : validRef d x = true) :
    ∃ v, evalP (F := F) d cfg (predPlan2 b) x = .ok v ∧ IsBN v ∧ truthM v = holds (F := F) d b x := by
  obtain ⟨v, _, hE, _, hbn, _, htr, _⟩ := predOK_holds (F := F) d cfg (predPlan2 b) b x
    (fun pos size => (frag_sem2 (F := F) wf cfg hns hinj false b hb ⟨x, pos, size⟩ hx).2 rfl) 1 1
  exact ⟨v, hE, hbn, htr⟩

/-- **what `P op Q` means at a node** (the oracle's `boolean(P op Q)`, spelled out, all six
operators): both paths evaluate to node-sets there, and the comparison holds iff some node of `P`
and some node of `Q` have equal (for `=`) / different (for `!=`) string-values, or — for `<`, `<=`,
`>`, `>=` — string-values whose numbers compare -/
theorem holds_cmpPath {d : Doc} (wf : WF d) (cfg : ECfg) (hns : cfg.nsIface = true)
    (hinj : HashInj d cfg) (op : String) (hop : op ∈ cmpOps) (P Q : Ast) (hP : Frag2 true P)
    (hQ : Frag2 true Q) (x : Ref) (hx : validRef d x = true) :
    ∃ nsP gP nsQ gQ, Spec.eval (F := F) d P ⟨x, 1, 1⟩ = .ok (.val (.nodes nsP) gP) ∧
      Spec.eval (F := F) d Q ⟨x, 1, 1⟩ = .ok (.val (.nodes nsQ) gQ) ∧
      (holds (F := F) d (.oper op P Q) x = true ↔
        ∃ u ∈ nsP, ∃ v ∈ nsQ, (op = "=" ∧ stringValue d u = stringValue d v) ∨
          (op = "!=" ∧ stringValue d u ≠ stringValue d v) ∨
          (∃ cop, Spec.CmpOp.ofString op = some cop ∧ cop.isRel = true ∧
            Spec.cmpNum cop (Spec.strToNum (F := F) (stringValue d u))
              (Spec.strToNum (F := F) (stringValue d v)) = true)) := by
  obtain ⟨_, nsP, gP, _, hSP, _, _⟩ := C02_naive2 (F := F) wf cfg hns hinj P hP x hx
  obtain ⟨_, nsQ, gQ, _, hSQ, _, _⟩ := C02_naive2 (F := F) wf cfg hns hinj Q hQ x hx
  refine ⟨nsP, gP, nsQ, gQ, hSP, hSQ, ?_⟩
  simp only [cmpOps, List.mem_cons, List.not_mem_nil, or_false] at hop
  rcases hop with rfl | rfl | rfl | rfl | rfl | rfl
  · simp only [holds, eval_cmp d "=" .eq rfl P Q ⟨x, 1, 1⟩ _ _ hSP hSQ, Spec.Res.value, Spec.toBool,
      Spec.compare, Spec.CmpOp.isRel]
    simp [Spec.CmpOp.ofString]
  · simp only [holds, eval_cmp d "!=" .ne rfl P Q ⟨x, 1, 1⟩ _ _ hSP hSQ, Spec.Res.value, Spec.toBool,
      Spec.compare, Spec.CmpOp.isRel]
    simp [Spec.CmpOp.ofString]
  · simp only [holds, eval_cmp d "<" .lt rfl P Q ⟨x, 1, 1⟩ _ _ hSP hSQ, Spec.Res.value, Spec.toBool,
      Spec.compare, Spec.CmpOp.isRel]
    simp [Spec.CmpOp.ofString]
  · simp only [holds, eval_cmp d "<=" .le rfl P Q ⟨x, 1, 1⟩ _ _ hSP hSQ, Spec.Res.value, Spec.toBool,
      Spec.compare, Spec.CmpOp.isRel]
    simp [Spec.CmpOp.ofString]
  · simp only [holds, eval_cmp d ">" .gt rfl P Q ⟨x, 1, 1⟩ _ _ hSP hSQ, Spec.Res.value, Spec.toBool,
      Spec.compare, Spec.CmpOp.isRel]
    simp [Spec.CmpOp.ofString]
  · simp only [holds, eval_cmp d ">=" .ge rfl P Q ⟨x, 1, 1⟩ _ _ hSP hSQ, Spec.Res.value, Spec.toBool,
      Spec.compare, Spec.CmpOp.isRel]
    simp [Spec.CmpOp.ofString]

end XPathV.PredSem2
