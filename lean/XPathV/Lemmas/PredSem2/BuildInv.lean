import XPathV.Lemmas.PredSem2.Truth
/-!
# C02, extension — inversion of `build` on function calls and parenthesised paths

`build_call_inv2` reads off a successful `build` of an ordinary call (not `matches`, `reverse`,
`last`, `position`, nor one of the calls that synthesise a `self::node()` argument) the build of its
argument chain, the plan and the props; the lemmas after it specialise it to the call shapes of the
fragment: `local-name()`, one-argument calls (`count(P)`, `local-name(P)`), two-argument string
tests against a literal; `build_group_inv` is `(P)`.
-/
namespace XPathV.PredSem2
open XPathV XPathV.Model XPathV.PathSem XPathV.PredSem

variable (regexOk : RegexOk) (limit : Nat) (snt sdf : Bool)

/-- what a successful `build` of an ordinary function call consists of (plan and props) -/
theorem build_call_inv2 (name pfx : String) (args : Ast)
    (fl : Flags) (st : BState) (o : BOut)
    (h : build regexOk limit snt sdf (.call name pfx args) fl st = .ok o)
    (hm : name ≠ "matches") (hr : name ≠ "reverse") (hl : name ≠ "last") (hp : name ≠ "position")
    (hs1 : name ≠ "normalize-space") (hs2 : name ≠ "string") (hs3 : name ≠ "number") :
    ∃ ao, build regexOk limit snt sdf args { take := fnUsed name args.argList.length }
        { st with depth := st.depth + 1 } = .ok ao ∧ o.q = .func name .nil ao.q ∧
      o.props = (if fnUsed name args.argList.length == 0 then {} else ao.props) := by
  rw [build] at h
  replace h := enter_ok _ _ _ _ h
  dsimp only at h
  cases hfa : fnArity name with
  | none => rw [hfa] at h; cases h
  | some t =>
    obtain ⟨mn, mx, idx⟩ := t
    rw [hfa] at h
    dsimp only at h
    by_cases h1 : args.argList.length < mn
    · rw [if_pos h1] at h; cases h
    · rw [if_neg h1] at h
      have hm' : (name == "matches") = false := by simpa using hm
      have hr' : (name == "reverse") = false := by simpa using hr
      have hl' : (name == "last") = false := by simpa using hl
      have hp' : (name == "position") = false := by simpa using hp
      have hs1' : (name == "normalize-space") = false := by simpa using hs1
      have hs2' : (name == "string") = false := by simpa using hs2
      have hs3' : (name == "number") = false := by simpa using hs3
      have fin : ∀ (x : Except BErr BOut), x = .ok o →
          (x = do
            let ao ← build regexOk limit snt sdf args { take := fnUsed name args.argList.length }
              { depth := st.depth + 1, firstInput := st.firstInput, predInput := st.predInput }
            .ok ⟨Plan.func name .nil ao.q,
              if (fnUsed name args.argList.length == 0) = true then { } else ao.props,
              build.leave ao.st⟩) →
          ∃ ao, build regexOk limit snt sdf args { take := fnUsed name args.argList.length }
            { depth := st.depth + 1, firstInput := st.firstInput, predInput := st.predInput } = Except.ok ao ∧
            o.q = Plan.func name Plan.nil ao.q ∧
            o.props = (if fnUsed name args.argList.length == 0 then {} else ao.props) := by
        intro x hx hx2
        rw [hx2] at hx
        obtain ⟨ao, hao, h⟩ := except_bind_ok _ _ _ hx
        refine ⟨ao, hao, ?_⟩
        cases h; exact ⟨rfl, rfl⟩
      cases mx with
      | none =>
        dsimp only at h
        rw [if_neg (by decide)] at h
        refine fin _ h ?_
        simp only [hm', hr', hl', hp', hs1', hs2', hs3', Bool.false_eq_true, ↓reduceIte,
          Bool.false_and, Bool.or_false]
      | some m =>
        dsimp only at h
        by_cases h2 : decide (args.argList.length > m) = true
        · rw [if_pos h2] at h; cases h
        · rw [if_neg h2] at h
          refine fin _ h ?_
          simp only [hm', hr', hl', hp', hs1', hs2', hs3', Bool.false_eq_true, ↓reduceIte,
            Bool.false_and, Bool.or_false]

/-! ## argument chains -/

theorem build_args0 (k : Nat) (st : BState) (ao : BOut)
    (h : build regexOk limit snt sdf .anil { take := k } st = .ok ao) :
    ao.q = .pnil ∧ ao.props = {} := by
  rw [build] at h
  cases h; exact ⟨rfl, rfl⟩

theorem build_args1 (a : Ast) (k : Nat) (st : BState) (ao : BOut)
    (h : build regexOk limit snt sdf (.acons a .anil) { take := k + 1 } st = .ok ao) :
    ∃ ho, build regexOk limit snt sdf a {} st = .ok ho ∧ ao.q = .pcons ho.q .pnil ∧
      ao.props = ho.props := by
  rw [build] at h
  have hk : ¬ ((({ take := k + 1 } : Flags).take == 0) = true) := by simp
  rw [if_neg hk] at h
  obtain ⟨ho, hho, h⟩ := except_bind_ok _ _ _ h
  obtain ⟨to, hto, h⟩ := except_bind_ok _ _ _ h
  obtain ⟨e1, _⟩ := build_args0 regexOk limit snt sdf _ _ _ hto
  cases h
  refine ⟨ho, hho, by rw [e1], ?_⟩
  simp [e1]

theorem build_args2 (a b : Ast) (k : Nat) (st : BState) (ao : BOut)
    (h : build regexOk limit snt sdf (.acons a (.acons b .anil)) { take := k + 2 } st = .ok ao) :
    ∃ ho ho2, build regexOk limit snt sdf a {} st = .ok ho ∧
      build regexOk limit snt sdf b {} ho.st = .ok ho2 ∧
      ao.q = .pcons ho.q (.pcons ho2.q .pnil) ∧ ao.props = ho2.props := by
  rw [build] at h
  have hk : ¬ ((({ take := k + 2 } : Flags).take == 0) = true) := by simp
  rw [if_neg hk] at h
  obtain ⟨ho, hho, h⟩ := except_bind_ok _ _ _ h
  obtain ⟨to, hto, h⟩ := except_bind_ok _ _ _ h
  obtain ⟨ho2, hho2, e1, e2⟩ := build_args1 regexOk limit snt sdf b k ho.st to hto
  cases h
  refine ⟨ho, ho2, hho, hho2, by rw [e1], ?_⟩
  simp [e1, e2]

/-! ## the call shapes of the fragment -/

/-- `local-name()` -/
theorem build_localName0_inv (pfx : String) (fl : Flags) (st : BState) (o : BOut)
    (h : build regexOk limit snt sdf (.call "local-name" pfx .anil) fl st = .ok o) :
    o.q = .func "local-name" .nil .pnil ∧ o.props = {} := by
  obtain ⟨ao, hao, hq, hp⟩ := build_call_inv2 regexOk limit snt sdf "local-name" pfx .anil fl st o h
    (by decide) (by decide) (by decide) (by decide) (by decide) (by decide) (by decide)
  obtain ⟨e1, _⟩ := build_args0 regexOk limit snt sdf _ _ _ hao
  rw [e1] at hq
  exact ⟨hq, by rw [hp]; rfl⟩

/-- a one-argument call to a function that builds its argument -/
theorem build_call1_inv (name pfx : String) (a : Ast) (fl : Flags) (st : BState) (o : BOut)
    (h : build regexOk limit snt sdf (.call name pfx (.acons a .anil)) fl st = .ok o)
    (hU : fnUsed name 1 = 1)
    (hm : name ≠ "matches") (hr : name ≠ "reverse") (hl : name ≠ "last") (hp : name ≠ "position")
    (hs1 : name ≠ "normalize-space") (hs2 : name ≠ "string") (hs3 : name ≠ "number") :
    ∃ st1 ho, build regexOk limit snt sdf a {} st1 = .ok ho ∧
      o.q = .func name .nil (.pcons ho.q .pnil) ∧ o.props = ho.props := by
  obtain ⟨ao, hao, hq, hpr⟩ := build_call_inv2 regexOk limit snt sdf name pfx _ fl st o h
    hm hr hl hp hs1 hs2 hs3
  simp only [Ast.argList, List.length_cons, List.length_nil, Nat.zero_add, hU] at hao hpr
  obtain ⟨ho, hho, e1, e2⟩ := build_args1 regexOk limit snt sdf a 0 _ ao hao
  refine ⟨_, ho, hho, by rw [hq, e1], ?_⟩
  rw [hpr, ← e2]
  rfl

theorem build_count_inv (pfx : String) (a : Ast) (fl : Flags) (st : BState) (o : BOut)
    (h : build regexOk limit snt sdf (.call "count" pfx (.acons a .anil)) fl st = .ok o) :
    ∃ st1 ho, build regexOk limit snt sdf a {} st1 = .ok ho ∧
      o.q = .func "count" .nil (.pcons ho.q .pnil) ∧ o.props = ho.props :=
  build_call1_inv regexOk limit snt sdf "count" pfx a fl st o h rfl
    (by decide) (by decide) (by decide) (by decide) (by decide) (by decide) (by decide)

theorem build_localName1_inv (pfx : String) (a : Ast) (fl : Flags) (st : BState) (o : BOut)
    (h : build regexOk limit snt sdf (.call "local-name" pfx (.acons a .anil)) fl st = .ok o) :
    ∃ st1 ho, build regexOk limit snt sdf a {} st1 = .ok ho ∧
      o.q = .func "local-name" .nil (.pcons ho.q .pnil) ∧ o.props = ho.props :=
  build_call1_inv regexOk limit snt sdf "local-name" pfx a fl st o h rfl
    (by decide) (by decide) (by decide) (by decide) (by decide) (by decide) (by decide)

/-- `name(S, 'lit')` for a string test: the first argument is built with empty flags, the plan is
the function over both arguments, the props are those of the *last* argument (the literal's) -/
theorem build_strTest_inv (name : String) (hn : name ∈ strTests) (pfx : String) (a : Ast)
    (lit : String) (fl : Flags) (st : BState) (o : BOut)
    (h : build regexOk limit snt sdf (.call name pfx (.acons a (.acons (.str lit) .anil))) fl st = .ok o) :
    ∃ st1 ho, build regexOk limit snt sdf a {} st1 = .ok ho ∧
      o.q = .func name .nil (.pcons ho.q (.pcons (.constStr lit) .pnil)) ∧ o.props = {} := by
  have hU : fnUsed name 2 = 2 := by
    simp only [strTests, List.mem_cons, List.not_mem_nil, or_false] at hn
    rcases hn with rfl | rfl | rfl <;> rfl
  have hne : ∀ s, s ∉ strTests → name ≠ s := fun s hs e => hs (e ▸ hn)
  obtain ⟨ao, hao, hq, hpr⟩ := build_call_inv2 regexOk limit snt sdf name pfx _ fl st o h
    (hne _ (by decide)) (hne _ (by decide)) (hne _ (by decide)) (hne _ (by decide))
    (hne _ (by decide)) (hne _ (by decide)) (hne _ (by decide))
  simp only [Ast.argList, List.length_cons, List.length_nil, Nat.zero_add, hU] at hao hpr
  obtain ⟨ho, ho2, hho, hho2, e1, e2⟩ := build_args2 regexOk limit snt sdf a (.str lit) 0 _ ao hao
  obtain ⟨f1, f2⟩ := build_str_inv regexOk limit snt sdf lit _ _ ho2 hho2
  refine ⟨_, ho, hho, by rw [hq, e1, f1], ?_⟩
  rw [hpr, e2, f2]
  rfl

/-- `name(S, T)` for a string test with two arbitrary arguments: both are built with empty flags (the
second one from the state the first one leaves), the plan is the function over both arguments, the
props are those of the *last* argument -/
theorem build_strTest2_inv (name : String) (hn : name ∈ strTests) (pfx : String) (a b : Ast)
    (fl : Flags) (st : BState) (o : BOut)
    (h : build regexOk limit snt sdf (.call name pfx (.acons a (.acons b .anil))) fl st = .ok o) :
    ∃ st1 ho ho2, build regexOk limit snt sdf a {} st1 = .ok ho ∧
      build regexOk limit snt sdf b {} ho.st = .ok ho2 ∧
      o.q = .func name .nil (.pcons ho.q (.pcons ho2.q .pnil)) ∧ o.props = ho2.props := by
  have hU : fnUsed name 2 = 2 := by
    simp only [strTests, List.mem_cons, List.not_mem_nil, or_false] at hn
    rcases hn with rfl | rfl | rfl <;> rfl
  have hne : ∀ s, s ∉ strTests → name ≠ s := fun s hs e => hs (e ▸ hn)
  obtain ⟨ao, hao, hq, hpr⟩ := build_call_inv2 regexOk limit snt sdf name pfx _ fl st o h
    (hne _ (by decide)) (hne _ (by decide)) (hne _ (by decide)) (hne _ (by decide))
    (hne _ (by decide)) (hne _ (by decide)) (hne _ (by decide))
  simp only [Ast.argList, List.length_cons, List.length_nil, Nat.zero_add, hU] at hao hpr
  obtain ⟨ho, ho2, hho, hho2, e1, e2⟩ := build_args2 regexOk limit snt sdf a b 0 _ ao hao
  refine ⟨_, ho, ho2, hho, hho2, by rw [hq, e1], ?_⟩
  rw [hpr, e2]
  rfl

/-- `(P)`: the inner path is built with empty flags; plan and props -/
theorem build_group_inv (x : Ast) (fl : Flags) (st : BState) (o : BOut)
    (h : build regexOk limit snt sdf (.group x) fl st = .ok o) :
    ∃ st' o1, build regexOk limit snt sdf x {} st' = .ok o1 ∧ o.q = .group o1.q ∧
      o.props = o1.props := by
  rw [build] at h
  have h := enter_ok _ _ _ _ h
  obtain ⟨o1, ho1, h⟩ := except_bind_ok _ _ _ h
  cases h
  exact ⟨_, o1, ho1, rfl, rfl⟩

end XPathV.PredSem2
