import XPathV.Lemmas.FlatFiltered
import XPathV.Lemmas.StringFns.Basic
/-!
# C02, extension — truth of the additional predicate forms: model value vs oracle value

New agreement statements (next to `PredSem.PathOK` / `PredSem.PredOK`):

* `SeqOK`    — plan and path agree as *sequences*: the engine's selected sequence, the node-set value
               `evalP` makes of it and the oracle's node list are one and the same list.  It follows
               from `PathOK` when both lists are strictly increasing in document order
               (`seqOK_of_pathOK`) — which is what `FlatFiltered` proves for flat paths.
* `StrValOK` — plan and expression evaluate to the same string.
* `StrArgOK` — plan and expression evaluate to the same string or node list (a first argument of
               `contains` / `starts-with` / `ends-with`).

Per-form truth lemmas: `predOK_countR/L` (`count(P) op n`, `n op count(P)`), `predOK_strTest`
(`contains` / `starts-with` / `ends-with` against a literal), `predOK_strCmp` (string `=`/`!=`
literal), `strValOK_*` (literal, `local-name()`, `local-name(P)`), `pathOK_group`,
`predOK_cmpPath` (`P op Q` for two paths of any shape, all six operators; `compare_nodes_congr`),
`predOK_cmpStrR` / `predOK_cmpStrL` (`P op 'lit'`, `'lit' op P`, all six operators).
-/
namespace XPathV.PredSem2
open XPathV XPathV.Model XPathV.PathSem XPathV.PredSem NumAlg
open XPathV.Theorems.C08 (emb)
open XPathV.StringFns (StrLike)

variable {F : Type} [NumAlg F]

/-! ## sequences -/

/-- plan `pl` and path `p` agree at context `c` as sequences: the selected sequence, the node-set
value and the oracle's node list coincide -/
def SeqOK (d : Doc) (cfg : ECfg) (pl : Plan) (p : Ast) (c : Spec.Ctx) : Prop :=
  ∃ out ns g, sel (F := F) d cfg pl c.node = .ok out ∧ refs out = ns ∧
    evalP (F := F) d cfg pl c.node = .ok (.nodes ns) ∧
    Spec.eval (F := F) d p c = .ok (.val (.nodes ns) g)

theorem nodesVal_eq_of_sorted (d : Doc) (cfg : ECfg) (out : List Item) (ns : List Ref)
    (hm : ∀ x, x ∈ refs out ↔ x ∈ ns) (hv : ∀ x ∈ ns, validRef d x = true)
    (hs1 : (refs out).Pairwise (fun a b => Ref.lt a b = true))
    (hs2 : ns.Pairwise (fun a b => Ref.lt a b = true)) :
    refs out = ns ∧ nodesVal d cfg out = ns := by
  have e1 : refs out = ns := FlatFiltered.sorted_ext _ _ hs1 hs2 hm
  refine ⟨e1, ?_⟩
  unfold nodesVal
  split
  · refine FlatFiltered.sorted_ext _ _ (FlatFiltered.docOrder_sorted d _) hs2 (fun x => ?_)
    rw [mem_docOrder, hm]
    exact ⟨fun h => h.1, fun h => ⟨h, hv x h⟩⟩
  · exact e1

/-- set agreement + both sides strictly increasing in document order = sequence agreement -/
theorem seqOK_of_pathOK (d : Doc) (cfg : ECfg) (pl : Plan) (p : Ast) (c : Spec.Ctx)
    (h : PathOK (F := F) d cfg pl p c)
    (hs1 : ∀ out, sel (F := F) d cfg pl c.node = .ok out →
      (refs out).Pairwise (fun a b => Ref.lt a b = true))
    (hs2 : ∀ ns g, Spec.eval (F := F) d p c = .ok (.val (.nodes ns) g) →
      ns.Pairwise (fun a b => Ref.lt a b = true)) :
    SeqOK (F := F) d cfg pl p c := by
  obtain ⟨out, ns, g, hsel, hE, hS, hm, hv, _⟩ := h
  obtain ⟨e1, e2⟩ := nodesVal_eq_of_sorted d cfg out ns hm hv (hs1 out hsel) (hs2 ns g hS)
  exact ⟨out, ns, g, hsel, e1, by rw [hE, e2], hS⟩

/-! ## parenthesised paths -/

theorem sel_group (d : Doc) (cfg : ECfg) (pl : Plan) (c : Ref) (ins : List Item)
    (h : sel (F := F) d cfg pl c = .ok ins) :
    sel (F := F) d cfg (.group pl) c = .ok (numbered (refs ins)) := by
  simp only [sel, h, bind, Except.bind, refs]

theorem pathOK_group (d : Doc) (cfg : ECfg) (pl : Plan) (p : Ast) (c : Spec.Ctx)
    (h : PathOK (F := F) d cfg pl p c) : PathOK (F := F) d cfg (.group pl) (.group p) c := by
  obtain ⟨out, ns, g, hsel, hE, hS, hm, hv, _⟩ := h
  refine ⟨numbered (refs out), ns, none, sel_group d cfg pl c.node out hsel, ?_, ?_, ?_, hv,
    by intro gs h; cases h⟩
  · rw [ArithSem.evalP_group, hE]
    simp only [nodesVal, numbered_refs]
  · exact ArithSem.eval_group d p c _ g hS
  · intro x; rw [numbered_refs]; exact hm x

/-! ## strings -/

/-- plan and expression evaluate to the same string -/
def StrValOK (d : Doc) (cfg : ECfg) (pl : Plan) (a : Ast) (c : Spec.Ctx) : Prop :=
  ∃ s g, evalP (F := F) d cfg pl c.node = .ok (.str s) ∧
    Spec.eval (F := F) d a c = .ok (.val (.str s) g)

/-- plan and expression evaluate to the same string or node list -/
def StrArgOK (d : Doc) (cfg : ECfg) (pl : Plan) (a : Ast) (c : Spec.Ctx) : Prop :=
  ∃ v g, StrLike v ∧ evalP (F := F) d cfg pl c.node = .ok (emb v) ∧
    Spec.eval (F := F) d a c = .ok (.val v g)

theorem StrValOK.strArgOK {d : Doc} {cfg : ECfg} {pl : Plan} {a : Ast} {c : Spec.Ctx}
    (h : StrValOK (F := F) d cfg pl a c) : StrArgOK (F := F) d cfg pl a c := by
  obtain ⟨s, g, hE, hS⟩ := h
  exact ⟨.str s, g, .str s, hE, hS⟩

theorem SeqOK.strArgOK {d : Doc} {cfg : ECfg} {pl : Plan} {p : Ast} {c : Spec.Ctx}
    (h : SeqOK (F := F) d cfg pl p c) : StrArgOK (F := F) d cfg pl p c := by
  obtain ⟨out, ns, g, _, _, hE, hS⟩ := h
  exact ⟨.nodes ns, g, .nodes ns, hE, hS⟩

theorem strValOK_lit (d : Doc) (cfg : ECfg) (s : String) (c : Spec.Ctx) :
    StrValOK (F := F) d cfg (.constStr s) (.str s) c :=
  ⟨s, none, evalP_constStr d cfg s c.node, eval_str d s c⟩

/-- `local-name()` without argument: the context node, on both sides -/
theorem evalP_localName0 (d : Doc) (cfg : ECfg) (c : Ref) :
    evalP (F := F) d cfg (.func "local-name" .nil .pnil) c = .ok (.str (localName d c)) := by
  simp [evalP, argVals, callFn, bind, Except.bind, pure, Except.pure]

theorem eval_localName0 (d : Doc) (pfx : String) (c : Spec.Ctx) :
    Spec.eval (F := F) d (.call "local-name" pfx .anil) c =
      .ok (.val (.str (localName d c.node)) none) := by
  simp only [Spec.eval, bind, Except.bind, Spec.Res.argList]
  rfl

theorem strValOK_localName0 (d : Doc) (cfg : ECfg) (pfx : String) (c : Spec.Ctx) :
    StrValOK (F := F) d cfg (.func "local-name" .nil .pnil) (.call "local-name" pfx .anil) c :=
  ⟨_, none, evalP_localName0 d cfg c.node, eval_localName0 d pfx c⟩

/-- the local name of the first node of a list, `""` for the empty list -/
def firstLocalName (d : Doc) : List Ref → String
  | [] => ""
  | r :: _ => localName d r

/-- `local-name(P)`: the engine reports the first node of the *selected sequence* -/
theorem evalP_localName1 (d : Doc) (cfg : ECfg) (pl : Plan) (c : Ref) (out : List Item)
    (h : sel (F := F) d cfg pl c = .ok out) :
    evalP (F := F) d cfg (.func "local-name" .nil (.pcons pl .pnil)) c =
      .ok (.str (firstLocalName d (refs out))) := by
  rw [evalP]
  simp only [argVals, h, bind, Except.bind, pure, Except.pure, beq_self_eq_true, Bool.or_true,
    Bool.true_or, ↓reduceIte, refs]
  cases hl : out.map (·.r) with
  | nil => simp [callFn, firstLocalName]
  | cons r t => simp [callFn, firstLocalName]

theorem spec_localName1 (d : Doc) (ctx : Spec.Ctx) (l : List Ref) :
    Spec.callFn (F := F) d ctx "local-name" [.nodes l] = .ok (.str (firstLocalName d l)) := by
  unfold Spec.callFn Spec.callFn.match_3
  simp only [String.reduceEq, ↓reduceDIte]
  cases l <;> rfl

theorem strValOK_localName1 (d : Doc) (cfg : ECfg) (pl : Plan) (p : Ast) (pfx : String)
    (c : Spec.Ctx) (h : SeqOK (F := F) d cfg pl p c) :
    StrValOK (F := F) d cfg (.func "local-name" .nil (.pcons pl .pnil))
      (.call "local-name" pfx (.acons p .anil)) c := by
  obtain ⟨out, ns, g, hsel, hr, _, hS⟩ := h
  refine ⟨firstLocalName d ns, none, ?_, ?_⟩
  · rw [evalP_localName1 d cfg pl c.node out hsel, hr]
  · rw [ArithSem.eval_call1 d "local-name" pfx p c _ g hS, spec_localName1]
    rfl

/-! ## string `=` / `!=` literal -/

/-- `=` and `!=` -/
def eqOps : List String := ["=", "!="]

theorem eqOps_cmpOps {op : String} (h : op ∈ eqOps) : op ∈ cmpOps := by
  simp only [eqOps, List.mem_cons, List.not_mem_nil, or_false] at h
  rcases h with rfl | rfl <;> simp [cmpOps]

theorem predOK_strCmp (d : Doc) (cfg : ECfg) (op : String) (hop : op ∈ eqOps) (pl : Plan) (a : Ast)
    (lit : String) (c : Spec.Ctx) (h : StrValOK (F := F) d cfg pl a c) :
    PredOK (F := F) d cfg (.logical op pl (.constStr lit)) (.oper op a (.str lit)) c := by
  obtain ⟨s, g, hE, hS⟩ := h
  simp only [eqOps, List.mem_cons, List.not_mem_nil, or_false] at hop
  rcases hop with rfl | rfl
  · refine ⟨.bool (Spec.compare (F := F) d .eq (.str s) (.str lit)),
      .bool (Spec.compare (F := F) d .eq (.str s) (.str lit)), none, ?_, ?_, trivial, trivial, rfl⟩
    · exact evalP_logical d cfg "=" .eq rfl _ _ _ _ _ _ hE (evalP_constStr d cfg lit _)
        (Theorems.C07.cell_strStr_eq d s lit)
    · rw [eval_cmp d "=" .eq rfl a (.str lit) c _ _ hS (eval_str d lit c)]
      rfl
  · refine ⟨.bool (Spec.compare (F := F) d .ne (.str s) (.str lit)),
      .bool (Spec.compare (F := F) d .ne (.str s) (.str lit)), none, ?_, ?_, trivial, trivial, rfl⟩
    · exact evalP_logical d cfg "!=" .ne rfl _ _ _ _ _ _ hE (evalP_constStr d cfg lit _)
        (Theorems.C07.cell_strStr_ne d s lit)
    · rw [eval_cmp d "!=" .ne rfl a (.str lit) c _ _ hS (eval_str d lit c)]
      rfl

/-! ## `contains` / `starts-with` / `ends-with` against a literal -/

/-- the string tests with a string-or-node-set first argument and a string second argument -/
def strTests : List String := ["contains", "starts-with", "ends-with"]

/-- what a string test computes on two strings (shared by both sides) -/
def strTestFn (name : String) (a b : String) : Bool :=
  if name = "starts-with" then Spec.fnStartsWith a b
  else if name = "ends-with" then Spec.fnEndsWith a b
  else Spec.fnContains a b

theorem strTests_firstArg {name : String} (h : name ∈ strTests) : name ∈ StringFns.firstArgFns := by
  simp only [strTests, List.mem_cons, List.not_mem_nil, or_false] at h
  rcases h with rfl | rfl | rfl <;> simp [StringFns.firstArgFns]

omit [NumAlg F] in
theorem strTests_restOk {name : String} (h : name ∈ strTests)
    (rest : List (Except EErr (MVal F))) : StringFns.RestOk name rest := by
  simp only [strTests, List.mem_cons, List.not_mem_nil, or_false] at h
  rcases h with rfl | rfl | rfl <;> simp [StringFns.RestOk]

theorem callFn_strTest_str (d : Doc) (cfg : ECfg) (name : String) (hn : name ∈ strTests) (c : Ref)
    (s lit : String) :
    callFn (F := F) d cfg name .nil c [.ok (.str s), .ok (.str lit)] none =
      .ok (.bool (strTestFn name s lit)) := by
  simp only [strTests, List.mem_cons, List.not_mem_nil, or_false] at hn
  rcases hn with rfl | rfl | rfl <;> simp [callFn, bind, Except.bind, strTestFn]

theorem spec_strTest_str (d : Doc) (ctx : Spec.Ctx) (name : String) (hn : name ∈ strTests)
    (s lit : String) :
    Spec.callFn (F := F) d ctx name [.str s, .str lit] = .ok (.bool (strTestFn name s lit)) := by
  simp only [strTests, List.mem_cons, List.not_mem_nil, or_false] at hn
  rcases hn with rfl | rfl | rfl <;> rfl

/-- both function libraries, on a string-or-node-list first argument -/
theorem callFn_strTest (d : Doc) (cfg : ECfg) (name : String) (hn : name ∈ strTests) (c : Ref)
    (v : Spec.Value F) (hv : StrLike v) (lit : String) :
    callFn (F := F) d cfg name .nil c [.ok (emb v), .ok (.str lit)] none =
      .ok (.bool (strTestFn name (Spec.toStr d v) lit)) := by
  cases hv with
  | str s => exact callFn_strTest_str d cfg name hn c s lit
  | nodes l =>
    show callFn (F := F) d cfg name .nil c (.ok (.nodes l) :: [.ok (.str lit)]) none = _
    rw [StringFns.nodeset_arg_is_first d cfg .nil c none name (strTests_firstArg hn) l _
      (strTests_restOk hn _)]
    exact callFn_strTest_str d cfg name hn c _ lit

theorem spec_strTest (d : Doc) (ctx : Spec.Ctx) (name : String) (hn : name ∈ strTests)
    (v : Spec.Value F) (hv : StrLike v) (lit : String) :
    Spec.callFn (F := F) d ctx name [v, .str lit] =
      .ok (.bool (strTestFn name (Spec.toStr d v) lit)) := by
  cases hv with
  | str s => exact spec_strTest_str d ctx name hn s lit
  | nodes l =>
    rw [StringFns.spec_nodeset_arg_is_first d ctx name (strTests_firstArg hn) l]
    exact spec_strTest_str d ctx name hn _ lit

theorem strTests_not_nameFn {name : String} (hn : name ∈ strTests) :
    (name == "name" || name == "local-name" || name == "namespace-uri") = false := by
  simp only [strTests, List.mem_cons, List.not_mem_nil, or_false] at hn
  rcases hn with rfl | rfl | rfl <;> decide

theorem evalP_func2 (d : Doc) (cfg : ECfg) (name : String) (a b : Plan) (c : Ref)
    (hn : (name == "name" || name == "local-name" || name == "namespace-uri") = false) :
    evalP (F := F) d cfg (.func name .nil (.pcons a (.pcons b .pnil))) c =
      callFn d cfg name .nil c [evalP (F := F) d cfg a c, evalP (F := F) d cfg b c] none := by
  rw [evalP]
  simp only [argVals, hn, bind, Except.bind, pure, Except.pure, Bool.false_eq_true, ↓reduceIte]

theorem eval_call2 (d : Doc) (name pfx : String) (a b : Ast) (ctx : Spec.Ctx) (v w : Spec.Value F)
    (g g' : Option (List (List Ref))) (ha : Spec.eval (F := F) d a ctx = .ok (.val v g))
    (hb : Spec.eval (F := F) d b ctx = .ok (.val w g')) :
    Spec.eval (F := F) d (.call name pfx (.acons a (.acons b .anil))) ctx =
      (Spec.callFn d ctx name [v, w]).map (fun x => Spec.Res.val x none) := by
  rw [Spec.eval, Spec.eval, Spec.eval, Spec.eval, ha, hb]
  simp only [bind, Except.bind, Spec.Res.value, Spec.Res.argList]
  cases Spec.callFn d ctx name [v, w] <;> rfl

/-- `name(S, 'lit')` for `name ∈ {contains, starts-with, ends-with}`: a boolean on both sides, the
same one, whenever the first argument evaluates to the same string or node list on both sides -/
theorem predOK_strTest (d : Doc) (cfg : ECfg) (name : String) (hn : name ∈ strTests) (pfx : String)
    (pl : Plan) (a : Ast) (lit : String) (c : Spec.Ctx) (h : StrArgOK (F := F) d cfg pl a c) :
    PredOK (F := F) d cfg (.func name .nil (.pcons pl (.pcons (.constStr lit) .pnil)))
      (.call name pfx (.acons a (.acons (.str lit) .anil))) c := by
  obtain ⟨v, g, hv, hE, hS⟩ := h
  refine ⟨.bool (strTestFn name (Spec.toStr d v) lit), .bool (strTestFn name (Spec.toStr d v) lit),
    none, ?_, ?_, trivial, trivial, rfl⟩
  · rw [evalP_func2 d cfg name pl _ c.node (strTests_not_nameFn hn), hE, evalP_constStr]
    exact callFn_strTest d cfg name hn c.node v hv lit
  · rw [eval_call2 d name pfx a (.str lit) c v (.str lit) g none hS (eval_str d lit c),
      spec_strTest d c name hn v hv lit]
    rfl

/-- **`name(S, T)` for `name ∈ {contains, starts-with, ends-with}` with a string or a node list in
EITHER position** (after the repair of `containsFunc`/`startwithFunc`/`endwithFunc`: the second
argument is read like the first): a boolean on both sides, the same one — the test on the two
string-values — whenever each argument evaluates to the same string or node list on both sides -/
theorem predOK_strTest2 (d : Doc) (cfg : ECfg) (name : String) (hn : name ∈ strTests) (pfx : String)
    (pl1 pl2 : Plan) (a b : Ast) (c : Spec.Ctx) (h1 : StrArgOK (F := F) d cfg pl1 a c)
    (h2 : StrArgOK (F := F) d cfg pl2 b c) :
    PredOK (F := F) d cfg (.func name .nil (.pcons pl1 (.pcons pl2 .pnil)))
      (.call name pfx (.acons a (.acons b .anil))) c := by
  obtain ⟨v, g, hv, hE, hS⟩ := h1
  obtain ⟨w, g', hw, hE', hS'⟩ := h2
  obtain ⟨m1, m2⟩ := StringFns.fn_strtest_strlike_spec (F := F) d cfg .nil c.node none c name hn v w hv hw
  refine ⟨.bool (StringFns.strTestOf name (Spec.toStr d v) (Spec.toStr d w)),
    .bool (StringFns.strTestOf name (Spec.toStr d v) (Spec.toStr d w)), none, ?_, ?_, trivial, trivial, rfl⟩
  · rw [evalP_func2 d cfg name pl1 pl2 c.node (strTests_not_nameFn hn), hE, hE']
    exact m1
  · rw [eval_call2 d name pfx a b c v w g g' hS hS', m2]
    rfl

/-! ## `count(P) op n`, `n op count(P)` -/

theorem evalP_count (d : Doc) (cfg : ECfg) (pl : Plan) (c : Ref) (ns : List Ref)
    (h : evalP (F := F) d cfg pl c = .ok (.nodes ns)) :
    evalP (F := F) d cfg (.func "count" .nil (.pcons pl .pnil)) c =
      .ok (.num (ofNat ns.length)) := by
  rw [ArithSem.evalP_func1 d cfg "count" .nil pl c (by decide), h]
  exact ArithSem.callFn_count_nodes d cfg .nil c ns

theorem eval_count (d : Doc) (pfx : String) (p : Ast) (c : Spec.Ctx) (ns : List Ref)
    (g : Option (List (List Ref))) (h : Spec.eval (F := F) d p c = .ok (.val (.nodes ns) g)) :
    Spec.eval (F := F) d (.call "count" pfx (.acons p .anil)) c =
      .ok (.val (.num (ofNat ns.length)) none) := by
  rw [ArithSem.eval_call1 d "count" pfx p c _ g h, ArithSem.spec_count]
  rfl

/-- **`count(P)` for a general path `P`** (no flatness): both sides yield a number of the form
`ofNat m` / `ofNat n`; the engine's `m` is the length of the selected sequence (with its
repetitions), the oracle's `n` the size of the node-set — they need not be equal, but one is zero
exactly when the other is.  (Equality `m = n` is what `SeqOK` adds for flat paths.) -/
theorem count_general (d : Doc) (cfg : ECfg) (pfx : String) (pl : Plan) (p : Ast) (c : Spec.Ctx)
    (h : PathOK (F := F) d cfg pl p c) :
    ∃ m n : Nat,
      evalP (F := F) d cfg (.func "count" .nil (.pcons pl .pnil)) c.node = .ok (.num (ofNat m)) ∧
      Spec.eval (F := F) d (.call "count" pfx (.acons p .anil)) c = .ok (.val (.num (ofNat n)) none) ∧
      (m = 0 ↔ n = 0) := by
  obtain ⟨out, ns, g, _, hE, hS, hm, hv, _⟩ := h
  refine ⟨(nodesVal d cfg out).length, ns.length, evalP_count d cfg pl c.node _ hE,
    eval_count d pfx p c ns g hS, ?_⟩
  have := isEmpty_congr_mem _ _ (mem_nodesVal d cfg out ns hm hv)
  rw [List.length_eq_zero_iff, List.length_eq_zero_iff, ← List.isEmpty_iff, ← List.isEmpty_iff, this]

/-- `count(P) op n` -/
theorem predOK_countR (d : Doc) (cfg : ECfg) (op : String) (hop : op ∈ cmpOps) (pfx : String)
    (pl : Plan) (p : Ast) (lex : String) (c : Spec.Ctx) (h : SeqOK (F := F) d cfg pl p c) :
    PredOK (F := F) d cfg (.logical op (.func "count" .nil (.pcons pl .pnil)) (.constNum lex))
      (.oper op (.call "count" pfx (.acons p .anil)) (.num lex)) c := by
  obtain ⟨out, ns, g, _, _, hE, hS⟩ := h
  obtain ⟨cop, hcop⟩ := cmpOps_ofString op hop
  refine ⟨.bool (Spec.compare d cop (.num (ofNat ns.length : F)) (.num (Spec.strToNum (F := F) lex))),
    .bool (Spec.compare d cop (.num (ofNat ns.length : F)) (.num (Spec.strToNum (F := F) lex))),
    none, ?_, ?_, trivial, trivial, rfl⟩
  · exact evalP_logical d cfg op cop hcop _ _ _ _ _ _ (evalP_count d cfg pl c.node ns hE)
      (evalP_constNum d cfg lex _) (Theorems.C07.cell_numNum d cop _ _)
  · rw [eval_cmp d op cop hcop _ (.num lex) c _ _ (eval_count d pfx p c ns g hS) (eval_num d lex c)]
    rfl

/-- `n op count(P)` -/
theorem predOK_countL (d : Doc) (cfg : ECfg) (op : String) (hop : op ∈ cmpOps) (pfx : String)
    (pl : Plan) (p : Ast) (lex : String) (c : Spec.Ctx) (h : SeqOK (F := F) d cfg pl p c) :
    PredOK (F := F) d cfg (.logical op (.constNum lex) (.func "count" .nil (.pcons pl .pnil)))
      (.oper op (.num lex) (.call "count" pfx (.acons p .anil))) c := by
  obtain ⟨out, ns, g, _, _, hE, hS⟩ := h
  obtain ⟨cop, hcop⟩ := cmpOps_ofString op hop
  refine ⟨.bool (Spec.compare d cop (.num (Spec.strToNum (F := F) lex)) (.num (ofNat ns.length : F))),
    .bool (Spec.compare d cop (.num (Spec.strToNum (F := F) lex)) (.num (ofNat ns.length : F))),
    none, ?_, ?_, trivial, trivial, rfl⟩
  · exact evalP_logical d cfg op cop hcop _ _ _ _ _ _ (evalP_constNum d cfg lex _)
      (evalP_count d cfg pl c.node ns hE) (Theorems.C07.cell_numNum d cop _ _)
  · rw [eval_cmp d op cop hcop (.num lex) _ c _ _ (eval_num d lex c) (eval_count d pfx p c ns g hS)]
    rfl

/-- **`not(count(P))`** (after the repair of `notFunc`, which used to answer `false` to every
number): a boolean on both sides, the same one — `count(P) = 0` -/
theorem predOK_notCount (d : Doc) (cfg : ECfg) (pfx pfx' : String) (pl : Plan) (p : Ast)
    (c : Spec.Ctx) (h : SeqOK (F := F) d cfg pl p c) :
    PredOK (F := F) d cfg (.func "not" .nil (.pcons (.func "count" .nil (.pcons pl .pnil)) .pnil))
      (.call "not" pfx (.acons (.call "count" pfx' (.acons p .anil)) .anil)) c := by
  obtain ⟨out, ns, g, _, _, hE, hS⟩ := h
  refine ⟨.bool (!Spec.toBool (F := F) (.num (ofNat ns.length))),
    .bool (!Spec.toBool (F := F) (.num (ofNat ns.length))), none, ?_, ?_, trivial, trivial, rfl⟩
  · rw [evalP_not, evalP_count d cfg pl c.node ns hE]
    exact callFn_not_num d cfg c.node _
  · rw [eval_not d pfx _ c _ (eval_count d pfx' p c ns g hS)]
    rfl

/-! ## a path compared with a path (`P op Q`) or with a string literal (`P op 'lit'`, `'lit' op P`)

XPath 1.0 §3.4: `P op Q` on two node-sets is true iff *some* node of `P` and *some* node of `Q`
compare — on their string-values for `=` and `!=`, on the numbers of their string-values for
`<`, `<=`, `>`, `>=`; `P op 'lit'` iff some node of `P` compares with the literal in the same way.
The truth is existential, so it depends on the node *sets* only: neither the order nor the
repetitions of the engine's result sequences matter, and no flatness requirement is needed
(`compare_nodes_congr`).

The engine's cells (`cmpNodeSetNodeSet`, `cmpNodeSetString`, `cmpStringNodeSet`, all through
`cmpStringStringF`) are XPath's for **all six** operators since the repair of `cmpStringStringF`
(relational operators on `stringToNumber` of the operands — they used to compare the strings
byte-wise: `<b>10</b>` against `<c>9</c>` satisfied `b < c`) and of `cmpNodeSetString` (operands in
order): `Theorems.C07.cell_setSet`, `cell_setStr`, `cell_strSet`.  So `predOK_cmpPath`, first stated
for `=`/`!=` only, now covers `cmpOps`. -/

/-- the oracle's comparison of two node lists depends on their members only -/
theorem compare_nodes_congr (d : Doc) (cop : Spec.CmpOp) (la la' lb lb' : List Ref)
    (ha : ∀ x, x ∈ la ↔ x ∈ la') (hb : ∀ x, x ∈ lb ↔ x ∈ lb') :
    Spec.compare (F := F) d cop (.nodes la) (.nodes lb) =
      Spec.compare (F := F) d cop (.nodes la') (.nodes lb') := by
  simp only [Spec.compare]
  rw [any_congr_mem la la' _ ha]
  congr 1; funext x
  exact any_congr_mem lb lb' _ hb

/-- what the engine's node-set/node-set cell computes, for every operator: some pair of
string-values is related by the string comparator `cmpStrF` (`=`/`!=` on the strings, the relational
operators on their numbers) -/
theorem cmpM_setSet_is_cmpStrF (d : Doc) (cop : Spec.CmpOp) (la lb : List Ref) :
    cmpM (F := F) d cop (.nodes la) (.nodes lb) =
      .ok (la.any (fun x => lb.any (fun y =>
        cmpStrF (F := F) cop (stringValue d x) (stringValue d y)))) := by
  simp [cmpM, xtypeOf, bind, Except.bind, pure, Except.pure]

/-- the engine's node-set/node-set cell is XPath's for `=` and `!=` (kept; `cmpM_setSet_cmpOps`
is the statement for all six operators) -/
theorem cmpM_setSet_eqOps (d : Doc) (op : String) (hop : op ∈ eqOps) (la lb : List Ref) :
    ∃ cop, Spec.CmpOp.ofString op = some cop ∧
      cmpM (F := F) d cop (.nodes la) (.nodes lb) =
        .ok (Spec.compare (F := F) d cop (.nodes la) (.nodes lb)) := by
  obtain ⟨cop, hcop⟩ := cmpOps_ofString op (eqOps_cmpOps hop)
  exact ⟨cop, hcop, Theorems.C07.cell_setSet d cop la lb⟩

/-- the engine's node-set/node-set cell is XPath's for all six operators -/
theorem cmpM_setSet_cmpOps (d : Doc) (op : String) (hop : op ∈ cmpOps) (la lb : List Ref) :
    ∃ cop, Spec.CmpOp.ofString op = some cop ∧
      cmpM (F := F) d cop (.nodes la) (.nodes lb) =
        .ok (Spec.compare (F := F) d cop (.nodes la) (.nodes lb)) := by
  obtain ⟨cop, hcop⟩ := cmpOps_ofString op hop
  exact ⟨cop, hcop, Theorems.C07.cell_setSet d cop la lb⟩

/-- **`P op Q` for two paths** whenever the engine's cell for `op` is XPath's on node lists: a
boolean on both sides, the same one — only *set* agreement (`PathOK`) of the operands is needed -/
theorem predOK_cmpPath_of_cell (d : Doc) (cfg : ECfg) (op : String) (cop : Spec.CmpOp)
    (hcop : Spec.CmpOp.ofString op = some cop)
    (hcell : ∀ la lb : List Ref, cmpM (F := F) d cop (.nodes la) (.nodes lb) =
      .ok (Spec.compare (F := F) d cop (.nodes la) (.nodes lb)))
    (pl ql : Plan) (p q : Ast) (c : Spec.Ctx)
    (hp : PathOK (F := F) d cfg pl p c) (hq : PathOK (F := F) d cfg ql q c) :
    PredOK (F := F) d cfg (.logical op pl ql) (.oper op p q) c := by
  obtain ⟨out1, ns1, g1, _, hE1, hS1, hm1, hv1, _⟩ := hp
  obtain ⟨out2, ns2, g2, _, hE2, hS2, hm2, hv2, _⟩ := hq
  refine ⟨.bool (Spec.compare (F := F) d cop (.nodes (nodesVal d cfg out1))
      (.nodes (nodesVal d cfg out2))),
    .bool (Spec.compare (F := F) d cop (.nodes ns1) (.nodes ns2)), none, ?_, ?_, trivial, trivial, ?_⟩
  · exact evalP_logical d cfg op cop hcop _ _ _ _ _ _ hE1 hE2 (hcell _ _)
  · rw [eval_cmp d op cop hcop p q c _ _ hS1 hS2]
    simp only [Spec.Res.value]
  · simp only [truthM, Spec.toBool]
    exact compare_nodes_congr d cop _ _ _ _ (mem_nodesVal d cfg out1 ns1 hm1 hv1)
      (mem_nodesVal d cfg out2 ns2 hm2 hv2)

/-- **`P op Q` for two paths of any shape, all six operators** (generalised from `eqOps` after the
repair of `cmpStringStringF`): a boolean on both sides, the same one -/
theorem predOK_cmpPath (d : Doc) (cfg : ECfg) (op : String) (hop : op ∈ cmpOps) (pl ql : Plan)
    (p q : Ast) (c : Spec.Ctx)
    (hp : PathOK (F := F) d cfg pl p c) (hq : PathOK (F := F) d cfg ql q c) :
    PredOK (F := F) d cfg (.logical op pl ql) (.oper op p q) c := by
  obtain ⟨cop, hcop⟩ := cmpOps_ofString op hop
  exact predOK_cmpPath_of_cell d cfg op cop hcop (fun la lb => Theorems.C07.cell_setSet d cop la lb)
    pl ql p q c hp hq

/-- **path `op` string literal, all six operators** (`=`/`!=`: `predOK_eqStr`, `predOK_neStr`; the
relational ones compare the number of a node's string-value with the number of the literal) -/
theorem predOK_cmpStrR (d : Doc) (cfg : ECfg) (op : String) (hop : op ∈ cmpOps) (pl : Plan) (p : Ast)
    (s : String) (c : Spec.Ctx) (h : PathOK (F := F) d cfg pl p c) :
    PredOK (F := F) d cfg (.logical op pl (.constStr s)) (.oper op p (.str s)) c := by
  obtain ⟨out, ns, g, _, hE, hS, hm, hv, _⟩ := h
  obtain ⟨cop, hcop⟩ := cmpOps_ofString op hop
  refine ⟨.bool (Spec.compare (F := F) d cop (.nodes (nodesVal d cfg out)) (.str s)),
    .bool (Spec.compare (F := F) d cop (.nodes ns) (.str s)), none, ?_, ?_, trivial, trivial, ?_⟩
  · exact evalP_logical d cfg op cop hcop _ _ _ _ _ _ hE (evalP_constStr d cfg s _)
      (Theorems.C07.cell_setStr d cop _ _)
  · rw [eval_cmp d op cop hcop p (.str s) c _ _ hS (eval_str d s c)]
    simp only [Spec.Res.value]
  · simp only [truthM, Spec.toBool, Spec.compare]
    exact any_congr_mem _ _ _ (mem_nodesVal d cfg out ns hm hv)

/-- **string literal `op` path, all six operators** -/
theorem predOK_cmpStrL (d : Doc) (cfg : ECfg) (op : String) (hop : op ∈ cmpOps) (pl : Plan) (p : Ast)
    (s : String) (c : Spec.Ctx) (h : PathOK (F := F) d cfg pl p c) :
    PredOK (F := F) d cfg (.logical op (.constStr s) pl) (.oper op (.str s) p) c := by
  obtain ⟨out, ns, g, _, hE, hS, hm, hv, _⟩ := h
  obtain ⟨cop, hcop⟩ := cmpOps_ofString op hop
  refine ⟨.bool (Spec.compare (F := F) d cop (.str s) (.nodes (nodesVal d cfg out))),
    .bool (Spec.compare (F := F) d cop (.str s) (.nodes ns)), none, ?_, ?_, trivial, trivial, ?_⟩
  · exact evalP_logical d cfg op cop hcop _ _ _ _ _ _ (evalP_constStr d cfg s _) hE
      (Theorems.C07.cell_strSet d cop _ _)
  · rw [eval_cmp d op cop hcop (.str s) p c _ _ (eval_str d s c) hS]
    simp only [Spec.Res.value]
  · simp only [truthM, Spec.toBool, Spec.compare]
    exact any_congr_mem _ _ _ (mem_nodesVal d cfg out ns hm hv)

end XPathV.PredSem2
