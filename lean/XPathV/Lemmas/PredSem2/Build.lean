import XPathV.Lemmas.PredSem2.Frag
import XPathV.Lemmas.PredSem2.BuildInv
/-!
# C02, extension — `build` on the extended fragment `Frag2`

Same structure as `PredSem.Build`: the plan `build` makes of a path of the fragment (with
`smartDescThroughFilter = false` and the `//name` shortcut guarded by the node test) selects the
node set of the naive plan `predPlan2`; a predicate of the fragment is built into a plan with the
oracle's truth.  The semantic steps (`axis_core`, `rel_filter`, `merge_sem`, …) are those of
`PredSem`; new here are the predicate cases for the function calls (they are built through the
`.call` branch of `build`; their static type is "any", so `processFilter` marks the filter as
positional and applies the merge rewrite — `merge_sem` covers it because the values are never
numbers) and the parenthesised filter input `(P)[b]`.
-/
namespace XPathV.PredSem2
open XPathV XPathV.Model XPathV.PathSem XPathV.PredSem
open XPathV.FlatFiltered (FlatAny)

variable {F : Type} [NumAlg F]

/-! ## statements of the induction -/

/-- a path: props without position/last, a path-shaped plan, related to the naive plan -/
def BuildP2 (d : Doc) (cfg : ECfg) (regexOk : RegexOk) (limit : Nat) (p : Ast) : Prop :=
  ∀ fl st o, build regexOk limit true false p fl st = .ok o →
    PropsOK o.props ∧ PathShape o.q ∧
      ∀ c, validRef d c = true → Rel (F := F) d cfg fl.smartDesc o.q (predPlan2 p) c

def AxisDecomp2 (d : Doc) (cfg : ECfg) (regexOk : RegexOk) (limit : Nat) (p : Ast) : Prop :=
  ∀ a inp', p = .axis a inp' → ∀ fl st o, fl.filter = true → fl.smartDesc = false →
    build regexOk limit true false p fl st = .ok o → StepOver (F := F) d cfg a o.q

/-- a predicate: props without position/last, a plan with the oracle's truth -/
def BuildB2 (d : Doc) (cfg : ECfg) (regexOk : RegexOk) (limit : Nat) (b : Ast) : Prop :=
  ∀ fl st o, build regexOk limit true false b fl st = .ok o →
    PropsOK o.props ∧ ∀ c : Spec.Ctx, validRef d c.node = true → PredOK (F := F) d cfg o.q b c

/-- a string-valued expression: a plan with the oracle's string -/
def BuildStr (d : Doc) (cfg : ECfg) (regexOk : RegexOk) (limit : Nat) (a : Ast) : Prop :=
  ∀ fl st o, build regexOk limit true false a fl st = .ok o →
    PropsOK o.props ∧ ∀ c : Spec.Ctx, validRef d c.node = true → StrValOK (F := F) d cfg o.q a c

/-- a first argument of a string test: a plan with the oracle's string or node list -/
def BuildArg (d : Doc) (cfg : ECfg) (regexOk : RegexOk) (limit : Nat) (a : Ast) : Prop :=
  ∀ fl st o, build regexOk limit true false a fl st = .ok o →
    ∀ c : Spec.Ctx, validRef d c.node = true → StrArgOK (F := F) d cfg o.q a c

/-! ## `Rel` through parentheses -/

theorem rel_group (d : Doc) (cfg : ECfg) (q n : Plan) (c : Ref)
    (h : Rel (F := F) d cfg false q n c) : Rel (F := F) d cfg false (.group q) (.group n) c := by
  obtain ⟨out, nv, h1, h2, hv, heq, _⟩ := h
  have hm : ∀ x, x ∈ refs (numbered (refs out)) ↔ x ∈ refs (numbered (refs nv)) := by
    intro x; rw [numbered_refs, numbered_refs]; exact heq rfl x
  refine ⟨_, _, sel_group d cfg q c out h1, sel_group d cfg n c nv h2, ?_, fun _ => hm,
    Covers.of_seteq d _ _ hm⟩
  intro o ho
  rw [numbered_refs] at ho
  exact hv o ho

section
variable {d : Doc} (wf : WF d) (cfg : ECfg) (hns : cfg.nsIface = true) (hinj : HashInj d cfg)
  (regexOk : RegexOk) (limit : Nat)
include wf hinj

/-! ## steps -/

theorem build2_axis_none (a : AxisInfo) (ha : a.axis ∈ axes12) :
    BuildP2 (F := F) d cfg regexOk limit (.axis a .none) ∧
    AxisDecomp2 (F := F) d cfg regexOk limit (.axis a .none) := by
  have key : ∀ fl st o, build regexOk limit true false (.axis a .none) fl st = .ok o →
      PropsOK o.props ∧ PathShape o.q ∧
      (∀ c, validRef d c = true → Rel (F := F) d cfg fl.smartDesc o.q (stepPlan a .context) c) ∧
      (fl.smartDesc = false → StepOver (F := F) d cfg a o.q) := by
    intro fl st o h
    rw [build] at h
    have h := enter_ok _ _ _ _ h
    obtain ⟨⟨q, props⟩, hq, hfin⟩ := except_bind_ok _ _ _ h
    exact axis_core (F := F) wf cfg hinj a ha fl .context .context {} false propsOK_empty
      (fun c hc => rel_context d cfg false c hc) (fun _ => rfl) q props _ o hq hfin
  refine ⟨fun fl st o h => ?_, fun a' inp' he fl st o _ hsd h => ?_⟩
  · obtain ⟨h1, h2, h3, _⟩ := key fl st o h
    exact ⟨h1, h2, h3⟩
  · cases he
    exact (key fl st o h).2.2.2 hsd

/-- a step over an input that is neither the context nor a step (a root or a filtered path) -/
theorem build2_axis_other (a : AxisInfo) (ha : a.axis ∈ axes12) (other : Ast)
    (hn : other ≠ .none) (hx : ∀ b g, other ≠ .axis b g)
    (ih : BuildP2 (F := F) d cfg regexOk limit other) :
    BuildP2 (F := F) d cfg regexOk limit (.axis a other) ∧
    AxisDecomp2 (F := F) d cfg regexOk limit (.axis a other) := by
  have key : ∀ fl st o, build regexOk limit true false (.axis a other) fl st = .ok o →
      PropsOK o.props ∧ PathShape o.q ∧
      (∀ c, validRef d c = true →
        Rel (F := F) d cfg fl.smartDesc o.q (stepPlan a (predPlan2 other)) c) ∧
      (fl.smartDesc = false → StepOver (F := F) d cfg a o.q) := by
    intro fl st o h
    rw [build] at h
    · have h := enter_ok _ _ _ _ h
      obtain ⟨o1, ho1, h⟩ := except_bind_ok _ _ _ h
      obtain ⟨⟨q, props⟩, hq, hfin⟩ := except_bind_ok _ _ _ h
      obtain ⟨hp1, _, hr1⟩ := ih _ _ o1 ho1
      exact axis_core (F := F) wf cfg hinj a ha fl o1.q (predPlan2 other) o1.props _ hp1 hr1
        (inFlagsOf_smart a fl) q props _ o hq hfin
    · exact hn
    · exact hx
  refine ⟨fun fl st o h => ?_, fun a' inp' he fl st o _ hsd h => ?_⟩
  · obtain ⟨h1, h2, h3, _⟩ := key fl st o h
    exact ⟨h1, h2, h3⟩
  · cases he
    exact (key fl st o h).2.2.2 hsd

/-- a step over a step: the `//name` shortcut or the general arm -/
theorem build2_axis_axis (a b : AxisInfo) (grand : Ast) (ha : a.axis ∈ axes12)
    (hg : Frag2 true grand)
    (ihb : BuildP2 (F := F) d cfg regexOk limit (.axis b grand))
    (ihg : BuildP2 (F := F) d cfg regexOk limit grand) :
    BuildP2 (F := F) d cfg regexOk limit (.axis a (.axis b grand)) ∧
    AxisDecomp2 (F := F) d cfg regexOk limit (.axis a (.axis b grand)) := by
  have key : ∀ fl st o, build regexOk limit true false (.axis a (.axis b grand)) fl st = .ok o →
      PropsOK o.props ∧ PathShape o.q ∧
      (∀ c, validRef d c = true →
        Rel (F := F) d cfg fl.smartDesc o.q (stepPlan a (stepPlan b (predPlan2 grand))) c) ∧
      (fl.filter = true → fl.smartDesc = false → StepOver (F := F) d cfg a o.q) := by
    intro fl st o h
    rw [build] at h
    replace h := enter_ok _ _ _ _ h
    simp only [] at h
    split at h
    · rename_i hcond
      simp only [Bool.and_eq_true, beq_iff_eq, isPlainDos, Bool.not_true, Bool.false_or,
        Bool.not_eq_true'] at hcond
      obtain ⟨⟨hflt, hax⟩, hbx, ⟨h1, h2⟩, h3⟩ := hcond
      -- the shortcut: descendant over the grand-input
      have fin : ∀ gq gprops st', PropsOK gprops →
          (∀ c, validRef d c = true → Rel (F := F) d cfg true gq (predPlan2 grand) c) →
          build.finAxis (.descendant a false gq) { gprops with nonFlat := true } st' = .ok o →
          PropsOK o.props ∧ PathShape o.q ∧
          (∀ c, validRef d c = true →
            Rel (F := F) d cfg fl.smartDesc o.q (stepPlan a (stepPlan b (predPlan2 grand))) c) ∧
          (fl.filter = true → fl.smartDesc = false → StepOver (F := F) d cfg a o.q) := by
        intro gq gprops st' hgp hgr hfin
        rw [finAxis_q _ _ _ _ hfin, finAxis_props _ _ _ _ hfin]
        refine ⟨⟨hgp.1, hgp.2⟩, trivial, fun c hc => ?_, fun hf => ?_⟩
        · exact shortcut_combine wf cfg hinj a b hax hbx h1 h2 h3 gq _ c _ (hgr c hc)
        · rw [hf] at hflt; cases hflt
      cases hg with
      | none =>
        simp only [pure, Except.pure, bind, Except.bind] at h
        exact fin .context {} _ propsOK_empty (fun c hc => rel_context d cfg true c hc) h
      | root s =>
        simp only [] at h
        obtain ⟨o1, ho1, h⟩ := except_bind_ok _ _ _ h
        simp only [pure, Except.pure, bind, Except.bind] at h
        obtain ⟨hp1, _, hr1⟩ := ihg _ _ o1 ho1
        exact fin o1.q o1.props _ hp1 hr1 h
      | axis e g2 hg2 he =>
        simp only [] at h
        obtain ⟨o1, ho1, h⟩ := except_bind_ok _ _ _ h
        simp only [pure, Except.pure, bind, Except.bind] at h
        obtain ⟨hp1, _, hr1⟩ := ihg _ _ o1 ho1
        exact fin o1.q o1.props _ hp1 hr1 h
      | filter i2 b2 hi2 hb2 =>
        simp only [] at h
        obtain ⟨o1, ho1, h⟩ := except_bind_ok _ _ _ h
        simp only [pure, Except.pure, bind, Except.bind] at h
        obtain ⟨hp1, _, hr1⟩ := ihg _ _ o1 ho1
        exact fin o1.q o1.props _ hp1 hr1 h
      | gfilter i2 b2 hi2 hb2 =>
        simp only [] at h
        obtain ⟨o1, ho1, h⟩ := except_bind_ok _ _ _ h
        simp only [pure, Except.pure, bind, Except.bind] at h
        obtain ⟨hp1, _, hr1⟩ := ihg _ _ o1 ho1
        exact fin o1.q o1.props _ hp1 hr1 h
    · obtain ⟨o1, ho1, h⟩ := except_bind_ok _ _ _ h
      obtain ⟨⟨q, props⟩, hq, hfin⟩ := except_bind_ok _ _ _ h
      obtain ⟨hp1, _, hr1⟩ := ihb _ _ o1 ho1
      obtain ⟨k1, k2, k3, k4⟩ := axis_core (F := F) wf cfg hinj a ha fl o1.q
        (stepPlan b (predPlan2 grand)) o1.props _ hp1 hr1 (inFlagsOf_smart a fl) q props _ o hq hfin
      exact ⟨k1, k2, k3, fun _ hsd => k4 hsd⟩
  refine ⟨fun fl st o h => ?_, fun a' inp' he fl st o hf hsd h => ?_⟩
  · obtain ⟨h1, h2, h3, _⟩ := key fl st o h
    exact ⟨h1, h2, h3⟩
  · cases he
    exact (key fl st o h).2.2.2 hf hsd

/-! ## the filter -/

include hns in
theorem build2_filter_case (inp b : Ast) (hinp : Frag2 true inp) (hb : Frag2 false b)
    (ihp : BuildP2 (F := F) d cfg regexOk limit inp)
    (ihd : AxisDecomp2 (F := F) d cfg regexOk limit inp)
    (ihb : BuildB2 (F := F) d cfg regexOk limit b) :
    BuildP2 (F := F) d cfg regexOk limit (.filter inp b) := by
  intro fl st o h
  obtain ⟨st1, io, co, hio, hco, hres⟩ := build_filter_inv regexOk limit true false inp b fl st o h
  obtain ⟨hiop, _, hior⟩ := ihp _ _ io hio
  obtain ⟨hcop, hcor⟩ := ihb _ _ co hco
  obtain ⟨hq, hp1, hp2⟩ := hres hcop.2
  have htq : PredTr (F := F) d cfg co.q (holds (F := F) d b) := predTr_of_predOK d cfg co.q b hcor
  have htn : PredTr (F := F) d cfg (predPlan2 b) (holds (F := F) d b) :=
    predTr_of_predOK d cfg (predPlan2 b) b
      (fun c hc => (frag_sem2 (F := F) wf cfg hns hinj false b hb c hc).2 rfl)
  have hior' : ∀ c, validRef d c = true → Rel (F := F) d cfg false io.q (predPlan2 inp) c := by
    intro c hc
    have := hior c hc
    simpa only [Bool.and_false] using this
  have hA : ∀ c, validRef d c = true →
      Rel (F := F) d cfg fl.smartDesc (.filter io.q co.q) (predPlan2 (.filter inp b)) c :=
    fun c hc => rel_filter d cfg _ io.q (predPlan2 inp) co.q (predPlan2 b) c _ (hior' c hc) htq htn
  refine ⟨⟨hp1 ▸ hiop.1, hp2 ▸ hiop.2⟩, ?_, ?_⟩
  · rcases hq with hq | ⟨_, parent, _, hq⟩ <;> rw [hq] <;> trivial
  · intro c hc
    rcases hq with hq | ⟨hax, parent, hpar, hq⟩
    · rw [hq]; exact hA c hc
    · -- the merge rewrite
      cases hinp with
      | none => cases hax
      | root s => cases hax
      | filter i2 b2 _ _ => cases hax
      | gfilter i2 b2 _ _ => cases hax
      | axis a inp' hinp' ha =>
        obtain ⟨qi, hi1, hi2, hi3, hi4⟩ := ihd a inp' rfl _ _ io rfl (by simp) hio
        have hqp : qi = parent := Option.some.inj (hi1.symm.trans hpar)
        subst hqp
        obtain ⟨ins, hins, hinsv⟩ := hi4 c hc
        obtain ⟨o1, o2, ho1, ho2, hm⟩ := merge_sem (F := F) wf cfg hinj a ha io.q qi co.q hi2 hi3 c ins
          hins hinsv (holds (F := F) d b) htq
        rw [hq]
        exact rel_of_seteq d cfg _ _ _ _ c o1 o2 ho1 ho2 hm (hA c hc)

include hns in
/-- `(P)[b]`: the plain filter over the group of the built inner path (no merge rewrite: the input
is not an axis node) -/
theorem build2_gfilter_case (p b : Ast) (hb : Frag2 false b)
    (ihp : BuildP2 (F := F) d cfg regexOk limit p)
    (ihb : BuildB2 (F := F) d cfg regexOk limit b) :
    BuildP2 (F := F) d cfg regexOk limit (.filter (.group p) b) := by
  intro fl st o h
  obtain ⟨st1, io, co, hio, hco, hres⟩ :=
    build_filter_inv regexOk limit true false (.group p) b fl st o h
  obtain ⟨st2, o1, ho1, hgq, hgp⟩ := build_group_inv regexOk limit true false p _ _ io hio
  obtain ⟨ho1p, _, ho1r⟩ := ihp _ _ o1 ho1
  obtain ⟨hcop, hcor⟩ := ihb _ _ co hco
  obtain ⟨hq, hp1, hp2⟩ := hres hcop.2
  have htq : PredTr (F := F) d cfg co.q (holds (F := F) d b) := predTr_of_predOK d cfg co.q b hcor
  have htn : PredTr (F := F) d cfg (predPlan2 b) (holds (F := F) d b) :=
    predTr_of_predOK d cfg (predPlan2 b) b
      (fun c hc => (frag_sem2 (F := F) wf cfg hns hinj false b hb c hc).2 rfl)
  have hiop : PropsOK io.props := hgp ▸ ho1p
  have hA : ∀ c, validRef d c = true →
      Rel (F := F) d cfg fl.smartDesc (.filter io.q co.q) (predPlan2 (.filter (.group p) b)) c := by
    intro c hc
    rw [hgq]
    exact rel_filter d cfg _ (.group o1.q) (.group (predPlan2 p)) co.q (predPlan2 b) c _
      (rel_group d cfg o1.q (predPlan2 p) c (ho1r c hc)) htq htn
  rcases hq with hq | ⟨hax, _⟩
  · refine ⟨⟨hp1 ▸ hiop.1, hp2 ▸ hiop.2⟩, by rw [hq]; trivial, fun c hc => ?_⟩
    rw [hq]; exact hA c hc
  · cases hax

/-! ## predicates of `PredSem.Frag` -/

include hns in
theorem buildB2_exist (p : Ast) (hp : Frag2 true p) (ih : BuildP2 (F := F) d cfg regexOk limit p) :
    BuildB2 (F := F) d cfg regexOk limit p := by
  intro fl st o h
  obtain ⟨hpr, hs, hr⟩ := ih fl st o h
  exact ⟨hpr, fun c hc => predOK_of_rel d cfg _ o.q (predPlan2 p) p c (hr c.node hc) hs
    ((frag_sem2 (F := F) wf cfg hns hinj true p hp c hc).1 rfl)⟩

include hns in
/-- an operand built with empty flags agrees with the oracle as a node set -/
theorem operand_pathOK2 (p : Ast) (hp : Frag2 true p) (ih : BuildP2 (F := F) d cfg regexOk limit p)
    (st : BState) (lo : BOut) (h : build regexOk limit true false p {} st = .ok lo)
    (c : Spec.Ctx) (hc : validRef d c.node = true) :
    PropsOK lo.props ∧ PathOK (F := F) d cfg lo.q p c := by
  obtain ⟨hpr, hs, hr⟩ := ih {} st lo h
  exact ⟨hpr, pathOK_of_rel d cfg lo.q (predPlan2 p) p c (hr c.node hc) hs
    ((frag_sem2 (F := F) wf cfg hns hinj true p hp c hc).1 rfl)⟩

include hns in
/-- a *flat* operand built with empty flags agrees with the oracle as a sequence: the engine's
sequence is the oracle's node list -/
theorem operand_seqOK (p : Ast) (hp : Frag2 true p) (hflat : FlatAny p)
    (ih : BuildP2 (F := F) d cfg regexOk limit p)
    (st : BState) (lo : BOut) (h : build regexOk limit true false p {} st = .ok lo)
    (c : Spec.Ctx) (hc : validRef d c.node = true) :
    PropsOK lo.props ∧ SeqOK (F := F) d cfg lo.q p c := by
  obtain ⟨hpr, hpo⟩ := operand_pathOK2 (F := F) wf cfg hns hinj regexOk limit p hp ih st lo h c hc
  refine ⟨hpr, seqOK_of_pathOK d cfg lo.q p c hpo (fun out ho => ?_) (fun ns g hS => ?_)⟩
  · exact (FlatFiltered.flatAny_sorted (F := F) wf cfg regexOk limit true false p hflat {} st lo h
      c.node out ho).1
  · exact FlatFiltered.flatAny_spec_sorted (F := F) d p hflat c ns g hS

include hns in
theorem buildB2_eqStr (p : Ast) (s : String) (hp : Frag2 true p)
    (ih : BuildP2 (F := F) d cfg regexOk limit p) :
    BuildB2 (F := F) d cfg regexOk limit (.oper "=" p (.str s)) := by
  intro fl st o h
  obtain ⟨st1, lo, ro, hlo, hro, hq, hpr⟩ :=
    build_cmp_inv regexOk limit true false "=" (by simp [cmpOps]) p (.str s) fl st o h
  obtain ⟨hrq, hrp⟩ := build_str_inv regexOk limit true false s _ _ ro hro
  have hlp : PropsOK lo.props := (ih {} st1 lo hlo).1
  refine ⟨by rw [hpr, hrp]; exact propsOK_or _ _ hlp propsOK_empty, fun c hc => ?_⟩
  rw [hq, hrq]
  exact predOK_eqStr d cfg lo.q p s c
    (operand_pathOK2 (F := F) wf cfg hns hinj regexOk limit p hp ih st1 lo hlo c hc).2

include hns in
theorem buildB2_neStr (p : Ast) (s : String) (hp : Frag2 true p)
    (ih : BuildP2 (F := F) d cfg regexOk limit p) :
    BuildB2 (F := F) d cfg regexOk limit (.oper "!=" p (.str s)) := by
  intro fl st o h
  obtain ⟨st1, lo, ro, hlo, hro, hq, hpr⟩ :=
    build_cmp_inv regexOk limit true false "!=" (by simp [cmpOps]) p (.str s) fl st o h
  obtain ⟨hrq, hrp⟩ := build_str_inv regexOk limit true false s _ _ ro hro
  have hlp : PropsOK lo.props := (ih {} st1 lo hlo).1
  refine ⟨by rw [hpr, hrp]; exact propsOK_or _ _ hlp propsOK_empty, fun c hc => ?_⟩
  rw [hq, hrq]
  exact predOK_neStr d cfg lo.q p s c
    (operand_pathOK2 (F := F) wf cfg hns hinj regexOk limit p hp ih st1 lo hlo c hc).2

include hns in
theorem buildB2_cmpNumR (op : String) (hop : op ∈ cmpOps) (p : Ast) (lex : String)
    (hp : Frag2 true p) (ih : BuildP2 (F := F) d cfg regexOk limit p) :
    BuildB2 (F := F) d cfg regexOk limit (.oper op p (.num lex)) := by
  intro fl st o h
  obtain ⟨st1, lo, ro, hlo, hro, hq, hpr⟩ :=
    build_cmp_inv regexOk limit true false op hop p (.num lex) fl st o h
  obtain ⟨hrq, hrp⟩ := build_num_inv regexOk limit true false lex _ _ ro hro
  have hlp : PropsOK lo.props := (ih {} st1 lo hlo).1
  refine ⟨by rw [hpr, hrp]; exact propsOK_or _ _ hlp propsOK_empty, fun c hc => ?_⟩
  rw [hq, hrq]
  exact predOK_cmpNumR d cfg op hop lo.q p lex c
    (operand_pathOK2 (F := F) wf cfg hns hinj regexOk limit p hp ih st1 lo hlo c hc).2

include hns in
theorem buildB2_cmpNumL (op : String) (hop : op ∈ cmpOps) (lex : String) (p : Ast)
    (hp : Frag2 true p) (ih : BuildP2 (F := F) d cfg regexOk limit p) :
    BuildB2 (F := F) d cfg regexOk limit (.oper op (.num lex) p) := by
  intro fl st o h
  obtain ⟨st1, lo, ro, hlo, hro, hq, hpr⟩ :=
    build_cmp_inv regexOk limit true false op hop (.num lex) p fl st o h
  obtain ⟨hlq, hlp⟩ := build_num_inv regexOk limit true false lex _ _ lo hlo
  have hrp : PropsOK ro.props := (ih {} lo.st ro hro).1
  refine ⟨by rw [hpr, hlp]; exact propsOK_or _ _ propsOK_empty hrp, fun c hc => ?_⟩
  rw [hq, hlq]
  exact predOK_cmpNumL d cfg op hop ro.q p lex c
    (operand_pathOK2 (F := F) wf cfg hns hinj regexOk limit p hp ih lo.st ro hro c hc).2

include hns in
/-- `P op Q`, all six operators: both operands are built with empty flags (as `processOperator`
does), the second one from the builder state the first one leaves; each agrees with the oracle as a
node set, which is all the existential comparison reads -/
theorem buildB2_cmpPath (op : String) (hop : op ∈ cmpOps) (p q : Ast)
    (hp : Frag2 true p) (hq : Frag2 true q)
    (ihp : BuildP2 (F := F) d cfg regexOk limit p) (ihq : BuildP2 (F := F) d cfg regexOk limit q) :
    BuildB2 (F := F) d cfg regexOk limit (.oper op p q) := by
  intro fl st o h
  obtain ⟨st1, lo, ro, hlo, hro, hq', hpr⟩ :=
    build_cmp_inv regexOk limit true false op hop p q fl st o h
  have hlp : PropsOK lo.props := (ihp {} st1 lo hlo).1
  have hrp : PropsOK ro.props := (ihq {} lo.st ro hro).1
  refine ⟨by rw [hpr]; exact propsOK_or _ _ hlp hrp, fun c hc => ?_⟩
  rw [hq']
  exact predOK_cmpPath d cfg op hop lo.q ro.q p q c
    (operand_pathOK2 (F := F) wf cfg hns hinj regexOk limit p hp ihp st1 lo hlo c hc).2
    (operand_pathOK2 (F := F) wf cfg hns hinj regexOk limit q hq ihq lo.st ro hro c hc).2

include hns in
/-- `P op 'lit'`, all six operators -/
theorem buildB2_cmpStrR (op : String) (hop : op ∈ cmpOps) (p : Ast) (s : String)
    (hp : Frag2 true p) (ih : BuildP2 (F := F) d cfg regexOk limit p) :
    BuildB2 (F := F) d cfg regexOk limit (.oper op p (.str s)) := by
  intro fl st o h
  obtain ⟨st1, lo, ro, hlo, hro, hq, hpr⟩ :=
    build_cmp_inv regexOk limit true false op hop p (.str s) fl st o h
  obtain ⟨hrq, hrp⟩ := build_str_inv regexOk limit true false s _ _ ro hro
  have hlp : PropsOK lo.props := (ih {} st1 lo hlo).1
  refine ⟨by rw [hpr, hrp]; exact propsOK_or _ _ hlp propsOK_empty, fun c hc => ?_⟩
  rw [hq, hrq]
  exact predOK_cmpStrR d cfg op hop lo.q p s c
    (operand_pathOK2 (F := F) wf cfg hns hinj regexOk limit p hp ih st1 lo hlo c hc).2

include hns in
/-- `'lit' op P`, all six operators -/
theorem buildB2_cmpStrL (op : String) (hop : op ∈ cmpOps) (s : String) (p : Ast)
    (hp : Frag2 true p) (ih : BuildP2 (F := F) d cfg regexOk limit p) :
    BuildB2 (F := F) d cfg regexOk limit (.oper op (.str s) p) := by
  intro fl st o h
  obtain ⟨st1, lo, ro, hlo, hro, hq, hpr⟩ :=
    build_cmp_inv regexOk limit true false op hop (.str s) p fl st o h
  obtain ⟨hlq, hlp⟩ := build_str_inv regexOk limit true false s _ _ lo hlo
  have hrp : PropsOK ro.props := (ih {} lo.st ro hro).1
  refine ⟨by rw [hpr, hlp]; exact propsOK_or _ _ propsOK_empty hrp, fun c hc => ?_⟩
  rw [hq, hlq]
  exact predOK_cmpStrL d cfg op hop ro.q p s c
    (operand_pathOK2 (F := F) wf cfg hns hinj regexOk limit p hp ih lo.st ro hro c hc).2

omit wf hinj in
theorem buildB2_not (pfx : String) (b : Ast) (ih : BuildB2 (F := F) d cfg regexOk limit b) :
    BuildB2 (F := F) d cfg regexOk limit (.call "not" pfx (.acons b .anil)) := by
  intro fl st o h
  obtain ⟨st1, ho, hho, hq, hpr⟩ := build_not_inv regexOk limit true false pfx b fl st o h
  obtain ⟨hp, hr⟩ := ih {} st1 ho hho
  refine ⟨hpr ▸ hp, fun c hc => ?_⟩
  rw [hq]
  exact predOK_not d cfg ho.q b pfx c (hr c hc)

omit wf hinj in
theorem buildB2_and (b1 b2 : Ast) (ih1 : BuildB2 (F := F) d cfg regexOk limit b1)
    (ih2 : BuildB2 (F := F) d cfg regexOk limit b2) :
    BuildB2 (F := F) d cfg regexOk limit (.oper "and" b1 b2) := by
  intro fl st o h
  obtain ⟨st1, lo, ro, hlo, hro, hq, hpr⟩ := build_and_inv regexOk limit true false b1 b2 fl st o h
  obtain ⟨hp1, hr1⟩ := ih1 {} st1 lo hlo
  obtain ⟨hp2, hr2⟩ := ih2 {} lo.st ro hro
  refine ⟨hpr ▸ propsOK_or _ _ hp1 hp2, fun c hc => ?_⟩
  rw [hq]
  exact predOK_and d cfg lo.q ro.q b1 b2 c (hr1 c hc) (hr2 c hc)

omit wf hinj in
theorem buildB2_or (b1 b2 : Ast) (ih1 : BuildB2 (F := F) d cfg regexOk limit b1)
    (ih2 : BuildB2 (F := F) d cfg regexOk limit b2) :
    BuildB2 (F := F) d cfg regexOk limit (.oper "or" b1 b2) := by
  intro fl st o h
  obtain ⟨st1, lo, ro, hlo, hro, hq, hpr⟩ := build_or_inv regexOk limit true false b1 b2 fl st o h
  obtain ⟨hp1, hr1⟩ := ih1 {} st1 lo hlo
  obtain ⟨hp2, hr2⟩ := ih2 {} lo.st ro hro
  refine ⟨hpr ▸ propsOK_or _ _ hp1 hp2, fun c hc => ?_⟩
  rw [hq]
  exact predOK_or d cfg lo.q ro.q b1 b2 c (hr1 c hc) (hr2 c hc)

/-! ## the new predicate forms -/

include hns in
/-- `count(P) op n` -/
theorem buildB2_countR (op : String) (hop : op ∈ cmpOps) (pfx : String) (p : Ast) (lex : String)
    (hp : Frag2 true p) (hflat : FlatAny p) (ih : BuildP2 (F := F) d cfg regexOk limit p) :
    BuildB2 (F := F) d cfg regexOk limit (.oper op (.call "count" pfx (.acons p .anil)) (.num lex)) := by
  intro fl st o h
  obtain ⟨st1, lo, ro, hlo, hro, hq, hpr⟩ :=
    build_cmp_inv regexOk limit true false op hop _ (.num lex) fl st o h
  obtain ⟨hrq, hrp⟩ := build_num_inv regexOk limit true false lex _ _ ro hro
  obtain ⟨st2, ho, hho, hlq, hlp⟩ := build_count_inv regexOk limit true false pfx p _ _ lo hlo
  have hop' : PropsOK ho.props := (ih {} st2 ho hho).1
  refine ⟨by rw [hpr, hrp, hlp]; exact propsOK_or _ _ hop' propsOK_empty, fun c hc => ?_⟩
  rw [hq, hrq, hlq]
  exact predOK_countR d cfg op hop pfx ho.q p lex c
    (operand_seqOK (F := F) wf cfg hns hinj regexOk limit p hp hflat ih st2 ho hho c hc).2

include hns in
/-- `not(count(P))` -/
theorem buildB2_notCount (pfx pfx' : String) (p : Ast)
    (hp : Frag2 true p) (hflat : FlatAny p) (ih : BuildP2 (F := F) d cfg regexOk limit p) :
    BuildB2 (F := F) d cfg regexOk limit
      (.call "not" pfx (.acons (.call "count" pfx' (.acons p .anil)) .anil)) := by
  intro fl st o h
  obtain ⟨st1, co, hco, hq, hpr⟩ := build_not_inv regexOk limit true false pfx _ fl st o h
  obtain ⟨st2, ho, hho, hcq, hcp⟩ := build_count_inv regexOk limit true false pfx' p _ _ co hco
  have hop' : PropsOK ho.props := (ih {} st2 ho hho).1
  refine ⟨by rw [hpr, hcp]; exact hop', fun c hc => ?_⟩
  rw [hq, hcq]
  exact predOK_notCount d cfg pfx pfx' ho.q p c
    (operand_seqOK (F := F) wf cfg hns hinj regexOk limit p hp hflat ih st2 ho hho c hc).2

include hns in
/-- `n op count(P)` -/
theorem buildB2_countL (op : String) (hop : op ∈ cmpOps) (lex pfx : String) (p : Ast)
    (hp : Frag2 true p) (hflat : FlatAny p) (ih : BuildP2 (F := F) d cfg regexOk limit p) :
    BuildB2 (F := F) d cfg regexOk limit (.oper op (.num lex) (.call "count" pfx (.acons p .anil))) := by
  intro fl st o h
  obtain ⟨st1, lo, ro, hlo, hro, hq, hpr⟩ :=
    build_cmp_inv regexOk limit true false op hop (.num lex) _ fl st o h
  obtain ⟨hlq, hlp⟩ := build_num_inv regexOk limit true false lex _ _ lo hlo
  obtain ⟨st2, ho, hho, hrq, hrp⟩ := build_count_inv regexOk limit true false pfx p _ _ ro hro
  have hop' : PropsOK ho.props := (ih {} st2 ho hho).1
  refine ⟨by rw [hpr, hrp, hlp]; exact propsOK_or _ _ propsOK_empty hop', fun c hc => ?_⟩
  rw [hq, hrq, hlq]
  exact predOK_countL d cfg op hop pfx ho.q p lex c
    (operand_seqOK (F := F) wf cfg hns hinj regexOk limit p hp hflat ih st2 ho hho c hc).2

omit wf hinj in
/-- a string literal -/
theorem buildStr_lit (s : String) : BuildStr (F := F) d cfg regexOk limit (.str s) := by
  intro fl st o h
  obtain ⟨hq, hp⟩ := build_str_inv regexOk limit true false s fl st o h
  refine ⟨hp ▸ propsOK_empty, fun c _ => ?_⟩
  rw [hq]
  exact strValOK_lit d cfg s c

omit wf hinj in
/-- `local-name()` -/
theorem buildStr_localName0 (pfx : String) :
    BuildStr (F := F) d cfg regexOk limit (.call "local-name" pfx .anil) := by
  intro fl st o h
  obtain ⟨hq, hp⟩ := build_localName0_inv regexOk limit true false pfx fl st o h
  refine ⟨hp ▸ propsOK_empty, fun c _ => ?_⟩
  rw [hq]
  exact strValOK_localName0 d cfg pfx c

include hns in
/-- `local-name(P)`, `P` flat -/
theorem buildStr_localName1 (pfx : String) (p : Ast) (hp : Frag2 true p) (hflat : FlatAny p)
    (ih : BuildP2 (F := F) d cfg regexOk limit p) :
    BuildStr (F := F) d cfg regexOk limit (.call "local-name" pfx (.acons p .anil)) := by
  intro fl st o h
  obtain ⟨st2, ho, hho, hq, hpr⟩ := build_localName1_inv regexOk limit true false pfx p fl st o h
  refine ⟨hpr ▸ (ih {} st2 ho hho).1, fun c hc => ?_⟩
  rw [hq]
  exact strValOK_localName1 d cfg ho.q p pfx c
    (operand_seqOK (F := F) wf cfg hns hinj regexOk limit p hp hflat ih st2 ho hho c hc).2

omit wf hinj in
theorem BuildStr.buildArg {a : Ast} (h : BuildStr (F := F) d cfg regexOk limit a) :
    BuildArg (F := F) d cfg regexOk limit a :=
  fun fl st o hb c hc => ((h fl st o hb).2 c hc).strArgOK

include hns in
/-- a flat path as the first argument of a string test -/
theorem buildArg_path (p : Ast) (hp : Frag2 true p) (hflat : FlatAny p)
    (ih : BuildP2 (F := F) d cfg regexOk limit p) :
    ∀ st o, build regexOk limit true false p {} st = .ok o →
      ∀ c : Spec.Ctx, validRef d c.node = true → StrArgOK (F := F) d cfg o.q p c :=
  fun st o hb c hc =>
    (operand_seqOK (F := F) wf cfg hns hinj regexOk limit p hp hflat ih st o hb c hc).2.strArgOK

omit wf hinj in
/-- string `=`/`!=` literal -/
theorem buildB2_strCmp (op : String) (hop : op ∈ eqOps) (a : Ast) (lit : String)
    (ha : BuildStr (F := F) d cfg regexOk limit a) :
    BuildB2 (F := F) d cfg regexOk limit (.oper op a (.str lit)) := by
  intro fl st o h
  obtain ⟨st1, lo, ro, hlo, hro, hq, hpr⟩ :=
    build_cmp_inv regexOk limit true false op (eqOps_cmpOps hop) a (.str lit) fl st o h
  obtain ⟨hrq, hrp⟩ := build_str_inv regexOk limit true false lit _ _ ro hro
  obtain ⟨hlp, hlr⟩ := ha {} st1 lo hlo
  refine ⟨by rw [hpr, hrp]; exact propsOK_or _ _ hlp propsOK_empty, fun c hc => ?_⟩
  rw [hq, hrq]
  exact predOK_strCmp d cfg op hop lo.q a lit c (hlr c hc)

omit wf hinj in
/-- `contains(S, 'lit')`, `starts-with(S, 'lit')`, `ends-with(S, 'lit')` -/
theorem buildB2_strTest (name : String) (hn : name ∈ strTests) (pfx : String) (a : Ast)
    (lit : String)
    (ha : ∀ st o, build regexOk limit true false a {} st = .ok o →
      ∀ c : Spec.Ctx, validRef d c.node = true → StrArgOK (F := F) d cfg o.q a c) :
    BuildB2 (F := F) d cfg regexOk limit (.call name pfx (.acons a (.acons (.str lit) .anil))) := by
  intro fl st o h
  obtain ⟨st1, ho, hho, hq, hpr⟩ := build_strTest_inv regexOk limit true false name hn pfx a lit fl st o h
  refine ⟨hpr ▸ propsOK_empty, fun c hc => ?_⟩
  rw [hq]
  exact predOK_strTest d cfg name hn pfx ho.q a lit c (ha st1 ho hho c hc)

omit wf hinj in
/-- `contains(S, T)`, `starts-with(S, T)`, `ends-with(S, T)`: string-or-node-list arguments in both
positions (the props of the call are those of its last argument) -/
theorem buildB2_strTest2 (name : String) (hn : name ∈ strTests) (pfx : String) (a b : Ast)
    (ha : ∀ st o, build regexOk limit true false a {} st = .ok o →
      ∀ c : Spec.Ctx, validRef d c.node = true → StrArgOK (F := F) d cfg o.q a c)
    (hb : ∀ st o, build regexOk limit true false b {} st = .ok o →
      PropsOK o.props ∧ ∀ c : Spec.Ctx, validRef d c.node = true → StrArgOK (F := F) d cfg o.q b c) :
    BuildB2 (F := F) d cfg regexOk limit (.call name pfx (.acons a (.acons b .anil))) := by
  intro fl st o h
  obtain ⟨st1, ho, ho2, hho, hho2, hq, hpr⟩ :=
    build_strTest2_inv regexOk limit true false name hn pfx a b fl st o h
  refine ⟨hpr ▸ (hb _ ho2 hho2).1, fun c hc => ?_⟩
  rw [hq]
  exact predOK_strTest2 d cfg name hn pfx ho.q ho2.q a b c (ha st1 ho hho c hc) ((hb _ ho2 hho2).2 c hc)

/-! ## the induction -/

include hns in
/-- every path of the extended fragment is built into a plan related to its naive plan (together
with the decomposition used by the merge rewrite and the statement for the input of its last step),
every predicate into a plan with the oracle's truth -/
theorem build_frag2 (k : Bool) (e : Ast) (he : Frag2 k e) :
    (k = true → BuildP2 (F := F) d cfg regexOk limit e ∧ AxisDecomp2 (F := F) d cfg regexOk limit e ∧
      ∀ b g, e = .axis b g → BuildP2 (F := F) d cfg regexOk limit g) ∧
    (k = false → BuildB2 (F := F) d cfg regexOk limit e) := by
  induction he with
  | none =>
    refine ⟨fun _ => ⟨?_, ?_, fun b g h => by cases h⟩, (fun h => nomatch h)⟩
    · intro fl st o h; rw [build] at h; cases h
    · intro a inp' h; cases h
  | root s =>
    refine ⟨fun _ => ⟨?_, ?_, fun b g h => by cases h⟩, (fun h => nomatch h)⟩
    · intro fl st o h
      obtain ⟨hq, hp⟩ := build_root_inv regexOk limit true false s fl st o h
      rw [hq, hp]
      refine ⟨propsOK_empty, trivial, fun c hc => ?_⟩
      exact Rel.refl_of_ok d cfg _ .absolute c [⟨.node 0, 1, 0⟩] (by simp [sel, Nav.root]) (by
        intro x hx; simp only [refs, List.map_cons, List.map_nil, List.mem_cons, List.not_mem_nil,
          or_false] at hx; rw [hx]; exact (validRef_node d 0).2 wf.pos)
    · intro a inp' h; cases h
  | axis a inp hinp ha ih =>
    refine ⟨fun _ => ?_, (fun h => nomatch h)⟩
    obtain ⟨ihp, _, ihg⟩ := ih.1 rfl
    have : BuildP2 (F := F) d cfg regexOk limit (.axis a inp) ∧
        AxisDecomp2 (F := F) d cfg regexOk limit (.axis a inp) := by
      cases hinp with
      | none => exact build2_axis_none wf cfg hinj regexOk limit a ha
      | root s =>
        exact build2_axis_other wf cfg hinj regexOk limit a ha (.root s) (by intro h; cases h)
          (by intro b g h; cases h) ihp
      | filter i2 b2 _ _ =>
        exact build2_axis_other wf cfg hinj regexOk limit a ha (.filter i2 b2) (by intro h; cases h)
          (by intro b g h; cases h) ihp
      | gfilter i2 b2 _ _ =>
        exact build2_axis_other wf cfg hinj regexOk limit a ha (.filter (.group i2) b2)
          (by intro h; cases h) (by intro b g h; cases h) ihp
      | axis b g hg hb =>
        exact build2_axis_axis wf cfg hinj regexOk limit a b g ha hg ihp (ihg b g rfl)
    exact ⟨this.1, this.2, fun b g h => by cases h; exact ihp⟩
  | filter inp b hinp hb ihp ihb =>
    refine ⟨fun _ => ⟨?_, ?_, fun b g h => by cases h⟩, (fun h => nomatch h)⟩
    · obtain ⟨ihp1, ihp2, _⟩ := ihp.1 rfl
      exact build2_filter_case wf cfg hns hinj regexOk limit inp b hinp hb ihp1 ihp2 (ihb.2 rfl)
    · intro a inp' h; cases h
  | gfilter p b hp hb ihp ihb =>
    refine ⟨fun _ => ⟨?_, ?_, fun b g h => by cases h⟩, (fun h => nomatch h)⟩
    · exact build2_gfilter_case wf cfg hns hinj regexOk limit p b hb (ihp.1 rfl).1 (ihb.2 rfl)
    · intro a inp' h; cases h
  | exist p hp ih =>
    exact ⟨(fun h => nomatch h), fun _ => buildB2_exist wf cfg hns hinj regexOk limit p hp (ih.1 rfl).1⟩
  | eqStr p s hp ih =>
    exact ⟨(fun h => nomatch h), fun _ => buildB2_eqStr wf cfg hns hinj regexOk limit p s hp (ih.1 rfl).1⟩
  | neStr p s hp ih =>
    exact ⟨(fun h => nomatch h), fun _ => buildB2_neStr wf cfg hns hinj regexOk limit p s hp (ih.1 rfl).1⟩
  | cmpNumR op p lex hop hp ih =>
    exact ⟨(fun h => nomatch h),
      fun _ => buildB2_cmpNumR wf cfg hns hinj regexOk limit op hop p lex hp (ih.1 rfl).1⟩
  | cmpNumL op lex p hop hp ih =>
    exact ⟨(fun h => nomatch h),
      fun _ => buildB2_cmpNumL wf cfg hns hinj regexOk limit op hop lex p hp (ih.1 rfl).1⟩
  | not pfx b _ ih =>
    exact ⟨(fun h => nomatch h), fun _ => buildB2_not cfg regexOk limit pfx b (ih.2 rfl)⟩
  | and b1 b2 _ _ ih1 ih2 =>
    exact ⟨(fun h => nomatch h), fun _ => buildB2_and cfg regexOk limit b1 b2 (ih1.2 rfl) (ih2.2 rfl)⟩
  | or b1 b2 _ _ ih1 ih2 =>
    exact ⟨(fun h => nomatch h), fun _ => buildB2_or cfg regexOk limit b1 b2 (ih1.2 rfl) (ih2.2 rfl)⟩
  | countR op pfx p lex hop hp hflat ih =>
    exact ⟨(fun h => nomatch h),
      fun _ => buildB2_countR wf cfg hns hinj regexOk limit op hop pfx p lex hp hflat (ih.1 rfl).1⟩
  | countL op lex pfx p hop hp hflat ih =>
    exact ⟨(fun h => nomatch h),
      fun _ => buildB2_countL wf cfg hns hinj regexOk limit op hop lex pfx p hp hflat (ih.1 rfl).1⟩
  | notCount pfx pfx' p hp hflat ih =>
    exact ⟨(fun h => nomatch h),
      fun _ => buildB2_notCount wf cfg hns hinj regexOk limit pfx pfx' p hp hflat (ih.1 rfl).1⟩
  | lnCmp op pfx lit hop =>
    exact ⟨(fun h => nomatch h),
      fun _ => buildB2_strCmp cfg regexOk limit op hop _ lit (buildStr_localName0 cfg regexOk limit pfx)⟩
  | lnPathCmp op pfx p lit hop hp hflat ih =>
    exact ⟨(fun h => nomatch h),
      fun _ => buildB2_strCmp cfg regexOk limit op hop _ lit
        (buildStr_localName1 wf cfg hns hinj regexOk limit pfx p hp hflat (ih.1 rfl).1)⟩
  | strLit name pfx s lit hn =>
    exact ⟨(fun h => nomatch h),
      fun _ => buildB2_strTest cfg regexOk limit name hn pfx _ lit
        (fun st o hb => (buildStr_lit cfg regexOk limit s).buildArg cfg regexOk limit {} st o hb)⟩
  | strLn name pfx pfx' lit hn =>
    exact ⟨(fun h => nomatch h),
      fun _ => buildB2_strTest cfg regexOk limit name hn pfx _ lit
        (fun st o hb => (buildStr_localName0 cfg regexOk limit pfx').buildArg cfg regexOk limit {} st o hb)⟩
  | strLnPath name pfx pfx' p lit hn hp hflat ih =>
    exact ⟨(fun h => nomatch h),
      fun _ => buildB2_strTest cfg regexOk limit name hn pfx _ lit
        (fun st o hb => (buildStr_localName1 wf cfg hns hinj regexOk limit pfx' p hp hflat
          (ih.1 rfl).1).buildArg cfg regexOk limit {} st o hb)⟩
  | strPath name pfx p lit hn hp hflat ih =>
    exact ⟨(fun h => nomatch h),
      fun _ => buildB2_strTest cfg regexOk limit name hn pfx p lit
        (buildArg_path wf cfg hns hinj regexOk limit p hp hflat (ih.1 rfl).1)⟩
  | strPath2 name pfx p q hn hp hflat hq hflatq ihp ihq =>
    exact ⟨(fun h => nomatch h),
      fun _ => buildB2_strTest2 cfg regexOk limit name hn pfx p q
        (buildArg_path wf cfg hns hinj regexOk limit p hp hflat (ihp.1 rfl).1)
        (fun st o hb => ⟨((ihq.1 rfl).1 {} st o hb).1,
          buildArg_path wf cfg hns hinj regexOk limit q hq hflatq (ihq.1 rfl).1 st o hb⟩)⟩
  | strLitPath name pfx s q hn hq hflatq ihq =>
    exact ⟨(fun h => nomatch h),
      fun _ => buildB2_strTest2 cfg regexOk limit name hn pfx (.str s) q
        (fun st o hb => (buildStr_lit cfg regexOk limit s).buildArg cfg regexOk limit {} st o hb)
        (fun st o hb => ⟨((ihq.1 rfl).1 {} st o hb).1,
          buildArg_path wf cfg hns hinj regexOk limit q hq hflatq (ihq.1 rfl).1 st o hb⟩)⟩
  | cmpPath op p q hop hp hq ihp ihq =>
    exact ⟨(fun h => nomatch h),
      fun _ => buildB2_cmpPath wf cfg hns hinj regexOk limit op hop p q hp hq (ihp.1 rfl).1
        (ihq.1 rfl).1⟩
  | cmpStrR op p s hop hp ih =>
    exact ⟨(fun h => nomatch h),
      fun _ => buildB2_cmpStrR wf cfg hns hinj regexOk limit op hop p s hp (ih.1 rfl).1⟩
  | cmpStrL op s p hop hp ih =>
    exact ⟨(fun h => nomatch h),
      fun _ => buildB2_cmpStrL wf cfg hns hinj regexOk limit op hop s p hp (ih.1 rfl).1⟩

end

end XPathV.PredSem2
