import XPathV.Lemmas.Pull2Proofs
import XPathV.Lemmas.Pull2Gen.SelFull
/-!
# The pull machine refines the sequence model for *every* kind of filter predicate

`Lemmas/Pull2Proofs.lean` ties the decision function `dec` of the filter machine to the engine by
`PQ2.DecOK`: every predicate evaluates to the boolean `dec pred r`.  That leaves out the most common
predicate, the existence test (`*[@y]`, `a[b]`: a node list), and string- and number-valued ones
(audit: `Theorems/NonVacuity/C02.lean`, `decOK_excludes_existence_tests`,
`decOK_excludes_numeric_predicates`).

Here the chain is re-proved under `PQ2.DecOK'` (`Pull2Gen/DecOK.lean`): `dec pred r` is the verdict
`keepM` the sequence model reaches for the candidate, on the candidates the filter is offered for
the context node `c`.  Only `sel_full2` ever used the hypothesis; `Inv`, `select_step2`,
`drain2_complete`, `drain2_sound`, `exhausted_stays2`, `exhausted_for_ever`, `moveNext_current`,
`reach_inv` do not mention it and are used as they are.

* `sel_full2'` (Pull2Gen/SelFull)  stream of the reset machine = `sel` of the plan
* `rem2_evaluate_sel'`, `drain2_evaluate'`, `drain2_eq_sel'`, `drain2_refs_eq_sel'`,
  `clone_fresh2'`, `reach_evaluate_restarts'`  the statements of `Pull2Proofs` with `DecOK'`
* `PQ2.DecOK.toGen` (Pull2Gen/DecOK)  `DecOK → ∀ c, DecOK'`: the old theorems are instances
  (`sel_full2_from_gen`, `reach_evaluate_restarts_from_gen`)
* `reach_decOK'`  every reachable state inherits `DecOK'` from its configuration
* `decOK'_clone`  … and so does a clone
* drop-in wrappers `Theorems.C02.evaluate_restarts_all_iterators_any_predicate`,
  `Theorems.C04.clone_is_fresh_all_iterators_any_predicate`, `Theorems.C12.C12_all_iterators_refine_sequence_any_predicate`

**Number-valued predicates.**  `Model/Pull2.lean` calls `dec pred n` with the predicate plan and the
candidate *node*; neither `posit` nor the position of the input machine is passed.  The engine's
verdict for a number `x` is `toInt x = position of the candidate in the input sequence`
(`keepM_num`).  `DecOK'` therefore covers a numeric predicate exactly when, in the input sequence
for the context node at hand, that verdict is a function of the node (`decOK'_verdict_by_node`):
true when every node occurs once among the candidates (`/r/*[2]`, `/r/*[@x][2]`: instances in
`Pull2Gen/NonVacuity.lean`); false when the same node is offered twice — to one filter, or to the
per-root re-evaluations of a merge child — at positions with different verdicts
(`/r/*/following-sibling::*[1]`: `decOK'_unsat_repeated_candidate` there).  For those the abstraction `dec : Plan → Ref → Bool` itself
cannot express the Go decision; `Model/Pull2.lean` would have to pass the input's `position()`
(`dec pred n inp'.position` in the filter arm, `filterG` using its `_pos` argument — the scheme
`fmap_step` of Pull2/Generic.lean already feeds the step function `M.pos inp'`).
Boolean, string and node-list values are covered without restriction (`decOK'_filter_bsn`).
-/
namespace XPathV.Model
open XPathV

section
variable {F : Type} [NumAlg F] (d : Doc) (cfg : ECfg) (dec : Plan → Ref → Bool)

/-! ## the chain of `Pull2Proofs`, under `DecOK'` -/

/-- the stream of a state produced by `Evaluate` is `sel` of the plan -/
theorem rem2_evaluate_sel' (q : PQ2) (c : Ref) (hdec : q.DecOK' (F := F) d cfg dec c) :
    sel (F := F) d cfg q.plan c = .ok (rem2 d cfg dec c q.evaluate) := by
  rw [rem2_evaluate]; exact sel_full2' d cfg dec q c hdec

/-- **Q3 (no state leaks between evaluations)**, any kind of filter predicate: from *any* state,
after `Evaluate`, `for t.MoveNext() {…}` reports exactly the sequence `sel` of the plan (same nodes,
same order, same `position()`/`depth()`), and ends exhausted. -/
theorem drain2_evaluate' (hd : 0 < d.length) (q : PQ2) (hs : NeedsWF q.plan → WF d)
    (c : Ref) (hdec : q.DecOK' (F := F) d cfg dec c) (hg : Good d c) :
    ∃ l, sel (F := F) d cfg q.plan c = .ok l ∧
      ∃ q' c' f0, (∀ f, f0 ≤ f → drain2 d cfg dec f q.evaluate c = some (l, q', c')) ∧
        (∀ c'', rem2 d cfg dec c'' q' = []) ∧ q'.plan = q.plan := by
  obtain ⟨q', c', f0, h1, h2, _, h3⟩ :=
    drain2_complete d cfg dec hd _ q.evaluate (by rw [PQ2.evaluate_plan]; exact hs) (PQ2.inv_evaluate d q) c hg rfl
  exact ⟨_, rem2_evaluate_sel' d cfg dec q c hdec, q', c', f0, h1, h2, by rw [h3, PQ2.evaluate_plan]⟩

/-- **Q1.**  For every covered plan, the machine the builder creates and the sequence model agree:
`sel` succeeds with some `l`, and draining with enough fuel reports exactly `l` and ends exhausted. -/
theorem drain2_eq_sel' (hd : 0 < d.length) (p : Plan) (q : PQ2) (h : PQ2.ofPlan p = some q) (hs : NeedsWF p → WF d)
    (c : Ref) (hdec : q.DecOK' (F := F) d cfg dec c) (hg : Good d c) :
    ∃ l, sel (F := F) d cfg p c = .ok l ∧
      ∃ q' c' f0, (∀ f, f0 ≤ f → drain2 d cfg dec f q c = some (l, q', c')) ∧
        (∀ c'', rem2 d cfg dec c'' q' = []) := by
  obtain ⟨hp, he⟩ := PQ2.ofPlan_spec p q h
  obtain ⟨l, h1, q', c', f0, h2, h3, _⟩ := drain2_evaluate' (F := F) d cfg dec hd q (by rw [hp]; exact hs) c hdec hg
  rw [hp] at h1
  rw [he] at h2
  exact ⟨l, h1, q', c', f0, h2, h3⟩

/-- Q1 projected to node references -/
theorem drain2_refs_eq_sel' (hd : 0 < d.length) (p : Plan) (q : PQ2) (h : PQ2.ofPlan p = some q) (hs : NeedsWF p → WF d)
    (c : Ref) (hdec : q.DecOK' (F := F) d cfg dec c) (hg : Good d c) :
    ∃ l, sel (F := F) d cfg p c = .ok l ∧
      ∃ f0, ∀ f, f0 ≤ f → (drain2 d cfg dec f q c).map (fun r => r.1.map (·.r)) = some (l.map (·.r)) := by
  obtain ⟨l, h1, q', c', f0, h2, _⟩ := drain2_eq_sel' (F := F) d cfg dec hd p q h hs c hdec hg
  exact ⟨l, h1, f0, fun f hf => by rw [h2 f hf]; rfl⟩

/-- **Q4.**  `Clone` gives a machine in reset state, satisfying the invariant, whose stream is the
whole sequence of the original's plan — whatever state the original is in. -/
theorem clone_fresh2' (q : PQ2) (c : Ref) (hdec : q.DecOK' (F := F) d cfg dec c) :
    q.clone.evaluate = q.clone ∧ q.clone.Inv d ∧
      sel (F := F) d cfg q.plan c = .ok (rem2 d cfg dec c q.clone) := by
  refine ⟨PQ2.clone_evaluate q, PQ2.inv_clone d q, ?_⟩
  rw [rem2_clone]; exact sel_full2' d cfg dec q c hdec

/-- **No state leaks between evaluations (C02/C04), reachable form**, any kind of filter predicate. -/
theorem reach_evaluate_restarts' (hd : 0 < d.length) (p0 : Plan) (hw : NeedsWF p0 → WF d) (q : PQ2)
    (hr : Reach d cfg dec p0 q) (c : Ref) (hdec : q.DecOK' (F := F) d cfg dec c) (hg : Good d c) :
    ∃ l, sel (F := F) d cfg p0 c = .ok l ∧
      (∃ q' c' f0, ∀ f, f0 ≤ f → drain2 d cfg dec f q.evaluate c = some (l, q', c')) ∧
      (∀ f l' q' c', drain2 d cfg dec f q.evaluate c = some (l', q', c') → l' = l) := by
  obtain ⟨hp, _⟩ := reach_inv d cfg dec hd p0 hw q hr
  obtain ⟨l, h1, q', c', f0, h2, _, _⟩ :=
    drain2_evaluate' (F := F) d cfg dec hd q (by rw [hp]; exact hw) c hdec hg
  rw [hp] at h1
  refine ⟨l, h1, ⟨q', c', f0, h2⟩, fun f l' q2 c2 hdr => ?_⟩
  have hs := drain2_sound d cfg dec hd f q.evaluate c l' q2 c2 (by rw [PQ2.evaluate_plan, hp]; exact hw)
    (PQ2.inv_evaluate d q) hg hdr
  have hl : sel (F := F) d cfg p0 c = .ok (rem2 d cfg dec c q.evaluate) := by
    rw [← hp]; exact rem2_evaluate_sel' d cfg dec q c hdec
  rw [h1] at hl
  injection hl with hl
  rw [hs.1, hl]

/-! ## `DecOK'` along the protocol -/

/-- every state reachable under the library's protocol inherits `DecOK'` from its configuration -/
theorem reach_decOK' (hd : 0 < d.length) (p0 : Plan) (hw : NeedsWF p0 → WF d) (c : Ref)
    (hp : DecOKP' (F := F) d cfg dec p0 c) (q : PQ2) (hr : Reach d cfg dec p0 q) :
    q.DecOK' (F := F) d cfg dec c := by
  rw [decOK'_iff_plan, (reach_inv d cfg dec hd p0 hw q hr).1]; exact hp

/-- `Evaluate` does not change the configuration, hence not `DecOK'` -/
theorem decOK'_evaluate (q : PQ2) (c : Ref) :
    q.evaluate.DecOK' (F := F) d cfg dec c ↔ q.DecOK' (F := F) d cfg dec c :=
  decOK'_plan_congr d cfg dec (PQ2.evaluate_plan q) c

/-- `Clone` keeps the sequence of the plan (a `cachedChildQuery` becomes a `childQuery`) -/
theorem sel_clone_plan : ∀ (q : PQ2) (c : Ref), sel (F := F) d cfg q.clone.plan c = sel (F := F) d cfg q.plan c := by
  intro q
  induction q <;> intro c <;> simp_all [PQ2.clone, PQ2.plan, sel]

/-- … hence `DecOK'` -/
theorem decOK'_clone : ∀ (q : PQ2) (c : Ref), q.clone.DecOK' (F := F) d cfg dec c ↔ q.DecOK' (F := F) d cfg dec c := by
  intro q
  induction q <;> intro c <;> simp_all [PQ2.clone, PQ2.DecOK', sel_clone_plan]

/-! ## the old theorems are instances -/

/-- `sel_full2` (Pull2/SelFull.lean) from `sel_full2'` -/
theorem sel_full2_from_gen (q : PQ2) (h : q.DecOK (F := F) d cfg dec) (c : Ref) :
    sel (F := F) d cfg q.plan c = .ok (full2 d cfg dec c q) :=
  sel_full2' d cfg dec q c (h.toGen d cfg dec q c)

/-- `reach_evaluate_restarts` (Pull2Proofs.lean) from `reach_evaluate_restarts'` -/
theorem reach_evaluate_restarts_from_gen (hd : 0 < d.length) (p0 : Plan) (hw : NeedsWF p0 → WF d) (q : PQ2)
    (hr : Reach d cfg dec p0 q) (hdec : q.DecOK (F := F) d cfg dec) (c : Ref) (hg : Good d c) :
    ∃ l, sel (F := F) d cfg p0 c = .ok l ∧
      (∃ q' c' f0, ∀ f, f0 ≤ f → drain2 d cfg dec f q.evaluate c = some (l, q', c')) ∧
      (∀ f l' q' c', drain2 d cfg dec f q.evaluate c = some (l', q', c') → l' = l) :=
  reach_evaluate_restarts' d cfg dec hd p0 hw q hr c (hdec.toGen d cfg dec q c) hg

end

end XPathV.Model

section AxiomAudit
open XPathV.Model
end AxiomAudit
