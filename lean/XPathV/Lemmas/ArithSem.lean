import XPathV.Lemmas.C08Base
import XPathV.Lemmas.PathSem
import XPathV.Lemmas.FlatOrder
/-!
# C08 — arithmetic expressions of any depth: the engine's number is the oracle's number
-/
namespace XPathV.ArithSem
open XPathV XPathV.Model NumAlg XPathV.PathSem

variable {F : Type} [NumAlg F]

/-! ## `build` inversion -/

section BuildInv
variable (regexOk : RegexOk) (limit : Nat) (snt sdf : Bool)

theorem build_num (l : String) (fl : Flags) (st : BState) (o : BOut)
    (h : build regexOk limit snt sdf (.num l) fl st = .ok o) : o.q = .constNum l := by
  rw [build] at h
  have h := enter_ok _ _ _ _ h
  cases h; rfl

theorem build_str (s : String) (fl : Flags) (st : BState) (o : BOut)
    (h : build regexOk limit snt sdf (.str s) fl st = .ok o) : o.q = .constStr s := by
  rw [build] at h
  have h := enter_ok _ _ _ _ h
  cases h; rfl

theorem build_group (x : Ast) (fl : Flags) (st : BState) (o : BOut)
    (h : build regexOk limit snt sdf (.group x) fl st = .ok o) :
    ∃ st' o1, build regexOk limit snt sdf x {} st' = .ok o1 ∧ o.q = .group o1.q := by
  rw [build] at h
  have h := enter_ok _ _ _ _ h
  obtain ⟨o1, ho1, h⟩ := except_bind_ok _ _ _ h
  cases h
  exact ⟨_, o1, ho1, rfl⟩

def numOps : List String := ["+", "-", "*", "div", "mod"]

theorem build_oper (op : String) (hop : op ∈ numOps) (l r : Ast) (fl : Flags) (st : BState) (o : BOut)
    (h : build regexOk limit snt sdf (.oper op l r) fl st = .ok o) :
    ∃ st' lo ro, build regexOk limit snt sdf l {} st' = .ok lo ∧
      build regexOk limit snt sdf r {} lo.st = .ok ro ∧ o.q = .numeric op lo.q ro.q := by
  rw [build] at h
  have h := enter_ok _ _ _ _ h
  obtain ⟨lo, hlo, h⟩ := except_bind_ok _ _ _ h
  obtain ⟨ro, hro, h⟩ := except_bind_ok _ _ _ h
  refine ⟨_, lo, ro, hlo, hro, ?_⟩
  have hc : (op == "+" || op == "-" || op == "*" || op == "div" || op == "mod") = true := by
    simp only [numOps, List.mem_cons, List.not_mem_nil, or_false] at hop
    rcases hop with h | h | h | h | h <;> subst h <;> decide
  simp only [hc, ↓reduceIte] at h
  cases h; rfl

/-- a call with exactly one argument to a function whose case builds that argument -/
theorem build_call1 (name pfx : String) (a : Ast) (mn : Nat) (mx : Option Nat) (idx : Bool)
    (hA : fnArity name = some (mn, mx, idx)) (hmn : mn ≤ 1)
    (hmx : ∀ m, mx = some m → 1 ≤ m)
    (hU : fnUsed name 1 = 1)
    (h1 : (name == "matches") = false) (h2 : (name == "last") = false)
    (h3 : (name == "position") = false) (h4 : (name == "reverse") = false)
    (fl : Flags) (st : BState) (o : BOut)
    (h : build regexOk limit snt sdf (.call name pfx (.acons a .anil)) fl st = .ok o) :
    ∃ st' ao, build regexOk limit snt sdf a {} st' = .ok ao ∧
      o.q = .func name .nil (.pcons ao.q .pnil) := by
  rw [build] at h
  have h := enter_ok _ _ _ _ h
  simp only [Ast.argList, List.length_cons, List.length_nil, Nat.zero_add, hA] at h
  have hlt : ¬ (1 < mn) := by omega
  simp only [hlt, ↓reduceIte, hU] at h
  have h : (do
      let ao ← build regexOk limit snt sdf (a.acons Ast.anil) { take := 1 }
            { depth := st.depth + 1, firstInput := st.firstInput }
      Except.ok (⟨Plan.func name .nil ao.q, ao.props, build.leave ao.st⟩ : BOut)) = Except.ok o := by
    cases mx with
    | none =>
      simpa only [Bool.false_eq_true, ↓reduceIte, h1, h2, h3, h4, Bool.or_self, Bool.false_and,
        Bool.and_false, (by decide : ((1 : Nat) == 0) = false)] using h
    | some m =>
      have := hmx m rfl
      have hd : ¬ (1 > m) := by omega
      simpa only [hd, decide_false, Bool.false_eq_true, ↓reduceIte, h1, h2, h3, h4, Bool.or_self, Bool.false_and,
        Bool.and_false, (by decide : ((1 : Nat) == 0) = false)] using h
  obtain ⟨ao, hao, h⟩ := except_bind_ok _ _ _ h
  rw [build] at hao
  simp only [Nat.sub_self] at hao
  obtain ⟨ho, hho, hao⟩ := except_bind_ok _ _ _ hao
  obtain ⟨to, hto, hao⟩ := except_bind_ok _ _ _ hao
  rw [build] at hto
  cases hto
  cases hao
  cases h
  exact ⟨_, ho, hho, rfl⟩

end BuildInv

/-! ## the operation an arithmetic operator denotes (shared by both sides) -/

def opFn : String → Option (F → F → F)
  | "+" => some add
  | "-" => some sub
  | "*" => some mul
  | "div" => some div
  | "mod" => some fmod
  | _ => none

/-! ## model side -/

section ModelSide
variable (d : Doc) (cfg : ECfg)

theorem evalP_constNum (l : String) (c : Ref) :
    evalP (F := F) d cfg (.constNum l) c = .ok (.num (Spec.strToNum l)) := by
  rw [evalP]

theorem evalP_constStr (s : String) (c : Ref) :
    evalP (F := F) d cfg (.constStr s) c = .ok (.str s) := by
  rw [evalP]

theorem evalP_group (q : Plan) (c : Ref) :
    evalP (F := F) d cfg (.group q) c = evalP (F := F) d cfg q c := by
  rw [evalP]

theorem evalP_numeric (op : String) (hop : op ∈ numOps) (l r : Plan) (c : Ref) (x y : F)
    (hl : evalP (F := F) d cfg l c = .ok (.num x)) (hr : evalP (F := F) d cfg r c = .ok (.num y)) :
    ∃ f, opFn (F := F) op = some f ∧ evalP (F := F) d cfg (.numeric op l r) c = .ok (.num (f x y)) := by
  simp only [numOps, List.mem_cons, List.not_mem_nil, or_false] at hop
  rcases hop with h | h | h | h | h <;> subst h
  · exact ⟨add, rfl, by simp [evalP, hl, hr, asNumberM, bind, Except.bind]⟩
  · exact ⟨sub, rfl, by simp [evalP, hl, hr, asNumberM, bind, Except.bind]⟩
  · exact ⟨mul, rfl, by simp [evalP, hl, hr, asNumberM, bind, Except.bind]⟩
  · exact ⟨div, rfl, by simp [evalP, hl, hr, asNumberM, bind, Except.bind]⟩
  · exact ⟨fmod, rfl, by simp [evalP, hl, hr, asNumberM, bind, Except.bind]⟩

theorem evalP_func1 (name : String) (fi h : Plan) (c : Ref)
    (hn : (name == "name" || name == "local-name" || name == "namespace-uri") = false) :
    evalP (F := F) d cfg (.func name fi (.pcons h .pnil)) c =
      callFn d cfg name fi c [evalP (F := F) d cfg h c] none := by
  rw [evalP]
  simp only [argVals, hn, bind, Except.bind, pure, Except.pure, Bool.false_eq_true, ↓reduceIte]

theorem callFn_floor (fi : Plan) (c : Ref) (v : MVal F) :
    callFn d cfg "floor" fi c [.ok v] none = .ok (.num (floor (asNumberM d v))) := by
  simp [callFn, bind, Except.bind]

theorem callFn_ceiling (fi : Plan) (c : Ref) (v : MVal F) :
    callFn d cfg "ceiling" fi c [.ok v] none = .ok (.num (ceil (asNumberM d v))) := by
  simp [callFn, bind, Except.bind]

theorem callFn_number (fi : Plan) (c : Ref) (v : MVal F) :
    callFn d cfg "number" fi c [.ok v] none = .ok (.num (asNumberM d v)) := by
  simp [callFn, bind, Except.bind]

theorem callFn_string_num (fi : Plan) (c : Ref) (x : F) :
    callFn d cfg "string" fi c [.ok (.num x)] none = .ok (.str (Spec.numToStr x)) := by
  simp [callFn, asStringM, bind, Except.bind]

theorem callFn_strlen_str (fi : Plan) (c : Ref) (s : String) :
    callFn (F := F) d cfg "string-length" fi c [.ok (.str s)] none = .ok (.num (ofNat s.length)) := by
  simp [callFn, bind, Except.bind]

theorem callFn_count_nodes (fi : Plan) (c : Ref) (l : List Ref) :
    callFn (F := F) d cfg "count" fi c [.ok (.nodes l)] none = .ok (.num (ofNat l.length)) := by
  simp [callFn, bind, Except.bind]

end ModelSide

/-! ## oracle side -/

section SpecSide
variable (d : Doc)

theorem eval_num (l : String) (ctx : Spec.Ctx) :
    Spec.eval (F := F) d (.num l) ctx = .ok (.val (.num (Spec.strToNum l)) none) := by
  rw [Spec.eval]

theorem eval_str (s : String) (ctx : Spec.Ctx) :
    Spec.eval (F := F) d (.str s) ctx = .ok (.val (.str s) none) := by
  rw [Spec.eval]

theorem eval_group (a : Ast) (ctx : Spec.Ctx) (v : Spec.Value F) (g : Option (List (List Ref)))
    (h : Spec.eval (F := F) d a ctx = .ok (.val v g)) :
    Spec.eval (F := F) d (.group a) ctx = .ok (.val v none) := by
  rw [Spec.eval, h]; rfl

theorem eval_call1 (name pfx : String) (a : Ast) (ctx : Spec.Ctx) (v : Spec.Value F)
    (g : Option (List (List Ref))) (h : Spec.eval (F := F) d a ctx = .ok (.val v g)) :
    Spec.eval (F := F) d (.call name pfx (.acons a .anil)) ctx =
      (Spec.callFn d ctx name [v]).map (fun w => Spec.Res.val w none) := by
  rw [Spec.eval, Spec.eval, Spec.eval, h]
  simp only [bind, Except.bind, Spec.Res.value, Spec.Res.argList]
  cases Spec.callFn d ctx name [v] <;> rfl

def arithOps : List String := ["+", "-", "*", "div"]

theorem eval_arith (op : String) (hop : op ∈ arithOps) (a b : Ast) (ctx : Spec.Ctx) (x y : F)
    (ga gb : Option (List (List Ref)))
    (ha : Spec.eval (F := F) d a ctx = .ok (.val (.num x) ga))
    (hb : Spec.eval (F := F) d b ctx = .ok (.val (.num y) gb)) :
    ∃ f, opFn (F := F) op = some f ∧
      Spec.eval (F := F) d (.oper op a b) ctx = .ok (.val (.num (f x y)) none) := by
  simp only [arithOps, List.mem_cons, List.not_mem_nil, or_false] at hop
  rcases hop with h | h | h | h <;> subst h
  · exact ⟨add, rfl, by simp [Spec.eval, ha, hb, Spec.arith, Spec.toNum, Spec.CmpOp.ofString, Spec.Res.value, bind, Except.bind]⟩
  · exact ⟨sub, rfl, by simp [Spec.eval, ha, hb, Spec.arith, Spec.toNum, Spec.CmpOp.ofString, Spec.Res.value, bind, Except.bind]⟩
  · exact ⟨mul, rfl, by simp [Spec.eval, ha, hb, Spec.arith, Spec.toNum, Spec.CmpOp.ofString, Spec.Res.value, bind, Except.bind]⟩
  · exact ⟨div, rfl, by simp [Spec.eval, ha, hb, Spec.arith, Spec.toNum, Spec.CmpOp.ofString, Spec.Res.value, bind, Except.bind]⟩

theorem eval_mod (a b : Ast) (ctx : Spec.Ctx) (x y : F) (ga gb : Option (List (List Ref)))
    (ha : Spec.eval (F := F) d a ctx = .ok (.val (.num x) ga))
    (hb : Spec.eval (F := F) d b ctx = .ok (.val (.num y) gb))
    (hm : (Spec.modSpec x y).isSome = true) :
    Spec.eval (F := F) d (.oper "mod" a b) ctx = .ok (.val (.num (fmod x y)) none) := by
  have hm' : Spec.modSpec x y = some (fmod x y) := by
    unfold Spec.modSpec at hm ⊢
    split at hm
    · split at hm
      · rename_i h1 h2 h3; rw [if_pos h3]
      · cases hm
    · cases hm
  simp [Spec.eval, ha, hb, hm', Spec.toNum, Spec.CmpOp.ofString, Spec.Res.value, bind, Except.bind]

theorem spec_floor (ctx : Spec.Ctx) (v : Spec.Value F) :
    Spec.callFn d ctx "floor" [v] = .ok (.num (floor (Spec.toNum d v))) := by
  unfold Spec.callFn Spec.callFn.match_3
  simp only [String.reduceEq, ↓reduceDIte]

theorem spec_ceiling (ctx : Spec.Ctx) (v : Spec.Value F) :
    Spec.callFn d ctx "ceiling" [v] = .ok (.num (ceil (Spec.toNum d v))) := by
  unfold Spec.callFn Spec.callFn.match_3
  simp only [String.reduceEq, ↓reduceDIte]

theorem spec_number (ctx : Spec.Ctx) (v : Spec.Value F) :
    Spec.callFn d ctx "number" [v] = .ok (.num (Spec.toNum d v)) := by
  unfold Spec.callFn Spec.callFn.match_3
  simp only [String.reduceEq, ↓reduceDIte]

theorem spec_string (ctx : Spec.Ctx) (v : Spec.Value F) :
    Spec.callFn d ctx "string" [v] = .ok (.str (Spec.toStr d v)) := by
  unfold Spec.callFn Spec.callFn.match_3
  simp only [String.reduceEq, ↓reduceDIte]

theorem spec_strlen (ctx : Spec.Ctx) (v : Spec.Value F) :
    Spec.callFn d ctx "string-length" [v] = .ok (.num (ofNat (Spec.toStr d v).length)) := by
  unfold Spec.callFn Spec.callFn.match_3
  simp only [String.reduceEq, ↓reduceDIte]

theorem spec_count (ctx : Spec.Ctx) (l : List Ref) :
    Spec.callFn (F := F) d ctx "count" [.nodes l] = .ok (.num (ofNat l.length)) := by
  unfold Spec.callFn Spec.callFn.match_3
  simp only [String.reduceEq, ↓reduceDIte]

end SpecSide

/-! ## the fragment -/

/-- Arithmetic expressions.  `CP p` says which `count(p)` arguments are admitted, `MP a b` which
`a mod b` (the oracle speaks for `mod` only on a sub-domain, and `count` needs the *length* of the
node list); both are discharged by the instances below. -/
inductive NumEG (CP : Ast → Prop) (MP : Ast → Ast → Prop) : Ast → Prop
  | num (l : String) : NumEG CP MP (.num l)
  | arith (op : String) (a b : Ast) : op ∈ arithOps → NumEG CP MP a → NumEG CP MP b →
      NumEG CP MP (.oper op a b)
  | mod (a b : Ast) : NumEG CP MP a → NumEG CP MP b → MP a b → NumEG CP MP (.oper "mod" a b)
  | group (a : Ast) : NumEG CP MP a → NumEG CP MP (.group a)
  | floor (pfx : String) (a : Ast) : NumEG CP MP a → NumEG CP MP (.call "floor" pfx (.acons a .anil))
  | ceiling (pfx : String) (a : Ast) : NumEG CP MP a → NumEG CP MP (.call "ceiling" pfx (.acons a .anil))
  | number (pfx : String) (a : Ast) : NumEG CP MP a → NumEG CP MP (.call "number" pfx (.acons a .anil))
  | numberStr (pfx s : String) : NumEG CP MP (.call "number" pfx (.acons (.str s) .anil))
  | strlenStr (pfx s : String) : NumEG CP MP (.call "string-length" pfx (.acons (.str s) .anil))
  | count (pfx : String) (p : Ast) : CP p → NumEG CP MP (.call "count" pfx (.acons p .anil))

/-- what the main theorem needs of an admitted `count` argument: both sides yield node lists of
the same length -/
def CountOK (d : Doc) (cfg : ECfg) (regexOk : RegexOk) (limit : Nat) (snt sdf : Bool)
    (ctx : Spec.Ctx) (F : Type) [NumAlg F] (CP : Ast → Prop) : Prop :=
  ∀ p, CP p → ∀ st o, build regexOk limit snt sdf p {} st = .ok o →
    ∃ l ns g, evalP (F := F) d cfg o.q ctx.node = .ok (.nodes l) ∧
      Spec.eval (F := F) d p ctx = .ok (.val (.nodes ns) g) ∧ l.length = ns.length

/-- what the main theorem needs of an admitted `mod`: the operands are in the oracle's domain -/
def ModOK (d : Doc) (ctx : Spec.Ctx) (F : Type) [NumAlg F] (MP : Ast → Ast → Prop) : Prop :=
  ∀ a b, MP a b → ∀ (x y : F) ga gb, Spec.eval (F := F) d a ctx = .ok (.val (.num x) ga) →
    Spec.eval (F := F) d b ctx = .ok (.val (.num y) gb) → (Spec.modSpec x y).isSome = true

section Main
variable (d : Doc) (cfg : ECfg) (regexOk : RegexOk) (limit : Nat) (snt sdf : Bool) (ctx : Spec.Ctx)
variable {CP : Ast → Prop} {MP : Ast → Ast → Prop}

/-- **C08, expression level**: for an arithmetic expression of any depth, the plan the builder makes
evaluates to a number, the oracle evaluates the expression to a number, and it is the same `x : F`. -/
theorem numEG_sem (hC : CountOK d cfg regexOk limit snt sdf ctx F CP) (hM : ModOK d ctx F MP)
    {e : Ast} (he : NumEG CP MP e) :
    ∀ (fl : Flags) (st : BState) (o : BOut), build regexOk limit snt sdf e fl st = .ok o →
      ∃ x : F, evalP (F := F) d cfg o.q ctx.node = .ok (.num x) ∧
        Spec.eval (F := F) d e ctx = .ok (.val (.num x) none) := by
  induction he with
  | num l =>
    intro fl st o hb
    rw [build_num _ _ _ _ l fl st o hb]
    exact ⟨_, evalP_constNum d cfg l _, eval_num d l ctx⟩
  | arith op a b hop _ _ iha ihb =>
    intro fl st o hb
    have hop' : op ∈ numOps := by
      simp only [arithOps, List.mem_cons, List.not_mem_nil, or_false] at hop
      simp only [numOps, List.mem_cons, List.not_mem_nil, or_false]
      rcases hop with h | h | h | h <;> simp [h]
    obtain ⟨st', lo, ro, hlo, hro, hq⟩ := build_oper _ _ _ _ op hop' a b fl st o hb
    obtain ⟨x, hx1, hx2⟩ := iha _ _ _ hlo
    obtain ⟨y, hy1, hy2⟩ := ihb _ _ _ hro
    obtain ⟨f, hf, hev⟩ := evalP_numeric d cfg op hop' lo.q ro.q ctx.node x y hx1 hy1
    obtain ⟨f', hf', hev'⟩ := eval_arith d op hop a b ctx x y _ _ hx2 hy2
    rw [hf] at hf'; cases hf'
    rw [hq]
    exact ⟨_, hev, hev'⟩
  | mod a b _ _ hmp iha ihb =>
    intro fl st o hb
    have hop' : "mod" ∈ numOps := by decide
    obtain ⟨st', lo, ro, hlo, hro, hq⟩ := build_oper _ _ _ _ "mod" hop' a b fl st o hb
    obtain ⟨x, hx1, hx2⟩ := iha _ _ _ hlo
    obtain ⟨y, hy1, hy2⟩ := ihb _ _ _ hro
    obtain ⟨f, hf, hev⟩ := evalP_numeric d cfg "mod" hop' lo.q ro.q ctx.node x y hx1 hy1
    cases hf
    rw [hq]
    exact ⟨_, hev, eval_mod d a b ctx x y _ _ hx2 hy2 (hM a b hmp x y _ _ hx2 hy2)⟩
  | group a _ ih =>
    intro fl st o hb
    obtain ⟨st', o1, ho1, hq⟩ := build_group _ _ _ _ a fl st o hb
    obtain ⟨x, hx1, hx2⟩ := ih _ _ _ ho1
    rw [hq, evalP_group]
    exact ⟨x, hx1, eval_group d a ctx _ _ hx2⟩
  | floor pfx a _ ih =>
    intro fl st o hb
    obtain ⟨st', ao, hao, hq⟩ := build_call1 _ _ _ _ "floor" pfx a 1 none false rfl (Nat.le_refl _)
      (fun _ h => by cases h) rfl (by decide) (by decide) (by decide) (by decide) fl st o hb
    obtain ⟨x, hx1, hx2⟩ := ih _ _ _ hao
    refine ⟨floor x, ?_, ?_⟩
    · rw [hq, evalP_func1 d cfg _ _ _ _ (by decide), hx1, callFn_floor]; rfl
    · rw [eval_call1 d _ _ _ _ _ _ hx2, spec_floor]; rfl
  | ceiling pfx a _ ih =>
    intro fl st o hb
    obtain ⟨st', ao, hao, hq⟩ := build_call1 _ _ _ _ "ceiling" pfx a 1 none false rfl (Nat.le_refl _)
      (fun _ h => by cases h) rfl (by decide) (by decide) (by decide) (by decide) fl st o hb
    obtain ⟨x, hx1, hx2⟩ := ih _ _ _ hao
    refine ⟨ceil x, ?_, ?_⟩
    · rw [hq, evalP_func1 d cfg _ _ _ _ (by decide), hx1, callFn_ceiling]; rfl
    · rw [eval_call1 d _ _ _ _ _ _ hx2, spec_ceiling]; rfl
  | number pfx a _ ih =>
    intro fl st o hb
    obtain ⟨st', ao, hao, hq⟩ := build_call1 _ _ _ _ "number" pfx a 0 (some 1) false rfl (Nat.zero_le _)
      (fun m h => by cases h; exact Nat.le_refl _) rfl (by decide) (by decide) (by decide) (by decide) fl st o hb
    obtain ⟨x, hx1, hx2⟩ := ih _ _ _ hao
    refine ⟨x, ?_, ?_⟩
    · rw [hq, evalP_func1 d cfg _ _ _ _ (by decide), hx1, callFn_number]; rfl
    · rw [eval_call1 d _ _ _ _ _ _ hx2, spec_number]; rfl
  | numberStr pfx s =>
    intro fl st o hb
    obtain ⟨st', ao, hao, hq⟩ := build_call1 _ _ _ _ "number" pfx (.str s) 0 (some 1) false rfl (Nat.zero_le _)
      (fun m h => by cases h; exact Nat.le_refl _) rfl (by decide) (by decide) (by decide) (by decide) fl st o hb
    have hs := build_str _ _ _ _ s _ _ _ hao
    refine ⟨Spec.strToNum s, ?_, ?_⟩
    · rw [hq, evalP_func1 d cfg _ _ _ _ (by decide), hs, evalP_constStr, callFn_number]; rfl
    · rw [eval_call1 d _ _ _ _ _ _ (eval_str d s ctx), spec_number]; rfl
  | strlenStr pfx s =>
    intro fl st o hb
    obtain ⟨st', ao, hao, hq⟩ := build_call1 _ _ _ _ "string-length" pfx (.str s) 1 none false rfl (Nat.le_refl _)
      (fun _ h => by cases h) rfl (by decide) (by decide) (by decide) (by decide) fl st o hb
    have hs := build_str _ _ _ _ s _ _ _ hao
    refine ⟨ofNat s.length, ?_, ?_⟩
    · rw [hq, evalP_func1 d cfg _ _ _ _ (by decide), hs, evalP_constStr, callFn_strlen_str]
    · rw [eval_call1 d _ _ _ _ _ _ (eval_str d s ctx), spec_strlen]; rfl
  | count pfx p hp =>
    intro fl st o hb
    obtain ⟨st', ao, hao, hq⟩ := build_call1 _ _ _ _ "count" pfx p 1 none false rfl (Nat.le_refl _)
      (fun _ h => by cases h) rfl (by decide) (by decide) (by decide) (by decide) fl st o hb
    obtain ⟨l, ns, g, h1, h2, hlen⟩ := hC p hp _ _ hao
    refine ⟨ofNat l.length, ?_, ?_⟩
    · rw [hq, evalP_func1 d cfg _ _ _ _ (by decide), h1, callFn_count_nodes]
    · rw [eval_call1 d _ _ _ _ _ _ h2, spec_count, hlen]; rfl

end Main

/-! ## `count` over flat paths: node *lists* of equal length -/

theorem allRefs_nodup (d : Doc) : (allRefs d).Nodup := by
  unfold allRefs List.Nodup
  rw [List.pairwise_flatMap]
  constructor
  · intro i _
    rw [List.pairwise_cons]
    constructor
    · intro x hx
      simp only [attrsOf, List.mem_map] at hx
      obtain ⟨k, _, rfl⟩ := hx
      intro h; cases h
    · unfold attrsOf
      rw [List.pairwise_map]
      exact List.Pairwise.imp (fun {a b} hab h => by cases h; omega) List.pairwise_lt_range
  · refine List.Pairwise.imp (fun {i j} hij x hx y hy => ?_) List.pairwise_lt_range
    have hxi : x.idx = i := by
      simp only [List.mem_cons, attrsOf, List.mem_map] at hx
      rcases hx with rfl | ⟨k, _, rfl⟩ <;> rfl
    have hyj : y.idx = j := by
      simp only [List.mem_cons, attrsOf, List.mem_map] at hy
      rcases hy with rfl | ⟨k, _, rfl⟩ <;> rfl
    intro h; subst h; omega

theorem docOrder_nodup (d : Doc) (l : List Ref) : (Spec.docOrder d l).Nodup :=
  List.Pairwise.filter _ (allRefs_nodup d)

theorem length_eq_of_nodup {l₁ l₂ : List Ref} (h₁ : l₁.Nodup) (h₂ : l₂.Nodup)
    (h : ∀ x, x ∈ l₁ ↔ x ∈ l₂) : l₁.length = l₂.length :=
  ((List.perm_ext_iff_of_nodup h₁ h₂).2 h).length_eq

def flatAxes : List String := ["child", "attribute", "self"]

/-- relative paths made of `child`, `attribute` and `self` steps -/
inductive FlatPath : Ast → Prop
  | step (a : AxisInfo) : a.axis ∈ flatAxes → FlatPath (.axis a .none)
  | cons (a : AxisInfo) (inp : Ast) : a.axis ∈ flatAxes → FlatPath inp → FlatPath (.axis a inp)

theorem flatAxes_axes12 {ax : String} (h : ax ∈ flatAxes) : ax ∈ axes12 := by
  simp only [flatAxes, List.mem_cons, List.not_mem_nil, or_false] at h
  rcases h with h | h | h <;> subst h <;> decide

theorem FlatPath.pathPF {p : Ast} (h : FlatPath p) : PathPF p := by
  induction h with
  | step a ha => exact .axis a .none .none (flatAxes_axes12 ha)
  | cons a inp ha _ ih => exact .axis a inp ih (flatAxes_axes12 ha)

theorem axisPlan_flat (a : AxisInfo) (ha : a.axis ∈ flatAxes) (fl : Flags) (pr pr' : Props)
    (inp q : Plan) (hinp : FlatPlan inp) (h : axisPlan a fl pr inp = .ok (q, pr')) : FlatPlan q := by
  simp only [flatAxes, List.mem_cons, List.not_mem_nil, or_false] at ha
  rcases ha with ha | ha | ha
  · simp only [axisPlan, ha] at h
    cases h
    split
    · exact .cachedChild a hinp
    · exact .child a hinp
  · simp only [axisPlan, ha] at h
    cases h
    exact .attr a hinp
  · simp only [axisPlan, ha] at h
    cases h
    exact .self a hinp

theorem build_flat (regexOk : RegexOk) (limit : Nat) (snt sdf : Bool) {p : Ast} (hp : FlatPath p) :
    ∀ fl st o, build regexOk limit snt sdf p fl st = .ok o → FlatPlan o.q := by
  induction hp with
  | step a ha =>
    intro fl st o h
    rw [build] at h
    have h := enter_ok _ _ _ _ h
    obtain ⟨⟨q, props⟩, hq, hfin⟩ := except_bind_ok _ _ _ h
    rw [finAxis_q _ _ _ _ hfin]
    exact axisPlan_flat a ha fl _ _ _ _ .context hq
  | cons a inp ha hinp ih =>
    intro fl st o h
    have key : ∀ b g, inp = .axis b g → b.axis ∈ flatAxes → FlatPlan o.q := by
      intro b g e hb
      subst e
      rw [build] at h
      replace h := enter_ok _ _ _ _ h
      simp only [] at h
      have hnd : isPlainDos snt b = false := by
        simp only [flatAxes, List.mem_cons, List.not_mem_nil, or_false] at hb
        rcases hb with hb | hb | hb <;> simp [isPlainDos, hb]
      simp only [hnd, Bool.and_false, Bool.false_eq_true, ↓reduceIte] at h
      obtain ⟨o1, ho1, h⟩ := except_bind_ok _ _ _ h
      obtain ⟨⟨q, props⟩, hq, hfin⟩ := except_bind_ok _ _ _ h
      rw [finAxis_q _ _ _ _ hfin]
      exact axisPlan_flat a ha fl _ _ _ _ (ih _ _ _ ho1) hq
    cases hinp with
    | step b hb => exact key b .none rfl hb
    | cons b g hb _ => exact key b g rfl hb

theorem evalP_flat (d : Doc) (cfg : ECfg) {q : Plan} (hq : FlatPlan q) (c : Ref) (out : List Item)
    (h : sel (F := F) d cfg q c = .ok out) :
    evalP (F := F) d cfg q c =
      .ok (.nodes (if cfg.setSemantics then Spec.docOrder d (refs out) else refs out)) := by
  cases hq <;> simp only [evalP, h, bind, Except.bind, refs]

theorem eval_axis_inv (d : Doc) (a : AxisInfo) (inp : Ast) (ctx : Spec.Ctx) (ns : List Ref)
    (g : Option (List (List Ref)))
    (h : Spec.eval (F := F) d (.axis a inp) ctx = .ok (.val (.nodes ns) g)) :
    ∃ l, ns = Spec.docOrder d l := by
  rw [Spec.eval] at h
  obtain ⟨iv, _, h⟩ := except_bind_ok _ _ _ h
  obtain ⟨origins, _, h⟩ := except_bind_ok _ _ _ h
  split at h
  · cases h
  · cases h; exact ⟨_, rfl⟩

/-- a predicate-free path does not look at the context position and size -/
theorem eval_pathpf_ctx (d : Doc) {p : Ast} (hp : PathPF p) (c : Ref) (i n : Nat) :
    Spec.eval (F := F) d p ⟨c, i, n⟩ = Spec.eval (F := F) d p ⟨c, 1, 1⟩ := by
  induction hp with
  | none => rw [Spec.eval, Spec.eval]
  | root s => rw [Spec.eval, Spec.eval]
  | axis a inp _ _ ih => rw [Spec.eval, Spec.eval, ih]

/-- **count over flat paths**: the engine's node list and the oracle's node-set have the same
length (C01 gives equal sets, C12 `flat_nodup` gives duplicate-freeness of the engine's list) -/
theorem countOK_flat {d : Doc} (wf : WF d) (cfg : ECfg) (hns : cfg.nsIface = true)
    (hinj : HashInj d cfg) (regexOk : RegexOk) (limit : Nat) (sdf : Bool)
    (c : Ref) (hc : validRef d c = true) (i n : Nat) :
    CountOK d cfg regexOk limit true sdf ⟨c, i, n⟩ F FlatPath := by
  intro p hp st o hb
  obtain ⟨out, ns, g, hsel, hev, hmem⟩ :=
    C01_main (F := F) wf cfg hns hinj regexOk limit sdf p hp.pathPF st o hb c hc
  have hflat := build_flat regexOk limit true sdf hp _ _ _ hb
  refine ⟨_, ns, g, evalP_flat d cfg hflat c out hsel, ?_, ?_⟩
  · rw [eval_pathpf_ctx d hp.pathPF]; exact hev
  · have hnsd : ∃ l, ns = Spec.docOrder d l := by
      cases hp with
      | step a _ => exact eval_axis_inv d a _ _ ns g hev
      | cons a inp _ _ => exact eval_axis_inv d a _ _ ns g hev
    obtain ⟨l', rfl⟩ := hnsd
    apply length_eq_of_nodup _ (docOrder_nodup d l')
    · intro x
      split
      · rw [mem_docOrder]
        constructor
        · intro hx; exact (hmem x).1 hx.1
        · intro hx; exact ⟨(hmem x).2 hx, ((mem_docOrder d l' x).1 hx).2⟩
      · exact hmem x
    · split
      · exact docOrder_nodup d _
      · exact flat_nodup (F := F) wf cfg c hflat out hsel

/-! ## Instances of the fragment -/

theorem NumEG.mono {CP CP' : Ast → Prop} {MP MP' : Ast → Ast → Prop}
    (hc : ∀ p, CP p → CP' p) (hm : ∀ a b, MP a b → MP' a b) {e : Ast} (h : NumEG CP MP e) :
    NumEG CP' MP' e := by
  induction h with
  | num l => exact .num l
  | arith op a b hop _ _ iha ihb => exact .arith op a b hop iha ihb
  | mod a b _ _ hmp iha ihb => exact .mod a b iha ihb (hm a b hmp)
  | group a _ ih => exact .group a ih
  | floor pfx a _ ih => exact .floor pfx a ih
  | ceiling pfx a _ ih => exact .ceiling pfx a ih
  | number pfx a _ ih => exact .number pfx a ih
  | numberStr pfx s => exact .numberStr pfx s
  | strlenStr pfx s => exact .strlenStr pfx s
  | count pfx p hp => exact .count pfx p (hc p hp)

/-- the pure fragment: literals, `+ - * div` (hence unary minus, `x * -1`), groups, `floor`,
`ceiling`, `number`, `number('…')`, `string-length('…')`; no `count`, no `mod` -/
abbrev NumE : Ast → Prop := NumEG (fun _ => False) (fun _ _ => False)

/-- the side condition under which the oracle speaks for `a mod b` at `ctx`: whenever both operands
evaluate to numbers, `Spec.modSpec` is defined on them (non-negative integral dividend, positive
integral divisor) -/
def ModDom (d : Doc) (ctx : Spec.Ctx) (F : Type) [NumAlg F] (a b : Ast) : Prop :=
  ∀ (x y : F) ga gb, Spec.eval (F := F) d a ctx = .ok (.val (.num x) ga) →
    Spec.eval (F := F) d b ctx = .ok (.val (.num y) gb) → (Spec.modSpec x y).isSome = true

theorem modOK_dom (d : Doc) (ctx : Spec.Ctx) : ModOK d ctx F (ModDom d ctx F) :=
  fun _ _ h => h

theorem countOK_false (d : Doc) (cfg : ECfg) (regexOk : RegexOk) (limit : Nat) (snt sdf : Bool)
    (ctx : Spec.Ctx) : CountOK d cfg regexOk limit snt sdf ctx F (fun _ => False) :=
  fun _ h => h.elim

theorem modOK_false (d : Doc) (ctx : Spec.Ctx) : ModOK d ctx F (fun _ _ => False) :=
  fun _ _ h => h.elim

/-- the fragment with `mod` (inside the oracle's domain at `ctx`), without `count` -/
abbrev NumEM (d : Doc) (ctx : Spec.Ctx) (F : Type) [NumAlg F] : Ast → Prop :=
  NumEG (fun _ => False) (ModDom d ctx F)

/-- the full fragment: `mod` inside the oracle's domain and `count` over flat paths -/
abbrev NumEF (d : Doc) (ctx : Spec.Ctx) (F : Type) [NumAlg F] : Ast → Prop :=
  NumEG FlatPath (ModDom d ctx F)

section Corollaries
variable (d : Doc) (cfg : ECfg) (regexOk : RegexOk) (limit : Nat) (snt sdf : Bool)

/-- **C08 (pure fragment)**: no assumption on the document, the context, the builder configuration
or the engine configuration -/
theorem numE_sem {e : Ast} (he : NumE e) (ctx : Spec.Ctx) (fl : Flags) (st : BState) (o : BOut)
    (hb : build regexOk limit snt sdf e fl st = .ok o) :
    ∃ x : F, evalP (F := F) d cfg o.q ctx.node = .ok (.num x) ∧
      Spec.eval (F := F) d e ctx = .ok (.val (.num x) none) :=
  numEG_sem d cfg regexOk limit snt sdf ctx (countOK_false d cfg regexOk limit snt sdf ctx)
    (modOK_false d ctx) he fl st o hb

/-- the statement of the task: flags `{}`, context `⟨c, 1, 1⟩` -/
theorem numE_sem' {e : Ast} (he : NumE e) (c : Ref) (st : BState) (o : BOut)
    (hb : build regexOk limit snt sdf e {} st = .ok o) :
    ∃ x : F, evalP (F := F) d cfg o.q c = .ok (.num x) ∧
      Spec.eval (F := F) d e ⟨c, 1, 1⟩ = .ok (.val (.num x) none) :=
  numE_sem d cfg regexOk limit snt sdf he ⟨c, 1, 1⟩ {} st o hb

/-- **C08 with `mod`**: under the oracle's side condition both sides are `fmod x y` -/
theorem numEM_sem (ctx : Spec.Ctx) {e : Ast} (he : NumEM d ctx F e) (fl : Flags) (st : BState) (o : BOut)
    (hb : build regexOk limit snt sdf e fl st = .ok o) :
    ∃ x : F, evalP (F := F) d cfg o.q ctx.node = .ok (.num x) ∧
      Spec.eval (F := F) d e ctx = .ok (.val (.num x) none) :=
  numEG_sem d cfg regexOk limit snt sdf ctx (countOK_false d cfg regexOk limit snt sdf ctx)
    (modOK_dom d ctx) he fl st o hb

end Corollaries

/-- **C08 (full fragment)**: with `count` over flat paths; the standing assumptions are those of
C01 (well-formed document, valid context node, `NamespaceURL()` implemented, no hash collision,
the `//name` shortcut guarded by its node test) -/
theorem numEF_sem {d : Doc} (wf : WF d) (cfg : ECfg) (hns : cfg.nsIface = true)
    (hinj : HashInj d cfg) (regexOk : RegexOk) (limit : Nat) (sdf : Bool)
    (c : Ref) (hc : validRef d c = true) (i n : Nat) {e : Ast} (he : NumEF d ⟨c, i, n⟩ F e)
    (fl : Flags) (st : BState) (o : BOut) (hb : build regexOk limit true sdf e fl st = .ok o) :
    ∃ x : F, evalP (F := F) d cfg o.q c = .ok (.num x) ∧
      Spec.eval (F := F) d e ⟨c, i, n⟩ = .ok (.val (.num x) none) :=
  numEG_sem d cfg regexOk limit true sdf ⟨c, i, n⟩
    (countOK_flat wf cfg hns hinj regexOk limit sdf c hc i n) (modOK_dom d _) he fl st o hb

/-- unary minus: the parser's `x * -1` is in the fragment -/
theorem NumEG.neg {CP : Ast → Prop} {MP : Ast → Ast → Prop} {a : Ast} (h : NumEG CP MP a) :
    NumEG CP MP (.oper "*" a (.num "-1")) :=
  .arith "*" a (.num "-1") (by decide) h (.num "-1")

/-! ## `string()` of a number -/

/-- `string(e)` for an arithmetic `e`: both sides render the *same* number with the *same*
`Spec.numToStr` -/
theorem string_of_numEG_sem (d : Doc) (cfg : ECfg) (regexOk : RegexOk) (limit : Nat) (snt sdf : Bool)
    (ctx : Spec.Ctx) {CP : Ast → Prop} {MP : Ast → Ast → Prop}
    (hC : CountOK d cfg regexOk limit snt sdf ctx F CP) (hM : ModOK d ctx F MP)
    {a : Ast} (ha : NumEG CP MP a) (pfx : String) (fl : Flags) (st : BState) (o : BOut)
    (hb : build regexOk limit snt sdf (.call "string" pfx (.acons a .anil)) fl st = .ok o) :
    ∃ x : F, Spec.eval (F := F) d a ctx = .ok (.val (.num x) none) ∧
      evalP (F := F) d cfg o.q ctx.node = .ok (.str (Spec.numToStr x)) ∧
      Spec.eval (F := F) d (.call "string" pfx (.acons a .anil)) ctx =
        .ok (.val (.str (Spec.numToStr x)) none) := by
  obtain ⟨st', ao, hao, hq⟩ := build_call1 _ _ _ _ "string" pfx a 0 (some 1) false rfl (Nat.zero_le _)
    (fun m h => by cases h; exact Nat.le_refl _) rfl (by decide) (by decide) (by decide) (by decide) fl st o hb
  obtain ⟨x, hx1, hx2⟩ := numEG_sem d cfg regexOk limit snt sdf ctx hC hM ha _ _ _ hao
  refine ⟨x, hx2, ?_, ?_⟩
  · rw [hq, evalP_func1 d cfg _ _ _ _ (by decide), hx1, callFn_string_num]
  · rw [eval_call1 d _ _ _ _ _ _ hx2, spec_string]; rfl

theorem string_of_numE_sem (d : Doc) (cfg : ECfg) (regexOk : RegexOk) (limit : Nat) (snt sdf : Bool)
    (ctx : Spec.Ctx) {a : Ast} (ha : NumE a) (pfx : String) (fl : Flags) (st : BState) (o : BOut)
    (hb : build regexOk limit snt sdf (.call "string" pfx (.acons a .anil)) fl st = .ok o) :
    ∃ x : F, Spec.eval (F := F) d a ctx = .ok (.val (.num x) none) ∧
      evalP (F := F) d cfg o.q ctx.node = .ok (.str (Spec.numToStr x)) ∧
      Spec.eval (F := F) d (.call "string" pfx (.acons a .anil)) ctx =
        .ok (.val (.str (Spec.numToStr x)) none) :=
  string_of_numEG_sem d cfg regexOk limit snt sdf ctx (countOK_false d cfg regexOk limit snt sdf ctx)
    (modOK_false d ctx) ha pfx fl st o hb

/-! ## NaN (and ±∞) propagation is `F`'s: the two sides agree on it -/

/-- the value of `a op b` is, on both sides, `f x y` for the values `x`, `y` of the operands and the
one `NumAlg` operation `f` the operator denotes -/
theorem numEG_oper_value (d : Doc) (cfg : ECfg) (regexOk : RegexOk) (limit : Nat) (snt sdf : Bool)
    (ctx : Spec.Ctx) {CP : Ast → Prop} {MP : Ast → Ast → Prop}
    (hC : CountOK d cfg regexOk limit snt sdf ctx F CP) (hM : ModOK d ctx F MP)
    {op : String} (hop : op ∈ arithOps) {a b : Ast} (ha : NumEG CP MP a) (hb : NumEG CP MP b)
    (fl : Flags) (st : BState) (o : BOut)
    (hbuild : build regexOk limit snt sdf (.oper op a b) fl st = .ok o) :
    ∃ (f : F → F → F) (x y : F), opFn (F := F) op = some f ∧
      Spec.eval (F := F) d a ctx = .ok (.val (.num x) none) ∧
      Spec.eval (F := F) d b ctx = .ok (.val (.num y) none) ∧
      evalP (F := F) d cfg o.q ctx.node = .ok (.num (f x y)) ∧
      Spec.eval (F := F) d (.oper op a b) ctx = .ok (.val (.num (f x y)) none) := by
  have hop' : op ∈ numOps := by
    simp only [arithOps, List.mem_cons, List.not_mem_nil, or_false] at hop
    simp only [numOps, List.mem_cons, List.not_mem_nil, or_false]
    rcases hop with h | h | h | h <;> simp [h]
  obtain ⟨st', lo, ro, hlo, hro, hq⟩ := build_oper _ _ _ _ op hop' a b fl st o hbuild
  obtain ⟨x, hx1, hx2⟩ := numEG_sem d cfg regexOk limit snt sdf ctx hC hM ha _ _ _ hlo
  obtain ⟨y, hy1, hy2⟩ := numEG_sem d cfg regexOk limit snt sdf ctx hC hM hb _ _ _ hro
  obtain ⟨f, hf, hev⟩ := evalP_numeric d cfg op hop' lo.q ro.q ctx.node x y hx1 hy1
  obtain ⟨f', hf', hev'⟩ := eval_arith d op hop a b ctx x y _ _ hx2 hy2
  rw [hf] at hf'; cases hf'
  rw [hq]
  exact ⟨f, x, y, hf, hx2, hy2, hev, hev'⟩

/-- **NaN propagation**: if an operand evaluates to `nan`, the engine and the oracle still return the
same number, namely `f nan y` (resp. `f x nan`) — whatever `F` makes of it -/
theorem numE_nan_left (d : Doc) (cfg : ECfg) (regexOk : RegexOk) (limit : Nat) (snt sdf : Bool)
    (ctx : Spec.Ctx) {op : String} (hop : op ∈ arithOps) {a b : Ast} (ha : NumE a) (hb : NumE b)
    (fl : Flags) (st : BState) (o : BOut)
    (hbuild : build regexOk limit snt sdf (.oper op a b) fl st = .ok o)
    (hnan : Spec.eval (F := F) d a ctx = .ok (.val (.num nan) none)) :
    ∃ (f : F → F → F) (y : F), opFn (F := F) op = some f ∧
      evalP (F := F) d cfg o.q ctx.node = .ok (.num (f nan y)) ∧
      Spec.eval (F := F) d (.oper op a b) ctx = .ok (.val (.num (f nan y)) none) := by
  obtain ⟨f, x, y, hf, hx, _, h1, h2⟩ := numEG_oper_value (F := F) d cfg regexOk limit snt sdf ctx
    (countOK_false d cfg regexOk limit snt sdf ctx) (modOK_false d ctx) hop ha hb fl st o hbuild
  rw [hnan] at hx
  cases hx
  exact ⟨f, y, hf, h1, h2⟩

theorem numE_nan_right (d : Doc) (cfg : ECfg) (regexOk : RegexOk) (limit : Nat) (snt sdf : Bool)
    (ctx : Spec.Ctx) {op : String} (hop : op ∈ arithOps) {a b : Ast} (ha : NumE a) (hb : NumE b)
    (fl : Flags) (st : BState) (o : BOut)
    (hbuild : build regexOk limit snt sdf (.oper op a b) fl st = .ok o)
    (hnan : Spec.eval (F := F) d b ctx = .ok (.val (.num nan) none)) :
    ∃ (f : F → F → F) (x : F), opFn (F := F) op = some f ∧
      evalP (F := F) d cfg o.q ctx.node = .ok (.num (f x nan)) ∧
      Spec.eval (F := F) d (.oper op a b) ctx = .ok (.val (.num (f x nan)) none) := by
  obtain ⟨f, x, y, hf, _, hy, h1, h2⟩ := numEG_oper_value (F := F) d cfg regexOk limit snt sdf ctx
    (countOK_false d cfg regexOk limit snt sdf ctx) (modOK_false d ctx) hop ha hb fl st o hbuild
  rw [hnan] at hy
  cases hy
  exact ⟨f, x, hf, h1, h2⟩

/-! ## The public API: `Expr.Evaluate` against `evalTop` -/

theorem evaluate_of_num (d : Doc) (cfg : ECfg) (q : Plan) (c : Ref) (x : F)
    (h : evalP (F := F) d cfg q c = .ok (.num x)) : evaluate (F := F) d cfg q c = .ok (.num x) := by
  simp only [evaluate, h, bind, Except.bind, pure, Except.pure]

theorem evalTop_of_num (d : Doc) (e : Ast) (c : Ref) (x : F) (g : Option (List (List Ref)))
    (h : Spec.eval (F := F) d e ⟨c, 1, 1⟩ = .ok (.val (.num x) g)) :
    Spec.evalTop (F := F) d e c = .ok (.num x) := by
  simp only [Spec.evalTop, h, bind, Except.bind, pure, Except.pure, Spec.Res.value]

/-- **C08 at the API**: `Evaluate` on the built plan returns the number `evalTop` assigns -/
theorem numE_evaluate (d : Doc) (cfg : ECfg) (regexOk : RegexOk) (limit : Nat) (snt sdf : Bool)
    {e : Ast} (he : NumE e) (c : Ref) (st : BState) (o : BOut)
    (hb : build regexOk limit snt sdf e {} st = .ok o) :
    ∃ x : F, evaluate (F := F) d cfg o.q c = .ok (.num x) ∧
      Spec.evalTop (F := F) d e c = .ok (.num x) := by
  obtain ⟨x, h1, h2⟩ := numE_sem' (F := F) d cfg regexOk limit snt sdf he c st o hb
  exact ⟨x, evaluate_of_num d cfg _ c x h1, evalTop_of_num d e c x _ h2⟩

theorem numEF_evaluate {d : Doc} (wf : WF d) (cfg : ECfg) (hns : cfg.nsIface = true)
    (hinj : HashInj d cfg) (regexOk : RegexOk) (limit : Nat) (sdf : Bool)
    (c : Ref) (hc : validRef d c = true) {e : Ast} (he : NumEF d ⟨c, 1, 1⟩ F e)
    (st : BState) (o : BOut) (hb : build regexOk limit true sdf e {} st = .ok o) :
    ∃ x : F, evaluate (F := F) d cfg o.q c = .ok (.num x) ∧
      Spec.evalTop (F := F) d e c = .ok (.num x) := by
  obtain ⟨x, h1, h2⟩ := numEF_sem (F := F) wf cfg hns hinj regexOk limit sdf c hc 1 1 he {} st o hb
  exact ⟨x, evaluate_of_num d cfg _ c x h1, evalTop_of_num d e c x _ h2⟩

/-! ## Non-vacuity: parser-shaped members of the fragment that the builder accepts -/
section Examples

/-- `-(1 + 2.5) - floor(3 div 0)` as the parser produces it -/
private def exE : Ast :=
  .oper "-" (.oper "*" (.group (.oper "+" (.num "1") (.num "2.5"))) (.num "-1"))
    (.call "floor" "" (.acons (.oper "div" (.num "3") (.num "0")) .anil))
private def aB : AxisInfo := ⟨"attribute", .attr, "", "b", "", false, ""⟩
private def cA : AxisInfo := ⟨"child", .elem, "", "a", "", false, ""⟩
/-- `count(a/@b)` as the parser produces it -/
private def exC : Ast := .call "count" "" (.acons (.axis aB (.axis cA .none)) .anil)

example : NumE exE :=
  .arith "-" _ _ (by decide) (NumEG.neg (.group _ (.arith "+" _ _ (by decide) (.num _) (.num _))))
    (.floor "" _ (.arith "div" _ _ (by decide) (.num _) (.num _)))
example : ∃ o, build (fun _ => true) 100 true false exE {} {} = .ok o := ⟨_, rfl⟩
example (d : Doc) (ctx : Spec.Ctx) (F : Type) [NumAlg F] : NumEF d ctx F exC :=
  .count "" _ (.cons aB _ (by decide) (.step cA (by decide)))
example : ∃ o, build (fun _ => true) 100 true false exC {} {} = .ok o := ⟨_, rfl⟩

end Examples

end XPathV.ArithSem

/-! ## Axiom audit -/
section AxiomAudit
open XPathV.ArithSem
end AxiomAudit
