import XPathV.Lemmas.C08Base
import XPathV.Lemmas.PathSem
import XPathV.Lemmas.FlatOrder
/-!
# C08 — arithmetic expressions of any depth: the engine's number is the oracle's number
-/
namespace XPathV.ArithSem
open XPathV XPathV.Model NumAlg XPathV.PathSem

variable {F : Type} [NumAlg F]

/-! ## `build` inversion -/

section BuildInv
variable (regexOk : RegexOk) (limit : Nat) (snt sdf : Bool)

theorem build_num (l : String) (fl : Flags) (st : BState) (o : BOut)
    (h : build regexOk limit snt sdf (.num l) fl st = .ok o) : o.q = .constNum l := by
  rw [build] at h
  have h := enter_ok _ _ _ _ h
  cases h; rfl

theorem build_str (s : String) (fl : Flags) (st : BState) (o : BOut)
    (h : build regexOk limit snt sdf (.str s) fl st = .ok o) : o.q = .constStr s := by
  rw [build] at h
  have h := enter_ok _ _ _ _ h
  cases h; rfl

theorem build_group (x : Ast) (fl : Flags) (st : BState) (o : BOut)
    (h : build regexOk limit snt sdf (.group x) fl st = .ok o) :
    ∃ st' o1, build regexOk limit snt sdf x {} st' = .ok o1 ∧ o.q = .group o1.q := by
  rw [build] at h
  have h := enter_ok _ _ _ _ h
  obtain ⟨o1, ho1, h⟩ := except_bind_ok _ _ _ h
  cases h
  exact ⟨_, o1, ho1, rfl⟩

def numOps : List String := ["+", "-", "*", "div", "mod"]

theorem build_oper (op : String) (hop : op ∈ numOps) (l r : Ast) (fl : Flags) (st : BState) (o : BOut)
    (h : build regexOk limit snt sdf (.oper op l r) fl st = .ok o) :
    ∃ st' lo ro, build regexOk limit snt sdf l {} st' = .ok lo ∧
      build regexOk limit snt sdf r {} lo.st = .ok ro ∧ o.q = .numeric op lo.q ro.q := by
  rw [build] at h
  have h := enter_ok _ _ _ _ h
  obtain ⟨lo, hlo, h⟩ := except_bind_ok _ _ _ h
  obtain ⟨ro, hro, h⟩ := except_bind_ok _ _ _ h
  refine ⟨_, lo, ro, hlo, hro, ?_⟩
  have hc : (op == "+" || op == "-" || op == "*" || op == "div" || op == "mod") = true := by
    simp only [numOps, List.mem_cons, List.not_mem_nil, or_false] at hop
    rcases hop with h | h | h | h | h <;> subst h <;> decide
  simp only [hc, ↓reduceIte] at h
  cases h; rfl

/-- a call with exactly one argument to a function whose case builds that argument -/
theorem build_call1 (name pfx : String) (a : Ast) (mn : Nat) (mx : Option Nat) (idx : Bool)
    (hA : fnArity name = some (mn, mx, idx)) (hmn : mn ≤ 1)
    (hmx : ∀ m, mx = some m → 1 ≤ m)
    (hU : fnUsed name 1 = 1)
    (h1 : (name == "matches") = false) (h2 : (name == "last") = false)
    (h3 : (name == "position") = false) (h4 : (name == "reverse") = false)
    (fl : Flags) (st : BState) (o : BOut)
    (h : build regexOk limit snt sdf (.call name pfx (.acons a .anil)) fl st = .ok o) :
    ∃ st' ao, build regexOk limit snt sdf a {} st' = .ok ao ∧
      o.q = .func name .nil (.pcons ao.q .pnil) := by
  rw [build] at h
  have h := enter_ok _ _ _ _ h
  simp only [Ast.argList, List.length_cons, List.length_nil, Nat.zero_add, hA] at h
  have hlt : ¬ (1 < mn) := by omega
  simp only [hlt, ↓reduceIte, hU] at h
  have h : (do
      let ao ← build regexOk limit snt sdf (a.acons Ast.anil) { take := 1 }
            { depth := st.depth + 1, firstInput := st.firstInput, predInput := st.predInput }
      Except.ok (⟨Plan.func name .nil ao.q, ao.props, build.leave ao.st⟩ : BOut)) = Except.ok o := by
    cases mx with
    | none =>
      simpa only [Bool.false_eq_true, ↓reduceIte, h1, h2, h3, h4, Bool.or_self, Bool.false_and,
        Bool.and_false, (by decide : ((1 : Nat) == 0) = false)] using h
    | some m =>
      have := hmx m rfl
      have hd : ¬ (1 > m) := by omega
      simpa only [hd, decide_false, Bool.false_eq_true, ↓reduceIte, h1, h2, h3, h4, Bool.or_self, Bool.false_and,
        Bool.and_false, (by decide : ((1 : Nat) == 0) = false)] using h
  obtain ⟨ao, hao, h⟩ := except_bind_ok _ _ _ h
  rw [build] at hao
  simp only [Nat.sub_self] at hao
  obtain ⟨ho, hho, hao⟩ := except_bind_ok _ _ _ hao
  obtain ⟨to, hto, hao⟩ := except_bind_ok _ _ _ hao
  rw [build] at hto
  cases hto
  cases hao
  cases h
  exact ⟨_, ho, hho, rfl⟩

end BuildInv

/-! ## the operation an arithmetic operator denotes (shared by both sides) -/

def opFn : String → Option (F → F → F)
  | "+" => some add
  | "-" => some sub
  | "*" => some mul
  | "div" => some div
  | "mod" => some fmod
  | _ => none

/-! ## model side -/

section ModelSide
variable (d : Doc) (cfg : ECfg)

theorem evalP_constNum (l : String) (c : Ref) :
    evalP (F := F) d cfg (.constNum l) c = .ok (.num (Spec.strToNum l)) := by
  rw [evalP]

theorem evalP_constStr (s : String) (c : Ref) :
    evalP (F := F) d cfg (.constStr s) c = .ok (.str s) := by
  rw [evalP]

theorem evalP_group (q : Plan) (c : Ref) :
    evalP (F := F) d cfg (.group q) c = evalP (F := F) d cfg q c := by
  rw [evalP]

theorem evalP_numeric (op : String) (hop : op ∈ numOps) (l r : Plan) (c : Ref) (x y : F)
    (hl : evalP (F := F) d cfg l c = .ok (.num x)) (hr : evalP (F := F) d cfg r c = .ok (.num y)) :
    ∃ f, opFn (F := F) op = some f ∧ evalP (F := F) d cfg (.numeric op l r) c = .ok (.num (f x y)) := by
  simp only [numOps, List.mem_cons, List.not_mem_nil, or_false] at hop
  rcases hop with h | h | h | h | h <;> subst h
  · exact ⟨add, rfl, by simp [evalP, hl, hr, asNumberM, bind, Except.bind]⟩
  · exact ⟨sub, rfl, by simp [evalP, hl, hr, asNumberM, bind, Except.bind]⟩
  · exact ⟨mul, rfl, by simp [evalP, hl, hr, asNumberM, bind, Except.bind]⟩
  · exact ⟨div, rfl, by simp [evalP, hl, hr, asNumberM, bind, Except.bind]⟩
  · exact ⟨fmod, rfl, by simp [evalP, hl, hr, asNumberM, bind, Except.bind]⟩

theorem evalP_func1 (name : String) (fi h : Plan) (c : Ref)
    (hn : (name == "name" || name == "local-name" || name == "namespace-uri") = false) :
    evalP (F := F) d cfg (.func name fi (.pcons h .pnil)) c =
      callFn d cfg name fi c [evalP (F := F) d cfg h c] none := by
  rw [evalP]
  simp only [argVals, hn, bind, Except.bind, pure, Except.pure, Bool.false_eq_true, ↓reduceIte]

theorem callFn_floor (fi : Plan) (c : Ref) (v : MVal F) :
    callFn d cfg "floor" fi c [.ok v] none = .ok (.num (floor (asNumberM d v))) := by
  simp [callFn, bind, Except.bind]

theorem callFn_ceiling (fi : Plan) (c : Ref) (v : MVal F) :
    callFn d cfg "ceiling" fi c [.ok v] none = .ok (.num (ceil (asNumberM d v))) := by
  simp [callFn, bind, Except.bind]

theorem callFn_number (fi : Plan) (c : Ref) (v : MVal F) :
    callFn d cfg "number" fi c [.ok v] none = .ok (.num (asNumberM d v)) := by
  simp [callFn, bind, Except.bind]

theorem callFn_string_num (fi : Plan) (c : Ref) (x : F) :
    callFn d cfg "string" fi c [.ok (.num x)] none = .ok (.str (Spec.numToStr x)) := by
  simp [callFn, asStringM, bind, Except.bind]

theorem callFn_strlen_str (fi : Plan) (c : Ref) (s : String) :
    callFn (F := F) d cfg "string-length" fi c [.ok (.str s)] none = .ok (.num (ofNat s.length)) := by
  simp [callFn, bind, Except.bind]

theorem callFn_count_nodes (fi : Plan) (c : Ref) (l : List Ref) :
    callFn (F := F) d cfg "count" fi c [.ok (.nodes l)] none = .ok (.num (ofNat l.length)) := by
  simp [callFn, bind, Except.bind]

theorem callFn_sum_nodes (fi : Plan) (c : Ref) (l : List Ref) :
    callFn (F := F) d cfg "sum" fi c [.ok (.nodes l)] none =
      .ok (.num (l.foldl (fun acc r =>
        if isNaN (goParseFloat (F := F) (stringValue d r)) = true then acc
        else add acc (goParseFloat (stringValue d r))) (ofNat 0))) := by
  simp [callFn, bind, Except.bind]

/-- a fold that skips the NaN summands is the plain fold when no summand is NaN -/
theorem foldl_skipNaN {α : Type} (v : α → F) (l : List α) (h : ∀ r ∈ l, isNaN (v r) = false) (acc : F) :
    l.foldl (fun acc r => if isNaN (v r) = true then acc else add acc (v r)) acc =
      l.foldl (fun acc r => add acc (v r)) acc := by
  induction l generalizing acc with
  | nil => rfl
  | cons a t ih =>
    simp only [List.foldl_cons, h a List.mem_cons_self, Bool.false_eq_true, ↓reduceIte]
    exact ih (fun r hr => h r (List.mem_cons_of_mem _ hr)) _

/-- Go's `sum` callback (skip the nodes whose text does not parse) computes the oracle's
`sumNodes` on a list of numeric nodes: same additions, same operands, same order -/
theorem sum_skip_eq_sumNodes (l : List Ref)
    (h : l.any (fun r => isNaN (Spec.strToNum (F := F) (stringValue d r))) = false) :
    l.foldl (fun acc r =>
        if isNaN (goParseFloat (F := F) (stringValue d r)) = true then acc
        else add acc (goParseFloat (stringValue d r))) (ofNat 0) = Spec.sumNodes (F := F) d l := by
  unfold Spec.sumNodes
  simp only [goParseFloat]
  apply foldl_skipNaN (fun r => Spec.strToNum (F := F) (stringValue d r))
  intro r hr
  cases hn : isNaN (Spec.strToNum (F := F) (stringValue d r)) with
  | false => rfl
  | true =>
    have : l.any (fun r => isNaN (Spec.strToNum (F := F) (stringValue d r))) = true :=
      List.any_eq_true.2 ⟨r, hr, hn⟩
    rw [h] at this; cases this

end ModelSide

/-! ## oracle side -/

section SpecSide
variable (d : Doc)

theorem eval_num (l : String) (ctx : Spec.Ctx) :
    Spec.eval (F := F) d (.num l) ctx = .ok (.val (.num (Spec.strToNum l)) none) := by
  rw [Spec.eval]

theorem eval_str (s : String) (ctx : Spec.Ctx) :
    Spec.eval (F := F) d (.str s) ctx = .ok (.val (.str s) none) := by
  rw [Spec.eval]

theorem eval_group (a : Ast) (ctx : Spec.Ctx) (v : Spec.Value F) (g : Option (List (List Ref)))
    (h : Spec.eval (F := F) d a ctx = .ok (.val v g)) :
    Spec.eval (F := F) d (.group a) ctx = .ok (.val v none) := by
  rw [Spec.eval, h]; rfl

theorem eval_call1 (name pfx : String) (a : Ast) (ctx : Spec.Ctx) (v : Spec.Value F)
    (g : Option (List (List Ref))) (h : Spec.eval (F := F) d a ctx = .ok (.val v g)) :
    Spec.eval (F := F) d (.call name pfx (.acons a .anil)) ctx =
      (Spec.callFn d ctx name [v]).map (fun w => Spec.Res.val w none) := by
  rw [Spec.eval, Spec.eval, Spec.eval, h]
  simp only [bind, Except.bind, Spec.Res.value, Spec.Res.argList]
  cases Spec.callFn d ctx name [v] <;> rfl

def arithOps : List String := ["+", "-", "*", "div"]

theorem eval_arith (op : String) (hop : op ∈ arithOps) (a b : Ast) (ctx : Spec.Ctx) (x y : F)
    (ga gb : Option (List (List Ref)))
    (ha : Spec.eval (F := F) d a ctx = .ok (.val (.num x) ga))
    (hb : Spec.eval (F := F) d b ctx = .ok (.val (.num y) gb)) :
    ∃ f, opFn (F := F) op = some f ∧
      Spec.eval (F := F) d (.oper op a b) ctx = .ok (.val (.num (f x y)) none) := by
  simp only [arithOps, List.mem_cons, List.not_mem_nil, or_false] at hop
  rcases hop with h | h | h | h <;> subst h
  · exact ⟨add, rfl, by simp [Spec.eval, ha, hb, Spec.arith, Spec.toNum, Spec.CmpOp.ofString, Spec.Res.value, bind, Except.bind]⟩
  · exact ⟨sub, rfl, by simp [Spec.eval, ha, hb, Spec.arith, Spec.toNum, Spec.CmpOp.ofString, Spec.Res.value, bind, Except.bind]⟩
  · exact ⟨mul, rfl, by simp [Spec.eval, ha, hb, Spec.arith, Spec.toNum, Spec.CmpOp.ofString, Spec.Res.value, bind, Except.bind]⟩
  · exact ⟨div, rfl, by simp [Spec.eval, ha, hb, Spec.arith, Spec.toNum, Spec.CmpOp.ofString, Spec.Res.value, bind, Except.bind]⟩

theorem eval_mod (a b : Ast) (ctx : Spec.Ctx) (x y : F) (ga gb : Option (List (List Ref)))
    (ha : Spec.eval (F := F) d a ctx = .ok (.val (.num x) ga))
    (hb : Spec.eval (F := F) d b ctx = .ok (.val (.num y) gb))
    (hm : (Spec.modSpec x y).isSome = true) :
    Spec.eval (F := F) d (.oper "mod" a b) ctx = .ok (.val (.num (fmod x y)) none) := by
  have hm' : Spec.modSpec x y = some (fmod x y) := by
    unfold Spec.modSpec at hm ⊢
    split at hm
    · split at hm
      · rename_i h1 h2 h3; rw [if_pos h3]
      · cases hm
    · cases hm
  simp [Spec.eval, ha, hb, hm', Spec.toNum, Spec.CmpOp.ofString, Spec.Res.value, bind, Except.bind]

theorem spec_floor (ctx : Spec.Ctx) (v : Spec.Value F) :
    Spec.callFn d ctx "floor" [v] = .ok (.num (floor (Spec.toNum d v))) := by
  unfold Spec.callFn Spec.callFn.match_3
  simp only [String.reduceEq, ↓reduceDIte]

theorem spec_ceiling (ctx : Spec.Ctx) (v : Spec.Value F) :
    Spec.callFn d ctx "ceiling" [v] = .ok (.num (ceil (Spec.toNum d v))) := by
  unfold Spec.callFn Spec.callFn.match_3
  simp only [String.reduceEq, ↓reduceDIte]

theorem spec_number (ctx : Spec.Ctx) (v : Spec.Value F) :
    Spec.callFn d ctx "number" [v] = .ok (.num (Spec.toNum d v)) := by
  unfold Spec.callFn Spec.callFn.match_3
  simp only [String.reduceEq, ↓reduceDIte]

theorem spec_string (ctx : Spec.Ctx) (v : Spec.Value F) :
    Spec.callFn d ctx "string" [v] = .ok (.str (Spec.toStr d v)) := by
  unfold Spec.callFn Spec.callFn.match_3
  simp only [String.reduceEq, ↓reduceDIte]

theorem spec_strlen (ctx : Spec.Ctx) (v : Spec.Value F) :
    Spec.callFn d ctx "string-length" [v] = .ok (.num (ofNat (Spec.toStr d v).length)) := by
  unfold Spec.callFn Spec.callFn.match_3
  simp only [String.reduceEq, ↓reduceDIte]

theorem spec_count (ctx : Spec.Ctx) (l : List Ref) :
    Spec.callFn (F := F) d ctx "count" [.nodes l] = .ok (.num (ofNat l.length)) := by
  unfold Spec.callFn Spec.callFn.match_3
  simp only [String.reduceEq, ↓reduceDIte]

theorem spec_sum_eq (ctx : Spec.Ctx) (l : List Ref) :
    Spec.callFn (F := F) d ctx "sum" [.nodes l] =
      if l.any (fun r => isNaN (Spec.strToNum (F := F) (stringValue d r))) = true then
        .error (.unsupported "sum over non-numeric nodes")
      else .ok (.num (Spec.sumNodes d l)) := by
  unfold Spec.callFn Spec.callFn.match_3
  simp only [String.reduceEq, ↓reduceDIte]

theorem spec_sum (ctx : Spec.Ctx) (l : List Ref)
    (h : l.any (fun r => isNaN (Spec.strToNum (F := F) (stringValue d r))) = false) :
    Spec.callFn (F := F) d ctx "sum" [.nodes l] = .ok (.num (Spec.sumNodes d l)) := by
  rw [spec_sum_eq, h]; rfl

theorem spec_sum_nonnumeric (ctx : Spec.Ctx) (l : List Ref)
    (h : l.any (fun r => isNaN (Spec.strToNum (F := F) (stringValue d r))) = true) :
    Spec.callFn (F := F) d ctx "sum" [.nodes l] = .error (.unsupported "sum over non-numeric nodes") := by
  rw [spec_sum_eq, h]; rfl

/-- if the oracle's `sum` speaks on a node list, every node of the list is numeric -/
theorem spec_sum_inv (ctx : Spec.Ctx) (l : List Ref) (w : Spec.Value F)
    (h : Spec.callFn (F := F) d ctx "sum" [.nodes l] = .ok w) :
    l.any (fun r => isNaN (Spec.strToNum (F := F) (stringValue d r))) = false := by
  cases hn : l.any (fun r => isNaN (Spec.strToNum (F := F) (stringValue d r))) with
  | false => rfl
  | true => rw [spec_sum_nonnumeric d ctx l hn] at h; cases h

end SpecSide

/-! ## the fragment -/

/-- Arithmetic expressions.  `CP p` says which `count(p)` arguments are admitted, `SP p` which
`sum(p)` arguments, `MP a b` which `a mod b` (the oracle speaks for `mod` and for `sum` only on a
sub-domain, `count` needs the *length* of the node list and `sum` the node *list*); all three are
discharged by the instances below. -/
inductive NumEG (CP SP : Ast → Prop) (MP : Ast → Ast → Prop) : Ast → Prop
  | num (l : String) : NumEG CP SP MP (.num l)
  | arith (op : String) (a b : Ast) : op ∈ arithOps → NumEG CP SP MP a → NumEG CP SP MP b →
      NumEG CP SP MP (.oper op a b)
  | mod (a b : Ast) : NumEG CP SP MP a → NumEG CP SP MP b → MP a b → NumEG CP SP MP (.oper "mod" a b)
  | group (a : Ast) : NumEG CP SP MP a → NumEG CP SP MP (.group a)
  | floor (pfx : String) (a : Ast) : NumEG CP SP MP a → NumEG CP SP MP (.call "floor" pfx (.acons a .anil))
  | ceiling (pfx : String) (a : Ast) : NumEG CP SP MP a → NumEG CP SP MP (.call "ceiling" pfx (.acons a .anil))
  | number (pfx : String) (a : Ast) : NumEG CP SP MP a → NumEG CP SP MP (.call "number" pfx (.acons a .anil))
  | numberStr (pfx s : String) : NumEG CP SP MP (.call "number" pfx (.acons (.str s) .anil))
  | strlenStr (pfx s : String) : NumEG CP SP MP (.call "string-length" pfx (.acons (.str s) .anil))
  | count (pfx : String) (p : Ast) : CP p → NumEG CP SP MP (.call "count" pfx (.acons p .anil))
  | sum (pfx : String) (p : Ast) : SP p → NumEG CP SP MP (.call "sum" pfx (.acons p .anil))

/-- what the main theorem needs of an admitted `count` argument: both sides yield node lists of
the same length -/
def CountOK (d : Doc) (cfg : ECfg) (regexOk : RegexOk) (limit : Nat) (snt sdf : Bool)
    (ctx : Spec.Ctx) (F : Type) [NumAlg F] (CP : Ast → Prop) : Prop :=
  ∀ p, CP p → ∀ st o, build regexOk limit snt sdf p {} st = .ok o →
    ∃ l ns g, evalP (F := F) d cfg o.q ctx.node = .ok (.nodes l) ∧
      Spec.eval (F := F) d p ctx = .ok (.val (.nodes ns) g) ∧ l.length = ns.length

/-- what the main theorem needs of an admitted `mod`: the operands are in the oracle's domain -/
def ModOK (d : Doc) (ctx : Spec.Ctx) (F : Type) [NumAlg F] (MP : Ast → Ast → Prop) : Prop :=
  ∀ a b, MP a b → ∀ (x y : F) ga gb, Spec.eval (F := F) d a ctx = .ok (.val (.num x) ga) →
    Spec.eval (F := F) d b ctx = .ok (.val (.num y) gb) → (Spec.modSpec x y).isSome = true

/-- what the main theorem needs of an admitted `sum` argument: both sides yield the *same node
list* (the additions are done in list order and `add` is not assumed associative or commutative),
and every node of it is numeric — the domain on which the oracle's `sum` speaks -/
def SumOK (d : Doc) (cfg : ECfg) (regexOk : RegexOk) (limit : Nat) (snt sdf : Bool)
    (ctx : Spec.Ctx) (F : Type) [NumAlg F] (SP : Ast → Prop) : Prop :=
  ∀ p, SP p → ∀ st o, build regexOk limit snt sdf p {} st = .ok o →
    ∃ ns g, evalP (F := F) d cfg o.q ctx.node = .ok (.nodes ns) ∧
      Spec.eval (F := F) d p ctx = .ok (.val (.nodes ns) g) ∧
      ns.any (fun r => isNaN (Spec.strToNum (F := F) (stringValue d r))) = false

section Main
variable (d : Doc) (cfg : ECfg) (regexOk : RegexOk) (limit : Nat) (snt sdf : Bool) (ctx : Spec.Ctx)
variable {CP SP : Ast → Prop} {MP : Ast → Ast → Prop}

/-- **C08, expression level**: for an arithmetic expression of any depth, the plan the builder makes
evaluates to a number, the oracle evaluates the expression to a number, and it is the same `x : F`. -/
theorem numEG_sem (hC : CountOK d cfg regexOk limit snt sdf ctx F CP)
    (hS : SumOK d cfg regexOk limit snt sdf ctx F SP) (hM : ModOK d ctx F MP)
    {e : Ast} (he : NumEG CP SP MP e) :
    ∀ (fl : Flags) (st : BState) (o : BOut), build regexOk limit snt sdf e fl st = .ok o →
      ∃ x : F, evalP (F := F) d cfg o.q ctx.node = .ok (.num x) ∧
        Spec.eval (F := F) d e ctx = .ok (.val (.num x) none) := by
  induction he with
  | num l =>
    intro fl st o hb
    rw [build_num _ _ _ _ l fl st o hb]
    exact ⟨_, evalP_constNum d cfg l _, eval_num d l ctx⟩
  | arith op a b hop _ _ iha ihb =>
    intro fl st o hb
    have hop' : op ∈ numOps := by
      simp only [arithOps, List.mem_cons, List.not_mem_nil, or_false] at hop
      simp only [numOps, List.mem_cons, List.not_mem_nil, or_false]
      rcases hop with h | h | h | h <;> simp [h]
    obtain ⟨st', lo, ro, hlo, hro, hq⟩ := build_oper _ _ _ _ op hop' a b fl st o hb
    obtain ⟨x, hx1, hx2⟩ := iha _ _ _ hlo
    obtain ⟨y, hy1, hy2⟩ := ihb _ _ _ hro
    obtain ⟨f, hf, hev⟩ := evalP_numeric d cfg op hop' lo.q ro.q ctx.node x y hx1 hy1
    obtain ⟨f', hf', hev'⟩ := eval_arith d op hop a b ctx x y _ _ hx2 hy2
    rw [hf] at hf'; cases hf'
    rw [hq]
    exact ⟨_, hev, hev'⟩
  | mod a b _ _ hmp iha ihb =>
    intro fl st o hb
    have hop' : "mod" ∈ numOps := by decide
    obtain ⟨st', lo, ro, hlo, hro, hq⟩ := build_oper _ _ _ _ "mod" hop' a b fl st o hb
    obtain ⟨x, hx1, hx2⟩ := iha _ _ _ hlo
    obtain ⟨y, hy1, hy2⟩ := ihb _ _ _ hro
    obtain ⟨f, hf, hev⟩ := evalP_numeric d cfg "mod" hop' lo.q ro.q ctx.node x y hx1 hy1
    cases hf
    rw [hq]
    exact ⟨_, hev, eval_mod d a b ctx x y _ _ hx2 hy2 (hM a b hmp x y _ _ hx2 hy2)⟩
  | group a _ ih =>
    intro fl st o hb
    obtain ⟨st', o1, ho1, hq⟩ := build_group _ _ _ _ a fl st o hb
    obtain ⟨x, hx1, hx2⟩ := ih _ _ _ ho1
    rw [hq, evalP_group]
    exact ⟨x, hx1, eval_group d a ctx _ _ hx2⟩
  | floor pfx a _ ih =>
    intro fl st o hb
    obtain ⟨st', ao, hao, hq⟩ := build_call1 _ _ _ _ "floor" pfx a 1 none false rfl (Nat.le_refl _)
      (fun _ h => by cases h) rfl (by decide) (by decide) (by decide) (by decide) fl st o hb
    obtain ⟨x, hx1, hx2⟩ := ih _ _ _ hao
    refine ⟨floor x, ?_, ?_⟩
    · rw [hq, evalP_func1 d cfg _ _ _ _ (by decide), hx1, callFn_floor]; rfl
    · rw [eval_call1 d _ _ _ _ _ _ hx2, spec_floor]; rfl
  | ceiling pfx a _ ih =>
    intro fl st o hb
    obtain ⟨st', ao, hao, hq⟩ := build_call1 _ _ _ _ "ceiling" pfx a 1 none false rfl (Nat.le_refl _)
      (fun _ h => by cases h) rfl (by decide) (by decide) (by decide) (by decide) fl st o hb
    obtain ⟨x, hx1, hx2⟩ := ih _ _ _ hao
    refine ⟨ceil x, ?_, ?_⟩
    · rw [hq, evalP_func1 d cfg _ _ _ _ (by decide), hx1, callFn_ceiling]; rfl
    · rw [eval_call1 d _ _ _ _ _ _ hx2, spec_ceiling]; rfl
  | number pfx a _ ih =>
    intro fl st o hb
    obtain ⟨st', ao, hao, hq⟩ := build_call1 _ _ _ _ "number" pfx a 0 (some 1) false rfl (Nat.zero_le _)
      (fun m h => by cases h; exact Nat.le_refl _) rfl (by decide) (by decide) (by decide) (by decide) fl st o hb
    obtain ⟨x, hx1, hx2⟩ := ih _ _ _ hao
    refine ⟨x, ?_, ?_⟩
    · rw [hq, evalP_func1 d cfg _ _ _ _ (by decide), hx1, callFn_number]; rfl
    · rw [eval_call1 d _ _ _ _ _ _ hx2, spec_number]; rfl
  | numberStr pfx s =>
    intro fl st o hb
    obtain ⟨st', ao, hao, hq⟩ := build_call1 _ _ _ _ "number" pfx (.str s) 0 (some 1) false rfl (Nat.zero_le _)
      (fun m h => by cases h; exact Nat.le_refl _) rfl (by decide) (by decide) (by decide) (by decide) fl st o hb
    have hs := build_str _ _ _ _ s _ _ _ hao
    refine ⟨Spec.strToNum s, ?_, ?_⟩
    · rw [hq, evalP_func1 d cfg _ _ _ _ (by decide), hs, evalP_constStr, callFn_number]; rfl
    · rw [eval_call1 d _ _ _ _ _ _ (eval_str d s ctx), spec_number]; rfl
  | strlenStr pfx s =>
    intro fl st o hb
    obtain ⟨st', ao, hao, hq⟩ := build_call1 _ _ _ _ "string-length" pfx (.str s) 1 none false rfl (Nat.le_refl _)
      (fun _ h => by cases h) rfl (by decide) (by decide) (by decide) (by decide) fl st o hb
    have hs := build_str _ _ _ _ s _ _ _ hao
    refine ⟨ofNat s.length, ?_, ?_⟩
    · rw [hq, evalP_func1 d cfg _ _ _ _ (by decide), hs, evalP_constStr, callFn_strlen_str]
    · rw [eval_call1 d _ _ _ _ _ _ (eval_str d s ctx), spec_strlen]; rfl
  | count pfx p hp =>
    intro fl st o hb
    obtain ⟨st', ao, hao, hq⟩ := build_call1 _ _ _ _ "count" pfx p 1 none false rfl (Nat.le_refl _)
      (fun _ h => by cases h) rfl (by decide) (by decide) (by decide) (by decide) fl st o hb
    obtain ⟨l, ns, g, h1, h2, hlen⟩ := hC p hp _ _ hao
    refine ⟨ofNat l.length, ?_, ?_⟩
    · rw [hq, evalP_func1 d cfg _ _ _ _ (by decide), h1, callFn_count_nodes]
    · rw [eval_call1 d _ _ _ _ _ _ h2, spec_count, hlen]; rfl
  | sum pfx p hp =>
    intro fl st o hb
    obtain ⟨st', ao, hao, hq⟩ := build_call1 _ _ _ _ "sum" pfx p 1 none false rfl (Nat.le_refl _)
      (fun _ h => by cases h) rfl (by decide) (by decide) (by decide) (by decide) fl st o hb
    obtain ⟨ns, g, h1, h2, hnum⟩ := hS p hp _ _ hao
    refine ⟨Spec.sumNodes d ns, ?_, ?_⟩
    · rw [hq, evalP_func1 d cfg _ _ _ _ (by decide), h1, callFn_sum_nodes,
        sum_skip_eq_sumNodes d ns hnum]
    · rw [eval_call1 d _ _ _ _ _ _ h2, spec_sum d ctx ns hnum]; rfl

end Main

/-! ## `count` over flat paths: node *lists* of equal length -/

theorem allRefs_nodup (d : Doc) : (allRefs d).Nodup := by
  unfold allRefs List.Nodup
  rw [List.pairwise_flatMap]
  constructor
  · intro i _
    rw [List.pairwise_cons]
    constructor
    · intro x hx
      simp only [attrsOf, List.mem_map] at hx
      obtain ⟨k, _, rfl⟩ := hx
      intro h; cases h
    · unfold attrsOf
      rw [List.pairwise_map]
      exact List.Pairwise.imp (fun {a b} hab h => by cases h; omega) List.pairwise_lt_range
  · refine List.Pairwise.imp (fun {i j} hij x hx y hy => ?_) List.pairwise_lt_range
    have hxi : x.idx = i := by
      simp only [List.mem_cons, attrsOf, List.mem_map] at hx
      rcases hx with rfl | ⟨k, _, rfl⟩ <;> rfl
    have hyj : y.idx = j := by
      simp only [List.mem_cons, attrsOf, List.mem_map] at hy
      rcases hy with rfl | ⟨k, _, rfl⟩ <;> rfl
    intro h; subst h; omega

theorem docOrder_nodup (d : Doc) (l : List Ref) : (Spec.docOrder d l).Nodup :=
  List.Pairwise.filter _ (allRefs_nodup d)

theorem length_eq_of_nodup {l₁ l₂ : List Ref} (h₁ : l₁.Nodup) (h₂ : l₂.Nodup)
    (h : ∀ x, x ∈ l₁ ↔ x ∈ l₂) : l₁.length = l₂.length :=
  ((List.perm_ext_iff_of_nodup h₁ h₂).2 h).length_eq

def flatAxes : List String := ["child", "attribute", "self"]

/-- relative paths made of `child`, `attribute` and `self` steps -/
inductive FlatPath : Ast → Prop
  | step (a : AxisInfo) : a.axis ∈ flatAxes → FlatPath (.axis a .none)
  | cons (a : AxisInfo) (inp : Ast) : a.axis ∈ flatAxes → FlatPath inp → FlatPath (.axis a inp)

theorem flatAxes_axes12 {ax : String} (h : ax ∈ flatAxes) : ax ∈ axes12 := by
  simp only [flatAxes, List.mem_cons, List.not_mem_nil, or_false] at h
  rcases h with h | h | h <;> subst h <;> decide

theorem FlatPath.pathPF {p : Ast} (h : FlatPath p) : PathPF p := by
  induction h with
  | step a ha => exact .axis a .none .none (flatAxes_axes12 ha)
  | cons a inp ha _ ih => exact .axis a inp ih (flatAxes_axes12 ha)

theorem axisPlan_flat (a : AxisInfo) (ha : a.axis ∈ flatAxes) (fl : Flags) (pr pr' : Props)
    (inp q : Plan) (hinp : FlatPlan inp) (h : axisPlan a fl pr inp = .ok (q, pr')) : FlatPlan q := by
  simp only [flatAxes, List.mem_cons, List.not_mem_nil, or_false] at ha
  rcases ha with ha | ha | ha
  · simp only [axisPlan, ha] at h
    cases h
    split
    · exact .cachedChild a hinp
    · exact .child a hinp
  · simp only [axisPlan, ha] at h
    cases h
    exact .attr a hinp
  · simp only [axisPlan, ha] at h
    cases h
    exact .self a hinp

theorem build_flat (regexOk : RegexOk) (limit : Nat) (snt sdf : Bool) {p : Ast} (hp : FlatPath p) :
    ∀ fl st o, build regexOk limit snt sdf p fl st = .ok o → FlatPlan o.q := by
  induction hp with
  | step a ha =>
    intro fl st o h
    rw [build] at h
    have h := enter_ok _ _ _ _ h
    obtain ⟨⟨q, props⟩, hq, hfin⟩ := except_bind_ok _ _ _ h
    rw [finAxis_q _ _ _ _ hfin]
    exact axisPlan_flat a ha fl _ _ _ _ .context hq
  | cons a inp ha hinp ih =>
    intro fl st o h
    have key : ∀ b g, inp = .axis b g → b.axis ∈ flatAxes → FlatPlan o.q := by
      intro b g e hb
      subst e
      rw [build] at h
      replace h := enter_ok _ _ _ _ h
      simp only [] at h
      have hnd : isPlainDos snt b = false := by
        simp only [flatAxes, List.mem_cons, List.not_mem_nil, or_false] at hb
        rcases hb with hb | hb | hb <;> simp [isPlainDos, hb]
      simp only [hnd, Bool.and_false, Bool.false_eq_true, ↓reduceIte] at h
      obtain ⟨o1, ho1, h⟩ := except_bind_ok _ _ _ h
      obtain ⟨⟨q, props⟩, hq, hfin⟩ := except_bind_ok _ _ _ h
      rw [finAxis_q _ _ _ _ hfin]
      exact axisPlan_flat a ha fl _ _ _ _ (ih _ _ _ ho1) hq
    cases hinp with
    | step b hb => exact key b .none rfl hb
    | cons b g hb _ => exact key b g rfl hb

theorem evalP_flat (d : Doc) (cfg : ECfg) {q : Plan} (hq : FlatPlan q) (c : Ref) (out : List Item)
    (h : sel (F := F) d cfg q c = .ok out) :
    evalP (F := F) d cfg q c =
      .ok (.nodes (if cfg.setSemantics then Spec.docOrder d (refs out) else refs out)) := by
  cases hq <;> simp only [evalP, h, bind, Except.bind, refs]

theorem eval_axis_inv (d : Doc) (a : AxisInfo) (inp : Ast) (ctx : Spec.Ctx) (ns : List Ref)
    (g : Option (List (List Ref)))
    (h : Spec.eval (F := F) d (.axis a inp) ctx = .ok (.val (.nodes ns) g)) :
    ∃ l, ns = Spec.docOrder d l := by
  rw [Spec.eval] at h
  obtain ⟨iv, _, h⟩ := except_bind_ok _ _ _ h
  obtain ⟨origins, _, h⟩ := except_bind_ok _ _ _ h
  split at h
  · cases h
  · cases h; exact ⟨_, rfl⟩

/-- a predicate-free path does not look at the context position and size -/
theorem eval_pathpf_ctx (d : Doc) {p : Ast} (hp : PathPF p) (c : Ref) (i n : Nat) :
    Spec.eval (F := F) d p ⟨c, i, n⟩ = Spec.eval (F := F) d p ⟨c, 1, 1⟩ := by
  induction hp with
  | none => rw [Spec.eval, Spec.eval]
  | root s => rw [Spec.eval, Spec.eval]
  | axis a inp _ _ ih => rw [Spec.eval, Spec.eval, ih]

/-- **count over flat paths**: the engine's node list and the oracle's node-set have the same
length (C01 gives equal sets, C12 `flat_nodup` gives duplicate-freeness of the engine's list) -/
theorem countOK_flat {d : Doc} (wf : WF d) (cfg : ECfg) (hns : cfg.nsIface = true)
    (hinj : HashInj d cfg) (regexOk : RegexOk) (limit : Nat) (sdf : Bool)
    (c : Ref) (hc : validRef d c = true) (i n : Nat) :
    CountOK d cfg regexOk limit true sdf ⟨c, i, n⟩ F FlatPath := by
  intro p hp st o hb
  obtain ⟨out, ns, g, hsel, hev, hmem⟩ :=
    C01_main (F := F) wf cfg hns hinj regexOk limit sdf p hp.pathPF st o hb c hc
  have hflat := build_flat regexOk limit true sdf hp _ _ _ hb
  refine ⟨_, ns, g, evalP_flat d cfg hflat c out hsel, ?_, ?_⟩
  · rw [eval_pathpf_ctx d hp.pathPF]; exact hev
  · have hnsd : ∃ l, ns = Spec.docOrder d l := by
      cases hp with
      | step a _ => exact eval_axis_inv d a _ _ ns g hev
      | cons a inp _ _ => exact eval_axis_inv d a _ _ ns g hev
    obtain ⟨l', rfl⟩ := hnsd
    apply length_eq_of_nodup _ (docOrder_nodup d l')
    · intro x
      split
      · rw [mem_docOrder]
        constructor
        · intro hx; exact (hmem x).1 hx.1
        · intro hx; exact ⟨(hmem x).2 hx, ((mem_docOrder d l' x).1 hx).2⟩
      · exact hmem x
    · split
      · exact docOrder_nodup d _
      · exact flat_nodup (F := F) wf cfg c hflat out hsel

/-! ## `sum` over flat paths: the *same node list* on both sides -/

/-! strictly increasing sequences of references (kept in a namespace of their own: the same facts
are proved again, later in the import order, in `FlatFiltered`) -/
namespace RefOrd

theorem lt_asymm (a b : Ref) (h : Ref.lt a b = true) : Ref.lt b a = false := by
  cases h' : Ref.lt b a with
  | false => rfl
  | true => rw [ref_lt_iff] at h h'; omega

/-- two strictly increasing sequences with the same members are the same sequence -/
theorem sorted_ext : ∀ (l₁ l₂ : List Ref), l₁.Pairwise (fun a b => Ref.lt a b = true) →
    l₂.Pairwise (fun a b => Ref.lt a b = true) → (∀ x, x ∈ l₁ ↔ x ∈ l₂) → l₁ = l₂
  | [], [], _, _, _ => rfl
  | [], b :: t, _, _, h => absurd ((h b).2 List.mem_cons_self) (by simp)
  | a :: t, [], _, _, h => absurd ((h a).1 List.mem_cons_self) (by simp)
  | a :: t₁, b :: t₂, h₁, h₂, h => by
    rw [List.pairwise_cons] at h₁ h₂
    have hab : a = b := by
      rcases List.mem_cons.1 ((h a).1 List.mem_cons_self) with e | ha
      · exact e
      · rcases List.mem_cons.1 ((h b).2 List.mem_cons_self) with e | hb
        · exact e.symm
        · have := lt_asymm _ _ (h₂.1 a ha)
          rw [h₁.1 b hb] at this
          cases this
    subst hab
    have ht : ∀ x, x ∈ t₁ ↔ x ∈ t₂ := by
      intro x
      constructor
      · intro hx
        rcases List.mem_cons.1 ((h x).1 (List.mem_cons_of_mem _ hx)) with e | hx'
        · subst e
          have := h₁.1 x hx
          rw [ref_lt_irrefl] at this; cases this
        · exact hx'
      · intro hx
        rcases List.mem_cons.1 ((h x).2 (List.mem_cons_of_mem _ hx)) with e | hx'
        · subst e
          have := h₂.1 x hx
          rw [ref_lt_irrefl] at this; cases this
        · exact hx'
    rw [sorted_ext t₁ t₂ h₁.2 h₂.2 ht]

theorem allRefs_sorted (d : Doc) : (allRefs d).Pairwise (fun a b => Ref.lt a b = true) := by
  unfold allRefs
  rw [List.pairwise_flatMap]
  constructor
  · intro i _
    rw [List.pairwise_cons]
    constructor
    · intro x hx
      simp only [attrsOf, List.mem_map] at hx
      obtain ⟨k, _, rfl⟩ := hx
      rw [ref_lt_iff]; right; exact ⟨rfl, Nat.succ_pos _⟩
    · unfold attrsOf
      rw [List.pairwise_map]
      exact List.Pairwise.imp (fun {a b} hab => by
        rw [ref_lt_iff]; right; exact ⟨rfl, Nat.succ_lt_succ hab⟩) List.pairwise_lt_range
  · refine List.Pairwise.imp (fun {i j} hij x hx y hy => ?_) List.pairwise_lt_range
    have hxi : x.ord.1 = i := by
      simp only [List.mem_cons, attrsOf, List.mem_map] at hx
      rcases hx with rfl | ⟨k, _, rfl⟩ <;> rfl
    have hyj : y.ord.1 = j := by
      simp only [List.mem_cons, attrsOf, List.mem_map] at hy
      rcases hy with rfl | ⟨k, _, rfl⟩ <;> rfl
    rw [ref_lt_iff]; omega

theorem docOrder_sorted (d : Doc) (l : List Ref) :
    (Spec.docOrder d l).Pairwise (fun a b => Ref.lt a b = true) :=
  List.Pairwise.filter _ (allRefs_sorted d)

end RefOrd

/-- **flat paths, list level**: the node list the engine's `evalP` returns for the plan of a flat
path *is* the oracle's node list, element by element (C01 gives equal sets; both lists are strictly
increasing in document order: C12 `flat_sorted` for the engine, `docOrder` for the oracle) -/
theorem flat_same_list {d : Doc} (wf : WF d) (cfg : ECfg) (hns : cfg.nsIface = true)
    (hinj : HashInj d cfg) (regexOk : RegexOk) (limit : Nat) (sdf : Bool)
    (c : Ref) (hc : validRef d c = true) (i n : Nat) {p : Ast} (hp : FlatPath p)
    (st : BState) (o : BOut) (hb : build regexOk limit true sdf p {} st = .ok o) :
    ∃ ns g, evalP (F := F) d cfg o.q c = .ok (.nodes ns) ∧
      Spec.eval (F := F) d p ⟨c, i, n⟩ = .ok (.val (.nodes ns) g) := by
  obtain ⟨out, ns, g, hsel, hev, hmem⟩ :=
    C01_main (F := F) wf cfg hns hinj regexOk limit sdf p hp.pathPF st o hb c hc
  have hflat := build_flat regexOk limit true sdf hp _ _ _ hb
  have hnsd : ∃ l, ns = Spec.docOrder d l := by
    cases hp with
    | step a _ => exact eval_axis_inv d a _ _ ns g hev
    | cons a inp _ _ => exact eval_axis_inv d a _ _ ns g hev
  obtain ⟨l', rfl⟩ := hnsd
  have hsorted : (refs out).Pairwise (fun a b => Ref.lt a b = true) :=
    flat_sorted (F := F) wf cfg c hflat out hsel
  have heq : (if cfg.setSemantics then Spec.docOrder d (refs out) else refs out) =
      Spec.docOrder d l' := by
    apply RefOrd.sorted_ext _ _ _ (RefOrd.docOrder_sorted d l')
    · intro x
      split
      · rw [mem_docOrder]
        constructor
        · intro hx; exact (hmem x).1 hx.1
        · intro hx; exact ⟨(hmem x).2 hx, ((mem_docOrder d l' x).1 hx).2⟩
      · exact hmem x
    · split
      · exact RefOrd.docOrder_sorted d _
      · exact hsorted
  refine ⟨Spec.docOrder d l', g, ?_, ?_⟩
  · rw [evalP_flat d cfg hflat c out hsel, heq]
  · rw [eval_pathpf_ctx d hp.pathPF]; exact hev

/-- the side condition under which the oracle speaks for `sum(p)` at `ctx`: its evaluation of
`sum(p)` succeeds (that is: `p` evaluates, to a node-set, and every node of it is numeric).  The
prefix of the call plays no role (`sumDom_iff_pfx`). -/
def SumDom (d : Doc) (ctx : Spec.Ctx) (F : Type) [NumAlg F] (p : Ast) : Prop :=
  ∃ x : F, Spec.eval (F := F) d (.call "sum" "" (.acons p .anil)) ctx = .ok (.val (.num x) none)

/-- the oracle's value of `sum(p)`, given the value of `p` -/
theorem eval_sum_of_nodes (d : Doc) (ctx : Spec.Ctx) (pfx : String) (p : Ast) (ns : List Ref)
    (g : Option (List (List Ref))) (h : Spec.eval (F := F) d p ctx = .ok (.val (.nodes ns) g)) :
    Spec.eval (F := F) d (.call "sum" pfx (.acons p .anil)) ctx =
      if ns.any (fun r => isNaN (Spec.strToNum (F := F) (stringValue d r))) = true then
        .error (.unsupported "sum over non-numeric nodes")
      else .ok (.val (.num (Spec.sumNodes d ns)) none) := by
  rw [eval_call1 d _ _ _ _ _ _ h, spec_sum_eq]
  split <;> rfl

/-- the oracle's evaluation of `sum(p)` does not look at the prefix of the call -/
theorem eval_sum_pfx (d : Doc) (ctx : Spec.Ctx) (pfx pfx' : String) (p : Ast) :
    Spec.eval (F := F) d (.call "sum" pfx (.acons p .anil)) ctx =
      Spec.eval (F := F) d (.call "sum" pfx' (.acons p .anil)) ctx := by
  rw [Spec.eval, Spec.eval]

theorem sumDom_of_eval (d : Doc) (ctx : Spec.Ctx) (pfx : String) (p : Ast) (x : F)
    (g : Option (List (List Ref)))
    (h : Spec.eval (F := F) d (.call "sum" pfx (.acons p .anil)) ctx = .ok (.val (.num x) g)) :
    SumDom d ctx F p := by
  have hg : g = none := by
    rw [Spec.eval] at h
    obtain ⟨av, _, h⟩ := except_bind_ok _ _ _ h
    obtain ⟨v, _, h⟩ := except_bind_ok _ _ _ h
    cases h; rfl
  subst hg
  exact ⟨x, by rw [eval_sum_pfx d ctx "" pfx p]; exact h⟩

/-- under `SumDom`, every node the oracle selects for `p` is numeric -/
theorem sumDom_numeric (d : Doc) (ctx : Spec.Ctx) (p : Ast) (hd : SumDom d ctx F p) (ns : List Ref)
    (g : Option (List (List Ref))) (h : Spec.eval (F := F) d p ctx = .ok (.val (.nodes ns) g)) :
    ns.any (fun r => isNaN (Spec.strToNum (F := F) (stringValue d r))) = false := by
  obtain ⟨x, hx⟩ := hd
  rw [eval_sum_of_nodes d ctx "" p ns g h] at hx
  cases hn : ns.any (fun r => isNaN (Spec.strToNum (F := F) (stringValue d r))) with
  | false => rfl
  | true => rw [hn] at hx; cases hx

/-- … and conversely -/
theorem sumDom_of_numeric (d : Doc) (ctx : Spec.Ctx) (p : Ast) (ns : List Ref)
    (g : Option (List (List Ref))) (h : Spec.eval (F := F) d p ctx = .ok (.val (.nodes ns) g))
    (hnum : ns.any (fun r => isNaN (Spec.strToNum (F := F) (stringValue d r))) = false) :
    SumDom d ctx F p :=
  ⟨Spec.sumNodes d ns, by rw [eval_sum_of_nodes d ctx "" p ns g h, hnum]; rfl⟩

/-- `sum` arguments of the full fragment: flat paths on which the oracle's `sum` speaks -/
def FlatSum (d : Doc) (ctx : Spec.Ctx) (F : Type) [NumAlg F] (p : Ast) : Prop :=
  FlatPath p ∧ SumDom d ctx F p

/-- **sum over flat paths**: the engine's node list is the oracle's node list, and (the oracle's
side condition) every node of it is numeric -/
theorem sumOK_flat {d : Doc} (wf : WF d) (cfg : ECfg) (hns : cfg.nsIface = true)
    (hinj : HashInj d cfg) (regexOk : RegexOk) (limit : Nat) (sdf : Bool)
    (c : Ref) (hc : validRef d c = true) (i n : Nat) :
    SumOK d cfg regexOk limit true sdf ⟨c, i, n⟩ F (FlatSum d ⟨c, i, n⟩ F) := by
  intro p hp st o hb
  obtain ⟨ns, g, h1, h2⟩ :=
    flat_same_list (F := F) wf cfg hns hinj regexOk limit sdf c hc i n hp.1 st o hb
  exact ⟨ns, g, h1, h2, sumDom_numeric d _ p hp.2 ns g h2⟩

/-! ## Instances of the fragment -/

theorem NumEG.mono {CP CP' SP SP' : Ast → Prop} {MP MP' : Ast → Ast → Prop}
    (hc : ∀ p, CP p → CP' p) (hs : ∀ p, SP p → SP' p) (hm : ∀ a b, MP a b → MP' a b)
    {e : Ast} (h : NumEG CP SP MP e) : NumEG CP' SP' MP' e := by
  induction h with
  | num l => exact .num l
  | arith op a b hop _ _ iha ihb => exact .arith op a b hop iha ihb
  | mod a b _ _ hmp iha ihb => exact .mod a b iha ihb (hm a b hmp)
  | group a _ ih => exact .group a ih
  | floor pfx a _ ih => exact .floor pfx a ih
  | ceiling pfx a _ ih => exact .ceiling pfx a ih
  | number pfx a _ ih => exact .number pfx a ih
  | numberStr pfx s => exact .numberStr pfx s
  | strlenStr pfx s => exact .strlenStr pfx s
  | count pfx p hp => exact .count pfx p (hc p hp)
  | sum pfx p hp => exact .sum pfx p (hs p hp)

/-- the pure fragment: literals, `+ - * div` (hence unary minus, `x * -1`), groups, `floor`,
`ceiling`, `number`, `number('…')`, `string-length('…')`; no `count`, no `sum`, no `mod` -/
abbrev NumE : Ast → Prop := NumEG (fun _ => False) (fun _ => False) (fun _ _ => False)

/-- the side condition under which the oracle speaks for `a mod b` at `ctx`: whenever both operands
evaluate to numbers, `Spec.modSpec` is defined on them (non-negative integral dividend, positive
integral divisor) -/
def ModDom (d : Doc) (ctx : Spec.Ctx) (F : Type) [NumAlg F] (a b : Ast) : Prop :=
  ∀ (x y : F) ga gb, Spec.eval (F := F) d a ctx = .ok (.val (.num x) ga) →
    Spec.eval (F := F) d b ctx = .ok (.val (.num y) gb) → (Spec.modSpec x y).isSome = true

theorem modOK_dom (d : Doc) (ctx : Spec.Ctx) : ModOK d ctx F (ModDom d ctx F) :=
  fun _ _ h => h

theorem countOK_false (d : Doc) (cfg : ECfg) (regexOk : RegexOk) (limit : Nat) (snt sdf : Bool)
    (ctx : Spec.Ctx) : CountOK d cfg regexOk limit snt sdf ctx F (fun _ => False) :=
  fun _ h => h.elim

theorem modOK_false (d : Doc) (ctx : Spec.Ctx) : ModOK d ctx F (fun _ _ => False) :=
  fun _ _ h => h.elim

theorem sumOK_false (d : Doc) (cfg : ECfg) (regexOk : RegexOk) (limit : Nat) (snt sdf : Bool)
    (ctx : Spec.Ctx) : SumOK d cfg regexOk limit snt sdf ctx F (fun _ => False) :=
  fun _ h => h.elim

/-- the fragment with `mod` (inside the oracle's domain at `ctx`), without `count` and `sum` -/
abbrev NumEM (d : Doc) (ctx : Spec.Ctx) (F : Type) [NumAlg F] : Ast → Prop :=
  NumEG (fun _ => False) (fun _ => False) (ModDom d ctx F)

/-- the full fragment: `mod` inside the oracle's domain, `count` over flat paths, and `sum` over
flat paths all of whose selected nodes are numeric (`FlatSum`: the oracle's `sum` succeeds) -/
abbrev NumEF (d : Doc) (ctx : Spec.Ctx) (F : Type) [NumAlg F] : Ast → Prop :=
  NumEG FlatPath (FlatSum d ctx F) (ModDom d ctx F)

section Corollaries
variable (d : Doc) (cfg : ECfg) (regexOk : RegexOk) (limit : Nat) (snt sdf : Bool)

/-- **C08 (pure fragment)**: no assumption on the document, the context, the builder configuration
or the engine configuration -/
theorem numE_sem {e : Ast} (he : NumE e) (ctx : Spec.Ctx) (fl : Flags) (st : BState) (o : BOut)
    (hb : build regexOk limit snt sdf e fl st = .ok o) :
    ∃ x : F, evalP (F := F) d cfg o.q ctx.node = .ok (.num x) ∧
      Spec.eval (F := F) d e ctx = .ok (.val (.num x) none) :=
  numEG_sem d cfg regexOk limit snt sdf ctx (countOK_false d cfg regexOk limit snt sdf ctx)
    (sumOK_false d cfg regexOk limit snt sdf ctx) (modOK_false d ctx) he fl st o hb

/-- the statement of the task: flags `{}`, context `⟨c, 1, 1⟩` -/
theorem numE_sem' {e : Ast} (he : NumE e) (c : Ref) (st : BState) (o : BOut)
    (hb : build regexOk limit snt sdf e {} st = .ok o) :
    ∃ x : F, evalP (F := F) d cfg o.q c = .ok (.num x) ∧
      Spec.eval (F := F) d e ⟨c, 1, 1⟩ = .ok (.val (.num x) none) :=
  numE_sem d cfg regexOk limit snt sdf he ⟨c, 1, 1⟩ {} st o hb

/-- **C08 with `mod`**: under the oracle's side condition both sides are `fmod x y` -/
theorem numEM_sem (ctx : Spec.Ctx) {e : Ast} (he : NumEM d ctx F e) (fl : Flags) (st : BState) (o : BOut)
    (hb : build regexOk limit snt sdf e fl st = .ok o) :
    ∃ x : F, evalP (F := F) d cfg o.q ctx.node = .ok (.num x) ∧
      Spec.eval (F := F) d e ctx = .ok (.val (.num x) none) :=
  numEG_sem d cfg regexOk limit snt sdf ctx (countOK_false d cfg regexOk limit snt sdf ctx)
    (sumOK_false d cfg regexOk limit snt sdf ctx) (modOK_dom d ctx) he fl st o hb

end Corollaries

/-- **C08 (full fragment)**: with `count` over flat paths; the standing assumptions are those of
C01 (well-formed document, valid context node, `NamespaceURL()` implemented, injective node keys (`hashInj_holds`),
the `//name` shortcut guarded by its node test) -/
theorem numEF_sem {d : Doc} (wf : WF d) (cfg : ECfg) (hns : cfg.nsIface = true)
    (hinj : HashInj d cfg) (regexOk : RegexOk) (limit : Nat) (sdf : Bool)
    (c : Ref) (hc : validRef d c = true) (i n : Nat) {e : Ast} (he : NumEF d ⟨c, i, n⟩ F e)
    (fl : Flags) (st : BState) (o : BOut) (hb : build regexOk limit true sdf e fl st = .ok o) :
    ∃ x : F, evalP (F := F) d cfg o.q c = .ok (.num x) ∧
      Spec.eval (F := F) d e ⟨c, i, n⟩ = .ok (.val (.num x) none) :=
  numEG_sem d cfg regexOk limit true sdf ⟨c, i, n⟩
    (countOK_flat wf cfg hns hinj regexOk limit sdf c hc i n)
    (sumOK_flat wf cfg hns hinj regexOk limit sdf c hc i n) (modOK_dom d _) he fl st o hb

/-- the document-independent fragment with `count`: literals, `+ - * div`, groups, `floor`, `ceiling`,
`number`, `number('…')`, `string-length('…')` and `count` over flat paths; no `sum`, no `mod` (whose
oracle-side domains depend on the document).  This is the arithmetic fragment C07's `XExp` embeds
(`not(count(a))`, `count(a) > 1`, `1 + 1 = 2` …). -/
abbrev NumEC : Ast → Prop := NumEG FlatPath (fun _ => False) (fun _ _ => False)

theorem NumEC.numEF {d : Doc} {ctx : Spec.Ctx} {e : Ast} (he : NumEC e) : NumEF d ctx F e :=
  NumEG.mono (fun _ h => h) (fun _ h => h.elim) (fun _ _ h => h.elim) he

/-- **C08 on `NumEC`**: under the standing assumptions of C01 -/
theorem numEC_sem {d : Doc} (wf : WF d) (cfg : ECfg) (hns : cfg.nsIface = true)
    (hinj : HashInj d cfg) (regexOk : RegexOk) (limit : Nat) (sdf : Bool)
    (c : Ref) (hc : validRef d c = true) (i n : Nat) {e : Ast} (he : NumEC e)
    (fl : Flags) (st : BState) (o : BOut) (hb : build regexOk limit true sdf e fl st = .ok o) :
    ∃ x : F, evalP (F := F) d cfg o.q c = .ok (.num x) ∧
      Spec.eval (F := F) d e ⟨c, i, n⟩ = .ok (.val (.num x) none) :=
  numEG_sem d cfg regexOk limit true sdf ⟨c, i, n⟩
    (countOK_flat wf cfg hns hinj regexOk limit sdf c hc i n)
    (sumOK_false d cfg regexOk limit true sdf _) (modOK_false d _) he fl st o hb

/-- unary minus: the parser's `x * -1` is in the fragment -/
theorem NumEG.neg {CP SP : Ast → Prop} {MP : Ast → Ast → Prop} {a : Ast} (h : NumEG CP SP MP a) :
    NumEG CP SP MP (.oper "*" a (.num "-1")) :=
  .arith "*" a (.num "-1") (by decide) h (.num "-1")

/-! ## `string()` of a number -/

/-- `string(e)` for an arithmetic `e`: both sides render the *same* number with the *same*
`Spec.numToStr` -/
theorem string_of_numEG_sem (d : Doc) (cfg : ECfg) (regexOk : RegexOk) (limit : Nat) (snt sdf : Bool)
    (ctx : Spec.Ctx) {CP SP : Ast → Prop} {MP : Ast → Ast → Prop}
    (hC : CountOK d cfg regexOk limit snt sdf ctx F CP)
    (hS : SumOK d cfg regexOk limit snt sdf ctx F SP) (hM : ModOK d ctx F MP)
    {a : Ast} (ha : NumEG CP SP MP a) (pfx : String) (fl : Flags) (st : BState) (o : BOut)
    (hb : build regexOk limit snt sdf (.call "string" pfx (.acons a .anil)) fl st = .ok o) :
    ∃ x : F, Spec.eval (F := F) d a ctx = .ok (.val (.num x) none) ∧
      evalP (F := F) d cfg o.q ctx.node = .ok (.str (Spec.numToStr x)) ∧
      Spec.eval (F := F) d (.call "string" pfx (.acons a .anil)) ctx =
        .ok (.val (.str (Spec.numToStr x)) none) := by
  obtain ⟨st', ao, hao, hq⟩ := build_call1 _ _ _ _ "string" pfx a 0 (some 1) false rfl (Nat.zero_le _)
    (fun m h => by cases h; exact Nat.le_refl _) rfl (by decide) (by decide) (by decide) (by decide) fl st o hb
  obtain ⟨x, hx1, hx2⟩ := numEG_sem d cfg regexOk limit snt sdf ctx hC hS hM ha _ _ _ hao
  refine ⟨x, hx2, ?_, ?_⟩
  · rw [hq, evalP_func1 d cfg _ _ _ _ (by decide), hx1, callFn_string_num]
  · rw [eval_call1 d _ _ _ _ _ _ hx2, spec_string]; rfl

theorem string_of_numE_sem (d : Doc) (cfg : ECfg) (regexOk : RegexOk) (limit : Nat) (snt sdf : Bool)
    (ctx : Spec.Ctx) {a : Ast} (ha : NumE a) (pfx : String) (fl : Flags) (st : BState) (o : BOut)
    (hb : build regexOk limit snt sdf (.call "string" pfx (.acons a .anil)) fl st = .ok o) :
    ∃ x : F, Spec.eval (F := F) d a ctx = .ok (.val (.num x) none) ∧
      evalP (F := F) d cfg o.q ctx.node = .ok (.str (Spec.numToStr x)) ∧
      Spec.eval (F := F) d (.call "string" pfx (.acons a .anil)) ctx =
        .ok (.val (.str (Spec.numToStr x)) none) :=
  string_of_numEG_sem d cfg regexOk limit snt sdf ctx (countOK_false d cfg regexOk limit snt sdf ctx)
    (sumOK_false d cfg regexOk limit snt sdf ctx) (modOK_false d ctx) ha pfx fl st o hb

/-! ## NaN (and ±∞) propagation is `F`'s: the two sides agree on it -/

/-- the value of `a op b` is, on both sides, `f x y` for the values `x`, `y` of the operands and the
one `NumAlg` operation `f` the operator denotes -/
theorem numEG_oper_value (d : Doc) (cfg : ECfg) (regexOk : RegexOk) (limit : Nat) (snt sdf : Bool)
    (ctx : Spec.Ctx) {CP SP : Ast → Prop} {MP : Ast → Ast → Prop}
    (hC : CountOK d cfg regexOk limit snt sdf ctx F CP)
    (hS : SumOK d cfg regexOk limit snt sdf ctx F SP) (hM : ModOK d ctx F MP)
    {op : String} (hop : op ∈ arithOps) {a b : Ast} (ha : NumEG CP SP MP a) (hb : NumEG CP SP MP b)
    (fl : Flags) (st : BState) (o : BOut)
    (hbuild : build regexOk limit snt sdf (.oper op a b) fl st = .ok o) :
    ∃ (f : F → F → F) (x y : F), opFn (F := F) op = some f ∧
      Spec.eval (F := F) d a ctx = .ok (.val (.num x) none) ∧
      Spec.eval (F := F) d b ctx = .ok (.val (.num y) none) ∧
      evalP (F := F) d cfg o.q ctx.node = .ok (.num (f x y)) ∧
      Spec.eval (F := F) d (.oper op a b) ctx = .ok (.val (.num (f x y)) none) := by
  have hop' : op ∈ numOps := by
    simp only [arithOps, List.mem_cons, List.not_mem_nil, or_false] at hop
    simp only [numOps, List.mem_cons, List.not_mem_nil, or_false]
    rcases hop with h | h | h | h <;> simp [h]
  obtain ⟨st', lo, ro, hlo, hro, hq⟩ := build_oper _ _ _ _ op hop' a b fl st o hbuild
  obtain ⟨x, hx1, hx2⟩ := numEG_sem d cfg regexOk limit snt sdf ctx hC hS hM ha _ _ _ hlo
  obtain ⟨y, hy1, hy2⟩ := numEG_sem d cfg regexOk limit snt sdf ctx hC hS hM hb _ _ _ hro
  obtain ⟨f, hf, hev⟩ := evalP_numeric d cfg op hop' lo.q ro.q ctx.node x y hx1 hy1
  obtain ⟨f', hf', hev'⟩ := eval_arith d op hop a b ctx x y _ _ hx2 hy2
  rw [hf] at hf'; cases hf'
  rw [hq]
  exact ⟨f, x, y, hf, hx2, hy2, hev, hev'⟩

/-- **NaN propagation**: if an operand evaluates to `nan`, the engine and the oracle still return the
same number, namely `f nan y` (resp. `f x nan`) — whatever `F` makes of it -/
theorem numE_nan_left (d : Doc) (cfg : ECfg) (regexOk : RegexOk) (limit : Nat) (snt sdf : Bool)
    (ctx : Spec.Ctx) {op : String} (hop : op ∈ arithOps) {a b : Ast} (ha : NumE a) (hb : NumE b)
    (fl : Flags) (st : BState) (o : BOut)
    (hbuild : build regexOk limit snt sdf (.oper op a b) fl st = .ok o)
    (hnan : Spec.eval (F := F) d a ctx = .ok (.val (.num nan) none)) :
    ∃ (f : F → F → F) (y : F), opFn (F := F) op = some f ∧
      evalP (F := F) d cfg o.q ctx.node = .ok (.num (f nan y)) ∧
      Spec.eval (F := F) d (.oper op a b) ctx = .ok (.val (.num (f nan y)) none) := by
  obtain ⟨f, x, y, hf, hx, _, h1, h2⟩ := numEG_oper_value (F := F) d cfg regexOk limit snt sdf ctx
    (countOK_false d cfg regexOk limit snt sdf ctx) (sumOK_false d cfg regexOk limit snt sdf ctx)
    (modOK_false d ctx) hop ha hb fl st o hbuild
  rw [hnan] at hx
  cases hx
  exact ⟨f, y, hf, h1, h2⟩

theorem numE_nan_right (d : Doc) (cfg : ECfg) (regexOk : RegexOk) (limit : Nat) (snt sdf : Bool)
    (ctx : Spec.Ctx) {op : String} (hop : op ∈ arithOps) {a b : Ast} (ha : NumE a) (hb : NumE b)
    (fl : Flags) (st : BState) (o : BOut)
    (hbuild : build regexOk limit snt sdf (.oper op a b) fl st = .ok o)
    (hnan : Spec.eval (F := F) d b ctx = .ok (.val (.num nan) none)) :
    ∃ (f : F → F → F) (x : F), opFn (F := F) op = some f ∧
      evalP (F := F) d cfg o.q ctx.node = .ok (.num (f x nan)) ∧
      Spec.eval (F := F) d (.oper op a b) ctx = .ok (.val (.num (f x nan)) none) := by
  obtain ⟨f, x, y, hf, _, hy, h1, h2⟩ := numEG_oper_value (F := F) d cfg regexOk limit snt sdf ctx
    (countOK_false d cfg regexOk limit snt sdf ctx) (sumOK_false d cfg regexOk limit snt sdf ctx)
    (modOK_false d ctx) hop ha hb fl st o hbuild
  rw [hnan] at hy
  cases hy
  exact ⟨f, x, hf, h1, h2⟩

/-! ## The public API: `Expr.Evaluate` against `evalTop` -/

theorem evaluate_of_num (d : Doc) (cfg : ECfg) (q : Plan) (c : Ref) (x : F)
    (h : evalP (F := F) d cfg q c = .ok (.num x)) : evaluate (F := F) d cfg q c = .ok (.num x) := by
  simp only [evaluate, h, bind, Except.bind, pure, Except.pure]

theorem evalTop_of_num (d : Doc) (e : Ast) (c : Ref) (x : F) (g : Option (List (List Ref)))
    (h : Spec.eval (F := F) d e ⟨c, 1, 1⟩ = .ok (.val (.num x) g)) :
    Spec.evalTop (F := F) d e c = .ok (.num x) := by
  simp only [Spec.evalTop, h, bind, Except.bind, pure, Except.pure, Spec.Res.value]

/-- **C08 at the API**: `Evaluate` on the built plan returns the number `evalTop` assigns -/
theorem numE_evaluate (d : Doc) (cfg : ECfg) (regexOk : RegexOk) (limit : Nat) (snt sdf : Bool)
    {e : Ast} (he : NumE e) (c : Ref) (st : BState) (o : BOut)
    (hb : build regexOk limit snt sdf e {} st = .ok o) :
    ∃ x : F, evaluate (F := F) d cfg o.q c = .ok (.num x) ∧
      Spec.evalTop (F := F) d e c = .ok (.num x) := by
  obtain ⟨x, h1, h2⟩ := numE_sem' (F := F) d cfg regexOk limit snt sdf he c st o hb
  exact ⟨x, evaluate_of_num d cfg _ c x h1, evalTop_of_num d e c x _ h2⟩

theorem numEF_evaluate {d : Doc} (wf : WF d) (cfg : ECfg) (hns : cfg.nsIface = true)
    (hinj : HashInj d cfg) (regexOk : RegexOk) (limit : Nat) (sdf : Bool)
    (c : Ref) (hc : validRef d c = true) {e : Ast} (he : NumEF d ⟨c, 1, 1⟩ F e)
    (st : BState) (o : BOut) (hb : build regexOk limit true sdf e {} st = .ok o) :
    ∃ x : F, evaluate (F := F) d cfg o.q c = .ok (.num x) ∧
      Spec.evalTop (F := F) d e c = .ok (.num x) := by
  obtain ⟨x, h1, h2⟩ := numEF_sem (F := F) wf cfg hns hinj regexOk limit sdf c hc 1 1 he {} st o hb
  exact ⟨x, evaluate_of_num d cfg _ c x h1, evalTop_of_num d e c x _ h2⟩

/-! ## `sum(P)` on its own -/

/-- **`sum(P)` over a flat path, engine side, unconditionally**: the plan the builder makes of
`sum(P)` evaluates to the fold of Go's `sum` callback (skip what does not parse) over *the oracle's
node list* of `P` -/
theorem sum_flat_model {d : Doc} (wf : WF d) (cfg : ECfg) (hns : cfg.nsIface = true)
    (hinj : HashInj d cfg) (regexOk : RegexOk) (limit : Nat) (sdf : Bool)
    (c : Ref) (hc : validRef d c = true) (i n : Nat) {p : Ast} (hp : FlatPath p) (pfx : String)
    (fl : Flags) (st : BState) (o : BOut)
    (hb : build regexOk limit true sdf (.call "sum" pfx (.acons p .anil)) fl st = .ok o) :
    ∃ ns g, Spec.eval (F := F) d p ⟨c, i, n⟩ = .ok (.val (.nodes ns) g) ∧
      evalP (F := F) d cfg o.q c = .ok (.num (ns.foldl (fun acc r =>
        if isNaN (Spec.strToNum (F := F) (stringValue d r)) = true then acc
        else add acc (Spec.strToNum (stringValue d r))) (ofNat 0))) := by
  obtain ⟨st', ao, hao, hq⟩ := build_call1 _ _ _ _ "sum" pfx p 1 none false rfl (Nat.le_refl _)
    (fun _ h => by cases h) rfl (by decide) (by decide) (by decide) (by decide) fl st o hb
  obtain ⟨ns, g, h1, h2⟩ :=
    flat_same_list (F := F) wf cfg hns hinj regexOk limit sdf c hc i n hp _ _ hao
  refine ⟨ns, g, h2, ?_⟩
  rw [hq, evalP_func1 d cfg _ _ _ _ (by decide), h1, callFn_sum_nodes]
  rfl

/-- **C08, `sum(P)` over a flat path**: if the oracle evaluates `sum(P)` to the number `x` (so:
every node `P` selects is numeric), the plan the builder makes of `sum(P)` evaluates to `x` -/
theorem sum_flat_sem {d : Doc} (wf : WF d) (cfg : ECfg) (hns : cfg.nsIface = true)
    (hinj : HashInj d cfg) (regexOk : RegexOk) (limit : Nat) (sdf : Bool)
    (c : Ref) (hc : validRef d c = true) (i n : Nat) {p : Ast} (hp : FlatPath p) (pfx : String)
    (x : F) (g : Option (List (List Ref)))
    (hx : Spec.eval (F := F) d (.call "sum" pfx (.acons p .anil)) ⟨c, i, n⟩ = .ok (.val (.num x) g))
    (fl : Flags) (st : BState) (o : BOut)
    (hb : build regexOk limit true sdf (.call "sum" pfx (.acons p .anil)) fl st = .ok o) :
    evalP (F := F) d cfg o.q c = .ok (.num x) := by
  have he : NumEF d ⟨c, i, n⟩ F (.call "sum" pfx (.acons p .anil)) :=
    .sum pfx p ⟨hp, sumDom_of_eval d _ pfx p x g hx⟩
  obtain ⟨y, h1, h2⟩ := numEF_sem (F := F) wf cfg hns hinj regexOk limit sdf c hc i n he fl st o hb
  rw [hx] at h2
  cases h2
  exact h1

theorem evalTop_num_inv_call (d : Doc) (name pfx : String) (args : Ast) (c : Ref) (x : F)
    (h : Spec.evalTop (F := F) d (.call name pfx args) c = .ok (.num x)) :
    Spec.eval (F := F) d (.call name pfx args) ⟨c, 1, 1⟩ = .ok (.val (.num x) none) := by
  unfold Spec.evalTop at h
  obtain ⟨v, hv, h⟩ := except_bind_ok _ _ _ h
  rw [hv]
  rw [Spec.eval] at hv
  obtain ⟨av, _, hv⟩ := except_bind_ok _ _ _ hv
  obtain ⟨w, _, hv⟩ := except_bind_ok _ _ _ hv
  cases hv
  simp only [pure, Except.pure, Spec.Res.value, Except.ok.injEq] at h
  rw [h]

/-- … at the public API: whenever the oracle's top-level evaluation of `sum(P)` is a number,
`Expr.Evaluate` on the built plan returns that number -/
theorem sum_flat_evaluate {d : Doc} (wf : WF d) (cfg : ECfg) (hns : cfg.nsIface = true)
    (hinj : HashInj d cfg) (regexOk : RegexOk) (limit : Nat) (sdf : Bool)
    (c : Ref) (hc : validRef d c = true) {p : Ast} (hp : FlatPath p) (pfx : String) (x : F)
    (hx : Spec.evalTop (F := F) d (.call "sum" pfx (.acons p .anil)) c = .ok (.num x))
    (st : BState) (o : BOut)
    (hb : build regexOk limit true sdf (.call "sum" pfx (.acons p .anil)) {} st = .ok o) :
    evaluate (F := F) d cfg o.q c = .ok (.num x) :=
  evaluate_of_num d cfg _ c x
    (sum_flat_sem wf cfg hns hinj regexOk limit sdf c hc 1 1 hp pfx x none
      (evalTop_num_inv_call d _ _ _ c x hx) {} st o hb)

/-! ## Non-vacuity: parser-shaped members of the fragment that the builder accepts -/
section Examples

/-- `-(1 + 2.5) - floor(3 div 0)` as the parser produces it -/
private def exE : Ast :=
  .oper "-" (.oper "*" (.group (.oper "+" (.num "1") (.num "2.5"))) (.num "-1"))
    (.call "floor" "" (.acons (.oper "div" (.num "3") (.num "0")) .anil))
private def aB : AxisInfo := ⟨"attribute", .attr, "", "b", "", false, ""⟩
private def cA : AxisInfo := ⟨"child", .elem, "", "a", "", false, ""⟩
/-- `count(a/@b)` as the parser produces it -/
private def exC : Ast := .call "count" "" (.acons (.axis aB (.axis cA .none)) .anil)

example : NumE exE :=
  .arith "-" _ _ (by decide) (NumEG.neg (.group _ (.arith "+" _ _ (by decide) (.num _) (.num _))))
    (.floor "" _ (.arith "div" _ _ (by decide) (.num _) (.num _)))
example : ∃ o, build (fun _ => true) 100 true false exE {} {} = .ok o := ⟨_, rfl⟩
example (d : Doc) (ctx : Spec.Ctx) (F : Type) [NumAlg F] : NumEF d ctx F exC :=
  .count "" _ (.cons aB _ (by decide) (.step cA (by decide)))
example : ∃ o, build (fun _ => true) 100 true false exC {} {} = .ok o := ⟨_, rfl⟩

end Examples

/-! ## `sum`: the oracle-side hypothesis is satisfiable; what happens outside it -/
section SumExamples
private def aB' : AxisInfo := ⟨"attribute", .attr, "", "b", "", false, ""⟩
private def cA' : AxisInfo := ⟨"child", .elem, "", "a", "", false, ""⟩
/-- `a/@b` as the parser produces it -/
private def exP : Ast := .axis aB' (.axis cA' .none)
private theorem exP_flat : FlatPath exP := .cons aB' _ (by decide) (.step cA' (by decide))
/-- `sum(a/@b) div count(a/@b) + 1` as the parser produces it -/
private def exAvg : Ast :=
  .oper "+" (.oper "div" (.call "sum" "" (.acons exP .anil)) (.call "count" "" (.acons exP .anil)))
    (.num "1")
/-- `<r><a b="1"/><a b="2.5"/></r>` -/
private def exDoc : Doc :=
  [⟨0, .root, "", "", "", "", []⟩, ⟨1, .elem, "", "r", "", "", []⟩,
   ⟨2, .elem, "", "a", "", "", [⟨"", "b", "", "1"⟩]⟩, ⟨2, .elem, "", "a", "", "", [⟨"", "b", "", "2.5"⟩]⟩]
/-- `<r><a b="1"/><a b="x"/></r>` -/
private def exDocX : Doc :=
  [⟨0, .root, "", "", "", "", []⟩, ⟨1, .elem, "", "r", "", "", []⟩,
   ⟨2, .elem, "", "a", "", "", [⟨"", "b", "", "1"⟩]⟩, ⟨2, .elem, "", "a", "", "", [⟨"", "b", "", "x"⟩]⟩]

private theorem exDoc_nodes : Spec.eval (F := F) exDoc exP ⟨.node 1, 1, 1⟩ =
    .ok (.val (.nodes [.attr 2 0, .attr 3 0]) (some [[.attr 2 0], [.attr 3 0]])) := rfl
private theorem exDocX_nodes : Spec.eval (F := F) exDocX exP ⟨.node 1, 1, 1⟩ =
    .ok (.val (.nodes [.attr 2 0, .attr 3 0]) (some [[.attr 2 0], [.attr 3 0]])) := rfl


private theorem lt4 {P : Nat → Prop} (h : P 0 ∧ P 1 ∧ P 2 ∧ P 3) : ∀ i, i < 4 → P i := by
  intro i hi
  obtain ⟨h0, h1, h2, h3⟩ := h
  match i, hi with
  | 0, _ => exact h0
  | 1, _ => exact h1
  | 2, _ => exact h2
  | 3, _ => exact h3

private theorem exDoc_wf : WF exDoc where
  pos := by decide
  root := by decide
  step := fun i hi => lt4 (P := fun i => i + 1 < exDoc.length →
      1 ≤ dep exDoc (i+1) ∧ dep exDoc (i+1) ≤ dep exDoc i + 1)
    (by decide) i (by simp [exDoc] at hi; omega) hi
  nonroot := fun i h0 hi => lt4 (P := fun i => 0 < i → kindAt exDoc i ≠ .root) (by decide) i hi h0
  leaf := fun i hi => lt4 (P := fun i => i + 1 < exDoc.length →
      (kindAt exDoc i = .text ∨ kindAt exDoc i = .comment) → dep exDoc (i+1) ≤ dep exDoc i)
    (by decide) i (by simp [exDoc] at hi; omega) hi
  attrs := fun i hi => lt4 (P := fun i => kindAt exDoc i ≠ .elem → (recAt exDoc i).attrs = [])
    (by decide) i hi

private theorem exDocX_wf : WF exDocX where
  pos := by decide
  root := by decide
  step := fun i hi => lt4 (P := fun i => i + 1 < exDocX.length →
      1 ≤ dep exDocX (i+1) ∧ dep exDocX (i+1) ≤ dep exDocX i + 1)
    (by decide) i (by simp [exDocX] at hi; omega) hi
  nonroot := fun i h0 hi => lt4 (P := fun i => 0 < i → kindAt exDocX i ≠ .root) (by decide) i hi h0
  leaf := fun i hi => lt4 (P := fun i => i + 1 < exDocX.length →
      (kindAt exDocX i = .text ∨ kindAt exDocX i = .comment) → dep exDocX (i+1) ≤ dep exDocX i)
    (by decide) i (by simp [exDocX] at hi; omega) hi
  attrs := fun i hi => lt4 (P := fun i => kindAt exDocX i ≠ .elem → (recAt exDocX i).attrs = [])
    (by decide) i hi

private theorem exDoc_flatSum (h1 : isNaN (ofDecimal false 1 0 : F) = false)
    (h2 : isNaN (ofDecimal false 25 (-1) : F) = false) : FlatSum exDoc ⟨.node 1, 1, 1⟩ F exP := by
  refine ⟨exP_flat, sumDom_of_numeric exDoc _ exP _ _ exDoc_nodes ?_⟩
  show (isNaN (ofDecimal false 1 0 : F) || (isNaN (ofDecimal false 25 (-1) : F) || false)) = false
  rw [h1, h2]; rfl

/-- **the side condition is satisfiable**: on `<r><a b="1"/><a b="2.5"/></r>`, from `r`, the oracle
evaluates `sum(a/@b)` — to `(0 + 1) + 2.5` — in every number algebra in which the decimal numerals
`1` and `2.5` are not NaN -/
example (h1 : isNaN (ofDecimal false 1 0 : F) = false) (h2 : isNaN (ofDecimal false 25 (-1) : F) = false) :
    Spec.eval (F := F) exDoc (.call "sum" "" (.acons exP .anil)) ⟨.node 1, 1, 1⟩ =
      .ok (.val (.num (add (add (ofNat 0) (ofDecimal false 1 0)) (ofDecimal false 25 (-1)))) none) := by
  have hnum : [Ref.attr 2 0, Ref.attr 3 0].any
      (fun r => isNaN (Spec.strToNum (F := F) (stringValue exDoc r))) = false := by
    show (isNaN (ofDecimal false 1 0 : F) || (isNaN (ofDecimal false 25 (-1) : F) || false)) = false
    rw [h1, h2]; rfl
  rw [eval_sum_of_nodes exDoc _ "" exP _ _ exDoc_nodes, hnum]
  rfl

example (h1 : isNaN (ofDecimal false 1 0 : F) = false) (h2 : isNaN (ofDecimal false 25 (-1) : F) = false) :
    FlatSum exDoc ⟨.node 1, 1, 1⟩ F exP := exDoc_flatSum h1 h2

private theorem exAvg_numEF (h1 : isNaN (ofDecimal false 1 0 : F) = false)
    (h2 : isNaN (ofDecimal false 25 (-1) : F) = false) : NumEF exDoc ⟨.node 1, 1, 1⟩ F exAvg :=
  .arith "+" _ _ (by decide)
    (.arith "div" _ _ (by decide) (.sum "" exP (exDoc_flatSum h1 h2)) (.count "" exP exP_flat)) (.num "1")

/-- … hence `sum(a/@b) div count(a/@b) + 1` is in the full fragment there, the builder accepts it,
and `numEF_evaluate` applies: `Evaluate` returns the oracle's number -/
example (h1 : isNaN (ofDecimal false 1 0 : F) = false) (h2 : isNaN (ofDecimal false 25 (-1) : F) = false) :
    NumEF exDoc ⟨.node 1, 1, 1⟩ F exAvg := exAvg_numEF h1 h2
example (cfg : ECfg) (hns : cfg.nsIface = true) (hinj : HashInj exDoc cfg)
    (h1 : isNaN (ofDecimal false 1 0 : F) = false) (h2 : isNaN (ofDecimal false 25 (-1) : F) = false)
    (o : BOut) (hb : build (fun _ => true) 100 true false exAvg {} {} = .ok o) :
    ∃ x : F, evaluate (F := F) exDoc cfg o.q (.node 1) = .ok (.num x) ∧
      Spec.evalTop (F := F) exDoc exAvg (.node 1) = .ok (.num x) :=
  numEF_evaluate exDoc_wf cfg hns hinj (fun _ => true) 100 false (.node 1) (by decide)
    (exAvg_numEF h1 h2) {} o hb
example : ∃ o, build (fun _ => true) 100 true false exAvg {} {} = .ok o := ⟨_, rfl⟩

/-- **outside the property**: on `<r><a b="1"/><a b="x"/></r>` the second node is not numeric
(`number('x')` is NaN); the oracle does not speak (`unsupported`), so the hypothesis of
`sum_flat_sem`/`FlatSum` fails there … -/
example (hn : isNaN (nan : F) = true) :
    Spec.eval (F := F) exDocX (.call "sum" "" (.acons exP .anil)) ⟨.node 1, 1, 1⟩ =
      .error (.unsupported "sum over non-numeric nodes") := by
  have hnum : [Ref.attr 2 0, Ref.attr 3 0].any
      (fun r => isNaN (Spec.strToNum (F := F) (stringValue exDocX r))) = true := by
    show (isNaN (ofDecimal false 1 0 : F) || (isNaN (nan : F) || false)) = true
    rw [hn]; simp
  rw [eval_sum_of_nodes exDocX _ "" exP _ _ exDocX_nodes, hnum]
  rfl

example (hn : isNaN (nan : F) = true) : ¬ FlatSum exDocX ⟨.node 1, 1, 1⟩ F exP := by
  intro h
  have := sumDom_numeric exDocX _ exP h.2 _ _ exDocX_nodes
  have hnum : [Ref.attr 2 0, Ref.attr 3 0].any
      (fun r => isNaN (Spec.strToNum (F := F) (stringValue exDocX r))) = true := by
    show (isNaN (ofDecimal false 1 0 : F) || (isNaN (nan : F) || false)) = true
    rw [hn]; simp
  rw [hnum] at this; cases this

/-- … while the engine (Go's `sum` callback) silently skips the node and answers `0 + 1`
(`sum_flat_model` applied to this document) -/
example (cfg : ECfg) (hns : cfg.nsIface = true) (hinj : HashInj exDocX cfg)
    (h1 : isNaN (ofDecimal false 1 0 : F) = false) (hn : isNaN (nan : F) = true)
    (o : BOut) (hb : build (fun _ => true) 100 true false (.call "sum" "" (.acons exP .anil)) {} {} = .ok o) :
    evalP (F := F) exDocX cfg o.q (.node 1) = .ok (.num (add (ofNat 0) (ofDecimal false 1 0))) := by
  obtain ⟨ns, g, h, hev⟩ := sum_flat_model (F := F) exDocX_wf cfg hns hinj (fun _ => true) 100 false (.node 1)
    (by decide) 1 1 exP_flat "" {} {} o hb
  rw [exDocX_nodes] at h
  cases h
  rw [hev]
  show Except.ok (MVal.num (if isNaN (nan : F) = true then
      (if isNaN (ofDecimal false 1 0 : F) = true then ofNat 0 else add (ofNat 0) (ofDecimal false 1 0))
    else add (if isNaN (ofDecimal false 1 0 : F) = true then ofNat 0 else add (ofNat 0) (ofDecimal false 1 0)) nan)) = _
  rw [hn, h1]
  rfl

end SumExamples

end XPathV.ArithSem

/-! ## Axiom audit -/
section AxiomAudit
open XPathV.ArithSem
end AxiomAudit
