/-!
# The rendering of the node key is uniquely decodable

String-level facts behind `getNodeKey`: a decimal number followed by a separator, a length-prefixed
part (`writeKeyPart`), and a chain of `-<n>` items can each be read back from the front of a string.
-/
namespace XPathV.KeyRender

/-! ## Equal-size prefixes -/

theorem append_inj_of_size {a b x y : String} (h : a ++ x = b ++ y)
    (hs : a.utf8ByteSize = b.utf8ByteSize) : a = b ∧ x = y := by
  have h' := congrArg String.toByteArray h
  rw [String.toByteArray_append, String.toByteArray_append] at h'
  have h'' := congrArg ByteArray.data h'
  rw [ByteArray.data_append, ByteArray.data_append] at h''
  have := Array.append_inj h'' (by
    have e1 : a.toByteArray.data.size = a.utf8ByteSize := rfl
    have e2 : b.toByteArray.data.size = b.utf8ByteSize := rfl
    rw [e1, e2, hs])
  refine ⟨String.toByteArray_inj.1 ?_, String.toByteArray_inj.1 ?_⟩
  · cases ha : a.toByteArray; cases hb : b.toByteArray
    rw [ha, hb] at this; simpa using this.1
  · cases ha : x.toByteArray; cases hb : y.toByteArray
    rw [ha, hb] at this; simpa using this.2

/-! ## Lists: a block free of a separator, followed by nothing or the separator -/

theorem split_at_sep {α : Type} (c : α) :
    ∀ (l₁ l₂ r₁ r₂ : List α), (∀ x ∈ l₁, x ≠ c) → (∀ x ∈ l₂, x ≠ c) →
      (r₁ = [] ∨ ∃ t, r₁ = c :: t) → (r₂ = [] ∨ ∃ t, r₂ = c :: t) →
      l₁ ++ r₁ = l₂ ++ r₂ → l₁ = l₂ ∧ r₁ = r₂
  | [], [], _, _, _, _, _, _, h => ⟨rfl, h⟩
  | [], y :: l₂, r₁, r₂, _, h2, hr1, _, h => by
    exfalso
    rcases hr1 with e | ⟨t, e⟩
    · subst e; simp at h
    · subst e
      simp only [List.nil_append, List.cons_append, List.cons.injEq] at h
      exact h2 y List.mem_cons_self h.1.symm
  | x :: l₁, [], r₁, r₂, h1, _, _, hr2, h => by
    exfalso
    rcases hr2 with e | ⟨t, e⟩
    · subst e; simp at h
    · subst e
      simp only [List.nil_append, List.cons_append, List.cons.injEq] at h
      exact h1 x List.mem_cons_self h.1
  | x :: l₁, y :: l₂, r₁, r₂, h1, h2, hr1, hr2, h => by
    simp only [List.cons_append, List.cons.injEq] at h
    have := split_at_sep c l₁ l₂ r₁ r₂ (fun z hz => h1 z (List.mem_cons_of_mem _ hz))
      (fun z hz => h2 z (List.mem_cons_of_mem _ hz)) hr1 hr2 h.2
    exact ⟨by rw [h.1, this.1], this.2⟩

/-! ## Decimal numbers -/

theorem toDigits_inj {m n : Nat} (h : Nat.toDigits 10 m = Nat.toDigits 10 n) : m = n := by
  have := congrArg (fun l => Nat.ofDigitChars 10 l 0) h
  simpa [Nat.ofDigitChars_ten_toDigits] using this

theorem toString_nat_toList (n : Nat) : (toString n).toList = Nat.toDigits 10 n := by
  rw [Nat.toString_eq_repr, Nat.toList_repr]

theorem toString_nat_inj {m n : Nat} (h : toString m = toString n) : m = n := by
  apply toDigits_inj
  rw [← toString_nat_toList, ← toString_nat_toList, h]

theorem digit_ne_of_not_isDigit (c : Char) (hc : c.isDigit = false) (n : Nat) :
    ∀ x ∈ (toString n).toList, x ≠ c := by
  intro x hx e
  rw [toString_nat_toList] at hx
  have := Nat.isDigit_of_mem_toDigits (by decide) (by decide) hx
  rw [e, hc] at this
  exact absurd this (by decide)

/-- `toString m ++ c ++ x = toString n ++ c ++ y` for a non-digit `c` -/
theorem num_sep_inj (c : Char) (hc : c.isDigit = false) {m n : Nat} {x y : String}
    (h : toString m ++ (String.singleton c ++ x) = toString n ++ (String.singleton c ++ y)) :
    m = n ∧ x = y := by
  have h' := congrArg String.toList h
  simp only [String.toList_append, String.toList_singleton] at h'
  have := split_at_sep c _ _ _ _ (digit_ne_of_not_isDigit c hc m) (digit_ne_of_not_isDigit c hc n)
    (Or.inr ⟨_, rfl⟩) (Or.inr ⟨_, rfl⟩) h'
  refine ⟨toString_nat_inj (String.toList_inj.1 this.1), ?_⟩
  have h2 := this.2
  simp only [List.cons.injEq, true_and] at h2
  exact String.toList_inj.1 h2

/-! ## `writeKeyPart` -/

/-- `writeKeyPart`: the string preceded by its byte length (same as `Model.keyPart`) -/
def part (s : String) : String := toString s.utf8ByteSize ++ ":" ++ s

theorem part_inj {a b x y : String} (h : part a ++ x = part b ++ y) : a = b ∧ x = y := by
  unfold part at h
  have e : (":" : String) = String.singleton ':' := by decide
  rw [String.append_assoc, String.append_assoc, String.append_assoc, String.append_assoc, e] at h
  have h1 := num_sep_inj ':' (by decide) h
  exact append_inj_of_size h1.2 h1.1

/-! ## The index chain -/

def chainR : List Nat → String
  | [] => ""
  | n :: l => "-" ++ (toString n ++ chainR l)

theorem foldl_chain (l : List Nat) (init : String) :
    l.foldl (fun s n => s ++ "-" ++ toString n) init = init ++ chainR l := by
  induction l generalizing init with
  | nil => simp [chainR]
  | cons n l ih =>
    simp only [List.foldl_cons, chainR]
    rw [ih]
    simp only [String.append_assoc]

theorem chainR_head (l : List Nat) : (chainR l).toList = [] ∨ ∃ t, (chainR l).toList = '-' :: t := by
  cases l with
  | nil => left; simp [chainR]
  | cons n l =>
    right
    have e : ("-" : String) = String.singleton '-' := by decide
    exact ⟨_, by simp only [chainR, e, String.toList_append, String.toList_singleton]; rfl⟩

theorem chainR_inj : ∀ (l₁ l₂ : List Nat), chainR l₁ = chainR l₂ → l₁ = l₂
  | [], [], _ => rfl
  | [], n :: l, h => by
    have := congrArg String.utf8ByteSize h
    have e : ("-" : String).utf8ByteSize = 1 := by decide
    simp only [chainR, String.utf8ByteSize_append, e, String.utf8ByteSize_empty] at this
    omega
  | n :: l, [], h => by
    have := congrArg String.utf8ByteSize h
    have e : ("-" : String).utf8ByteSize = 1 := by decide
    simp only [chainR, String.utf8ByteSize_append, e, String.utf8ByteSize_empty] at this
    omega
  | m :: l₁, n :: l₂, h => by
    simp only [chainR] at h
    have h1 := (append_inj_of_size h rfl).2
    have h' := congrArg String.toList h1
    simp only [String.toList_append] at h'
    have := split_at_sep '-' _ _ _ _ (digit_ne_of_not_isDigit '-' (by decide) m)
      (digit_ne_of_not_isDigit '-' (by decide) n) (chainR_head l₁) (chainR_head l₂) h'
    rw [toString_nat_inj (String.toList_inj.1 this.1), chainR_inj l₁ l₂ (String.toList_inj.1 this.2)]

end XPathV.KeyRender
