import XPathV.Model.Api
import XPathV.Lemmas.Facts
/-!
# C17 — truncated or ill-formed expressions are rejected by Compile (partial)

Local rejection lemmas, one per expected-token site of the parser model, plus the structural
facts about the builder's tables.  The global truncation theorems are in `Theorems/C17.lean` (token level, via `Lemmas/ParserTokens.lean`).
-/
namespace XPathV.Theorems.C17
open XPathV XPathV.Model XPathV.Facts

/-- the character-level statement for truncation as first written — **false** for the character `/`
(`Theorems.C17.first_truncation_statement_was_false`: `/a` cut after the slash is the accepted `/`);
superseded by the token-level theorems of `Theorems/C17.lean` -/
def C17TruncationStatement : Prop :=
  ∀ (cfg : PCfg) (text : List Char) (a : Ast), parse (fuelFor text) cfg text = .ok a →
    ∀ cut, cut < text.length → (∃ c, text[cut - 1]? = some c ∧ (c == '[' || c == '(' || c == ',' || c == '/')) →
      ∃ e, parse (fuelFor (text.take cut)) cfg (text.take cut) = .error e

/-- `skipItem` on a different token is an error (every "expected token" site goes through it) -/
theorem skipItem_mismatch (st : PState) (t : Tok) (h : st.s.typ ≠ t) : st.skipItem t = .error .invalidToken := by
  simp [PState.skipItem, h]

/-- an operand position holding `)`, `]`, `,` or the end of input is rejected by `parseNodeTest` -/
theorem operand_missing (cfg : PCfg) (inp : Ast) (axis : String) (mt : NType) (st : PState)
    (h : st.s.typ = .eof ∨ st.s.typ = .rparen ∨ st.s.typ = .rbracket ∨ st.s.typ = .comma) :
    parseNodeTest cfg inp axis mt st = .error .notNodeSet := by
  rcases h with h | h | h | h <;> simp [parseNodeTest, h]

/-- an unclosed string literal is a scanner error -/
theorem unclosed_string (q : Char) (body : List Char) (hq : q ∉ body) : scanStringAux q body = none := by
  induction body with
  | nil => rfl
  | cons c t ih =>
    simp only [List.mem_cons, not_or] at hq
    have hne : (c == q) = false := by
      simp only [beq_eq_false_iff_ne, ne_eq]; exact fun h => hq.1 h.symm
    simp [scanStringAux, hne, ih hq.2]

/-- a predicate that is not closed by `]` is rejected -/
theorem unclosed_predicate (f : Nat) (cfg : PCfg) (st st1 st2 : PState) (a : Ast)
    (h1 : st.skipItem .lbracket = .ok st1) (h2 : parseExpression f cfg st1 = .ok (a, st2)) (h3 : st2.s.typ ≠ .rbracket) :
    parsePredicate (f+1) cfg st = .error .invalidToken := by
  simp [parsePredicate, h1, h2, bind, Except.bind, skipItem_mismatch st2 .rbracket h3]

/-- an unknown function name is rejected by the builder -/
theorem unknown_function (rx : RegexOk) (lim : Nat) (a b : Bool) (name pfx : String) (args : Ast) (fl : Flags) (st : BState)
    (hlim : st.depth + 1 ≤ lim) (hn : fnArity name = none) :
    build rx lim a b (.call name pfx args) fl st = .error (.unknownFunction name) := by
  simp [build, build.enter, hn]
  omega

/-- text left over after a complete expression is rejected -/
theorem trailing_text_rejected (fuel : Nat) (cfg : PCfg) (text : List Char) (s : Scan) (a : Ast) (st : PState)
    (hs : Scan.init text = .ok s) (hp : parseExpression fuel cfg { s := s, d := 0 } = .ok (a, st)) (he : st.s.typ ≠ .eof) :
    parse fuel cfg text = .error .invalidToken := by
  simp [parse, hs, hp, bind, Except.bind, he]

end XPathV.Theorems.C17
