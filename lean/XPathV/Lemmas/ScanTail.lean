import XPathV.Lemmas.ParserTokens
import XPathV.Lemmas.ScanProgress
/-!
# From characters to tokens: the last character of a text (property C17)

`ParserTokens.reject_trailing` is a statement about token streams.  This file supplies the passage
from characters: if a text (free of U+0000, which the scanner model treats as the end of input)
ends with a delimiter character `c`, then either scanning fails somewhere (`ScanFails`), or the
token stream of the text ends with one of the tokens `lastToks c` (`[` ↦ `lbracket`, `=` ↦
`eq`/`le`/`ge`/`ne`, `/` ↦ `slash`/`slashslash`, a quote ↦ `string`, `#` ↦ nothing, …).
No assumption is made on what precedes `c`: it may end inside a string literal (then the literal
is unclosed and scanning fails), inside a name, after a colon, ….

Invariant (`Inv P c tl s`): the unread input `s.curr :: s.rest` of a scanner state is
`l ++ c :: tl` with every character of `l` satisfying `P` (`P x → x ≠ U+0000`).  One `nextItem`
call from such a state (`nextItem_post`) fails, or leaves a state with the same invariant, or meets
`c` at a token start, or consumes `c` as the second character of `<= >= != //`, or as the closing
quote of a literal (then the opening quote, a character of `l`, satisfies `P`).
`tl = []` gives the one-character results, `tl = ['/']` the result for `//`.

Main results: `last_char_tokens`, `last_char_token`, `cut_after_delimiter_rejected`
(`[ ( , @ $ | + = < > ! #`), `last_two_slashes`, `cut_after_slashslash_rejected`,
`cut_after_quote_rejected`, `last_char_quote_closes`, `cut_after_fresh_quote_rejected`,
`truncation_rejected` (the corrected character-level truncation statement of C17).
Not delimiters in this sense: `-` (a name character: `a-` is a name), `*` (`a/*`, `a:*`), `/`
(`/` alone is valid), `.` (`.`, `1.`), `:`; `)` and `]` are covered by `last_char_token` but are
end tokens.
-/
namespace XPathV.Lemmas.ScanTail
open XPathV XPathV.Model
open XPathV.Lemmas.ParserTokens
open XPathV.Lemmas.ScanProgress

/-! ## 1. The invariant -/

/-- the unread input `cur :: rest` is `l ++ [c]` with `l` free of U+0000 -/
def InvCR (P : Char → Prop) (c : Char) (tl : List Char) (cur : Char) (rest : List Char) : Prop :=
  ∃ l, (∀ x ∈ l, P x) ∧ cur :: rest = l ++ c :: tl

def Inv (P : Char → Prop) (c : Char) (tl : List Char) (s : Scan) : Prop := InvCR P c tl s.curr s.rest

variable {P : Char → Prop} {tl : List Char}

/-- look-ahead character and rest when the unread input is `w` -/
def mkCR : List Char → Char × List Char
  | [] => ('\x00', [])
  | x :: xs => (x, xs)

/-- the unread input is exactly `w` -/
def At (w : List Char) (s : Scan) : Prop := s.curr = (mkCR w).1 ∧ s.rest = (mkCR w).2

/-- the whole text has been consumed -/
abbrev Done (s : Scan) : Prop := At [] s

theorem invCR_cases {c cur : Char} {rest : List Char} (h : InvCR P c tl cur rest) :
    (cur = c ∧ rest = tl) ∨ (P cur ∧ ∃ x xs, rest = x :: xs ∧ InvCR P c tl x xs) := by
  obtain ⟨l, hl, h⟩ := h
  cases l with
  | nil =>
    simp only [List.nil_append, List.cons.injEq] at h
    exact Or.inl h
  | cons y l' =>
    simp only [List.cons_append, List.cons.injEq] at h
    obtain ⟨rfl, rfl⟩ := h
    refine Or.inr ⟨hl _ (List.mem_cons_self ..), ?_⟩
    cases l' with
    | nil => exact ⟨c, tl, rfl, [], by simp, rfl⟩
    | cons z l'' =>
      refine ⟨z, l'' ++ c :: tl, rfl, z :: l'', ?_, rfl⟩
      exact fun x hx => hl x (List.mem_cons_of_mem _ hx)

theorem invCR_last (c : Char) : InvCR P c tl c tl := ⟨[], by simp, rfl⟩

theorem invCR_ne_nul (hP : ∀ x, P x → x ≠ '\x00') {c cur : Char} {rest : List Char} (hc : c ≠ '\x00')
    (h : InvCR P c tl cur rest) : cur ≠ '\x00' := by
  rcases invCR_cases h with ⟨rfl, _⟩ | ⟨h, _⟩
  · exact hc
  · exact hP _ h

theorem invCR_length (hP : ∀ x, P x → x ≠ '\x00') {c cur : Char} {rest : List Char} (hc : c ≠ '\x00')
    (h : InvCR P c tl cur rest) : remCR cur rest = rest.length + 1 := remCR_ne _ _ (invCR_ne_nul hP hc h)

/-- `nextChar` from a state with at least one more character -/
theorem inv_nextChar_cons {c : Char} {s : Scan} {x : Char} {xs : List Char} (hr : s.rest = x :: xs)
    (hx : InvCR P c tl x xs) : Inv P c tl s.nextChar.1 := by
  unfold Scan.nextChar
  rw [hr]
  exact hx

theorem nextChar_at {s : Scan} {w : List Char} (hr : s.rest = w) : At w s.nextChar.1 := by
  unfold Scan.nextChar
  rw [hr]
  cases w <;> exact ⟨rfl, rfl⟩

theorem nextChar_done {s : Scan} (hr : s.rest = []) : Done s.nextChar.1 := nextChar_at hr

theorem inv_adv_or {c : Char} {s : Scan} (h : Inv P c tl s) :
    (s.curr = c ∧ s.rest = tl ∧ At tl s.nextChar.1) ∨ Inv P c tl s.nextChar.1 := by
  rcases invCR_cases h with ⟨h1, h2⟩ | ⟨_, x, xs, hr, hx⟩
  · exact Or.inl ⟨h1, h2, nextChar_at h2⟩
  · exact Or.inr (inv_nextChar_cons hr hx)

theorem inv_adv {c : Char} {s : Scan} (h : Inv P c tl s) (hne : s.curr ≠ c) : Inv P c tl s.nextChar.1 := by
  rcases inv_adv_or h with ⟨h1, _⟩ | h
  · exact absurd h1 hne
  · exact h

theorem invCR_skipSpaceAux {c : Char} (hsp : isSpace c = false) : ∀ (rest : List Char) (cur : Char),
    InvCR P c tl cur rest → InvCR P c tl (skipSpaceAux cur rest).1 (skipSpaceAux cur rest).2
  | [], cur, h => by
    rcases invCR_cases h with ⟨rfl, _⟩ | ⟨_, x, xs, hr, _⟩
    · simp only [skipSpaceAux, hsp, Bool.false_eq_true, ↓reduceIte]; exact h
    · cases hr
  | x :: xs, cur, h => by
    unfold skipSpaceAux
    split
    · rename_i hs
      rcases invCR_cases h with ⟨rfl, _⟩ | ⟨_, x', xs', hr, hx⟩
      · rw [hsp] at hs; cases hs
      · cases hr
        exact invCR_skipSpaceAux hsp xs x hx
    · exact h

theorem inv_skipSpace {c : Char} (hsp : isSpace c = false) {s : Scan} (h : Inv P c tl s) : Inv P c tl s.skipSpace :=
  invCR_skipSpaceAux hsp _ _ h

theorem invCR_takeRun {c : Char} {p : Char → Bool} (hp : p c = false) : ∀ (rest : List Char) (cur : Char),
    InvCR P c tl cur rest → InvCR P c tl (takeRun p cur rest).2.1 (takeRun p cur rest).2.2
  | [], cur, h => by
    rcases invCR_cases h with ⟨rfl, _⟩ | ⟨_, x, xs, hr, _⟩
    · simp only [takeRun, hp, Bool.false_eq_true, ↓reduceIte]; exact h
    · cases hr
  | x :: xs, cur, h => by
    unfold takeRun
    split
    · rename_i hs
      rcases invCR_cases h with ⟨rfl, _⟩ | ⟨_, x', xs', hr, hx⟩
      · rw [hp] at hs; cases hs
      · cases hr
        have := invCR_takeRun hp xs x hx
        generalize takeRun p x xs = q at this
        obtain ⟨run, c', r'⟩ := q
        exact this
    · exact h

theorem invCR_takeRun_eq {c : Char} {p : Char → Bool} (hp : p c = false) {rest : List Char} {cur : Char}
    (h : InvCR P c tl cur rest) {run : List Char} {c' : Char} {r' : List Char}
    (hq : takeRun p cur rest = (run, c', r')) : InvCR P c tl c' r' := by
  have := invCR_takeRun hp rest cur h
  rw [hq] at this
  exact this

theorem inv_scanName {c : Char} (hn : isName c = false) {s : Scan} (h : Inv P c tl s) : Inv P c tl s.scanName.2 := by
  simp only [Scan.scanName]
  exact invCR_takeRun hn _ _ h

/-- the string scan over `l ++ c :: tl` (no quote `q` in `tl`): the literal is closed before `c`
(then `c` is still unread), or by `c` itself (`c` is the quote) -/
theorem scanStringAux_tail {c q : Char} (htl : q ∉ tl) : ∀ (l : List Char), (∀ x ∈ l, P x) →
    ∀ (str rest : List Char), scanStringAux q (l ++ c :: tl) = some (str, rest) →
    (rest = tl ∧ c = q) ∨ ∃ x xs, rest = x :: xs ∧ InvCR P c tl x xs
  | [], _, str, rest, h => by
    simp only [List.nil_append, scanStringAux] at h
    split at h
    · rename_i hq
      cases h
      exact Or.inl ⟨rfl, by simpa using hq⟩
    · rw [scanStringAux_none q tl htl] at h
      cases h
  | y :: l, hl, str, rest, h => by
    have hl2 : ∀ x ∈ l, P x := fun x hx => hl x (List.mem_cons_of_mem _ hx)
    simp only [List.cons_append] at h
    unfold scanStringAux at h
    split at h
    · cases h
      right
      cases l with
      | nil => exact ⟨c, tl, rfl, invCR_last c⟩
      | cons z l' => exact ⟨z, l' ++ c :: tl, rfl, z :: l', hl2, rfl⟩
    · split at h
      · rename_i s1 r1 hq
        cases h
        exact scanStringAux_tail htl l hl2 _ _ hq
      · cases h

/-! ## 2. One `nextItem` call -/

/-- hypotheses on the final character -/
structure Delim (c : Char) : Prop where
  nul : c ≠ '\x00'
  sp : isSpace c = false
  nm : isName c = false
  dg : isDigit c = false
  dot : c ≠ '.'
  colon : c ≠ ':'
  star : c ≠ '*'

/-- `c` consumed other than at a token start: as the second character of `<= >= != //`, or as the
closing quote of a string literal -/
def Special (P : Char → Prop) (c : Char) (t : Tok) : Prop :=
  (c = '=' ∧ (t = .le ∨ t = .ge ∨ t = .ne)) ∨ (c = '/' ∧ t = .slashslash) ∨
  ((c = '"' ∨ c = '\'') ∧ t = .string ∧ P c)

def Post2 (P : Char → Prop) (c : Char) (tl : List Char) (s' : Scan) : Prop :=
  (s'.typ ≠ .eof ∧ Inv P c tl s') ∨ (At tl s' ∧ Special P c s'.typ)

theorem ne_of_beq {a b c : Char} (h : (a == b) = true) (hc : c ≠ b) : a ≠ c := by
  have : a = b := by simpa using h
  subst this
  exact fun e => hc e.symm

set_option hygiene false in
macro "ifcase2 " t:term : tactic =>
  `(tactic| (by_cases hx : $t
             · rw [if_pos hx] at h; exact hsingle _ (by decide) _ h
             rw [if_neg hx] at h; clear hx))

theorem nextItem_post (hP : ∀ x, P x → x ≠ '\x00') {c : Char} (hc : Delim c) (htl : ∀ x ∈ tl, ¬ (x = '"' ∨ x = '\''))
    (s0 s' : Scan) (hi0 : Inv P c tl s0)
    (h : s0.nextItem = .ok s') :
    (s0.skipSpace.curr = c ∧ s0.skipSpace.rest = tl) ∨ Post2 P c tl s' := by
  have hi : Inv P c tl s0.skipSpace := inv_skipSpace hc.sp hi0
  by_cases hstart : s0.skipSpace.curr = c ∧ s0.skipSpace.rest = tl
  · exact Or.inl hstart
  refine Or.inr ?_
  unfold Scan.nextItem at h
  generalize s0.skipSpace = s at h hi hstart
  clear hi0
  have hne : s.curr ≠ '\x00' := invCR_ne_nul hP hc.nul hi
  obtain ⟨hPc, x, xs, hr, hxs⟩ : P s.curr ∧ ∃ x xs, s.rest = x :: xs ∧ InvCR P c tl x xs := by
    rcases invCR_cases hi with h1 | h2
    · exact absurd h1 hstart
    · exact h2
  extract_lets s_ adv single two cc s1 fin at h
  by_cases h0 : (cc == '\x00') = true
  · exact absurd (by simpa [cc] using h0) hne
  rw [if_neg h0] at h
  have hadv : ∀ t, Inv P c tl (adv { s with typ := t }) := fun t =>
    inv_nextChar_cons (s := { s with typ := t }) hr hxs
  have hsingle : ∀ t, t ≠ .eof → ∀ s', single t = .ok s' → Post2 P c tl s' := by
    intro t ht s' h
    cases h
    exact Or.inl ⟨by simpa [adv] using ht, hadv t⟩
  have htwo : ∀ t1 t2 c2, t1 ≠ .eof → t2 ≠ .eof → ∀ s', two t1 t2 c2 = .ok s' →
      (s'.typ ≠ .eof ∧ Inv P c tl s') ∨ (At tl s' ∧ c = c2 ∧ s'.typ = t2) := by
    intro t1 t2 c2 ht1 ht2 s' h
    simp only [two] at h
    split at h
    · rename_i heq
      cases h
      rcases inv_adv_or (s := { adv { s with typ := t1 } with typ := t2 }) (hadv t1) with ⟨e1, _, hd⟩ | hi2
      · refine Or.inr ⟨hd, ?_, by simp [adv]⟩
        have : (adv { s with typ := t1 }).curr = c2 := by simpa using heq
        exact e1.symm.trans this
      · exact Or.inl ⟨by simpa [adv] using ht2, hi2⟩
    · cases h
      exact Or.inl ⟨by simpa [adv] using ht1, hadv t1⟩
  ifcase2 (cc == ',') = true
  ifcase2 (cc == '@') = true
  ifcase2 (cc == '(') = true
  ifcase2 (cc == ')') = true
  ifcase2 (cc == '|') = true
  ifcase2 (cc == '*') = true
  ifcase2 (cc == '[') = true
  ifcase2 (cc == ']') = true
  ifcase2 (cc == '+') = true
  ifcase2 (cc == '-') = true
  ifcase2 (cc == '=') = true
  ifcase2 (cc == '$') = true
  by_cases hx : (cc == '#') = true
  · rw [if_pos hx] at h; cases h
  rw [if_neg hx] at h; clear hx
  by_cases hx : (cc == '<') = true
  · rw [if_pos hx] at h
    rcases htwo _ _ _ (by decide) (by decide) _ h with h | ⟨hd, he, ht⟩
    · exact Or.inl h
    · exact Or.inr ⟨hd, Or.inl ⟨he, Or.inl ht⟩⟩
  rw [if_neg hx] at h; clear hx
  by_cases hx : (cc == '>') = true
  · rw [if_pos hx] at h
    rcases htwo _ _ _ (by decide) (by decide) _ h with h | ⟨hd, he, ht⟩
    · exact Or.inl h
    · exact Or.inr ⟨hd, Or.inl ⟨he, Or.inr (Or.inl ht)⟩⟩
  rw [if_neg hx] at h; clear hx
  by_cases hx : (cc == '!') = true
  · rw [if_pos hx] at h
    rcases htwo _ _ _ (by decide) (by decide) _ h with h | ⟨hd, he, ht⟩
    · exact Or.inl h
    · exact Or.inr ⟨hd, Or.inl ⟨he, Or.inr (Or.inr ht)⟩⟩
  rw [if_neg hx] at h; clear hx
  by_cases hx : (cc == '/') = true
  · rw [if_pos hx] at h
    rcases htwo _ _ _ (by decide) (by decide) _ h with h | ⟨hd, he, ht⟩
    · exact Or.inl h
    · exact Or.inr ⟨hd, Or.inr (Or.inl ⟨he, ht⟩)⟩
  rw [if_neg hx] at h; clear hx
  clear hsingle htwo
  have hs1 : Inv P c tl s1 := hadv _
  have hs1t : s1.typ = .dot := by simp [s1, adv]
  by_cases hx : (cc == '.') = true
  · rw [if_pos hx] at h
    clear_value s1
    split at h
    · rename_i heq
      cases h
      refine Or.inl ⟨by simp [adv], ?_⟩
      exact inv_adv (s := { s1 with typ := .dotdot }) hs1 (ne_of_beq heq hc.dot)
    split at h
    · generalize hq : takeRun isDigit s1.curr s1.rest = q at h
      obtain ⟨run, c', r'⟩ := q
      simp only [] at h
      split at h
      · cases h
        exact Or.inl ⟨by simp, invCR_takeRun_eq hc.dg hs1 hq⟩
      · cases h
    · cases h
      exact Or.inl ⟨by simp [hs1t], hs1⟩
  rw [if_neg hx] at h; clear hx
  clear hs1 hs1t
  clear_value s1
  clear s1
  by_cases hx : (cc == '\"' || cc == '\'') = true
  · rw [if_pos hx] at h
    split at h
    · cases h
    · rename_i str rest hq
      cases h
      obtain ⟨l, hl, hxl⟩ := hxs
      have hq' : scanStringAux cc (l ++ c :: tl) = some (str, rest) := by
        rw [← hxl, ← hr]; exact hq
      have hcc : cc ∉ tl := fun hm => htl _ hm (by simpa using hx)
      rcases scanStringAux_tail hcc l hl _ _ hq' with ⟨hrest, hcq⟩ | ⟨y, ys, hrest, hy⟩
      · refine Or.inr ⟨nextChar_at (s := { s with typ := .string, strval := String.ofList str, rest := rest }) hrest, ?_⟩
        refine Or.inr (Or.inr ⟨?_, by simp [adv], hcq ▸ hPc⟩)
        rw [hcq]
        simpa using hx
      · exact Or.inl ⟨by simp [adv],
          inv_nextChar_cons (s := { s with typ := .string, strval := String.ofList str, rest := rest }) hrest hy⟩
  rw [if_neg hx] at h; clear hx
  by_cases hx : isDigit cc = true
  · rw [if_pos hx] at h
    generalize hq : takeRun isDigit cc s_.rest = q at h
    obtain ⟨ip, c1, r1⟩ := q
    have h1 : InvCR P c tl c1 r1 := invCR_takeRun_eq hc.dg hi hq
    simp only [] at h
    generalize hq2 : (if (c1 == '.') = true then
        match r1 with
        | [] => (['.'], '\x00', [])
        | x :: xs => match takeRun isDigit x xs with
          | (run, c', r') => ('.' :: run, c', r')
      else ([], c1, r1)) = q2 at h
    obtain ⟨fp, c2, r2⟩ := q2
    have h2 : InvCR P c tl c2 r2 := by
      split at hq2
      · rename_i heq
        rcases invCR_cases h1 with ⟨e1, _⟩ | ⟨_, y, ys, hr1, hy⟩
        · exact absurd e1 (ne_of_beq heq hc.dot)
        · subst hr1
          simp only [] at hq2
          generalize hq3 : takeRun isDigit y ys = q3 at hq2
          obtain ⟨run, c', r'⟩ := q3
          cases hq2
          exact invCR_takeRun_eq hc.dg hy hq3
      · cases hq2; exact h1
    simp only [] at h
    split at h
    · cases h
      exact Or.inl ⟨by simp, h2⟩
    · cases h
  rw [if_neg hx] at h; clear hx
  by_cases hx : isName cc = true
  · rw [if_pos hx] at h
    have hfin : ∀ x s', fin x = .ok s' → Inv P c tl x → s'.typ = x.typ ∧ Inv P c tl s' := by
      intro x s' h hx
      cases h
      exact ⟨rfl, inv_skipSpace hc.sp hx⟩
    clear_value fin
    generalize hq : s_.scanName = q at h
    obtain ⟨nm, s1⟩ := q
    have h1 : Inv P c tl s1 := by
      have := inv_scanName hc.nm hi
      rw [show s.scanName = (nm, s1) from hq] at this; exact this
    clear hq
    simp only [] at h
    split at h
    · rename_i heq1
      have hs2 : Inv P c tl (adv { s1 with typ := .name, name := nm, pfx := "" }) :=
        inv_adv (s := { s1 with typ := .name, name := nm, pfx := "" }) h1 (ne_of_beq heq1 hc.colon)
      split at h
      · rename_i heq2
        obtain ⟨ht, hr⟩ := hfin _ _ h (inv_adv (s := { adv { s1 with typ := .name, name := nm, pfx := "" } with typ := .axe }) hs2 (ne_of_beq heq2 hc.colon))
        exact Or.inl ⟨by rw [ht]; simp [adv], hr⟩
      · split at h
        · rename_i heq3
          obtain ⟨ht, hr⟩ := hfin _ _ h (inv_adv (s := { adv { s1 with typ := .name, name := nm, pfx := "" } with pfx := nm, name := "*" }) hs2 (ne_of_beq heq3 hc.star))
          exact Or.inl ⟨by rw [ht]; simp [adv], hr⟩
        · split at h
          · generalize hq : Scan.scanName _ = q at h
            obtain ⟨nm2, s3⟩ := q
            simp only [] at h
            have h3 : Inv P c tl s3 := by
              have := inv_scanName hc.nm (s := { adv { s1 with typ := .name, name := nm, pfx := "" } with pfx := nm }) hs2
              rw [hq] at this; exact this
            have h3t := (scanName_eq_le _ _ _ hq).1
            obtain ⟨ht, hr⟩ := hfin _ _ h h3
            exact Or.inl ⟨by rw [ht]; simp [adv, h3t], hr⟩
          · cases h
    · have hs2 : Inv P c tl ({ s1 with typ := .name, name := nm, pfx := "" } : Scan).skipSpace :=
        inv_skipSpace hc.sp (s := { s1 with typ := .name, name := nm, pfx := "" }) h1
      split at h
      · rename_i heq2
        have hs3 := inv_adv hs2 (ne_of_beq heq2 hc.colon)
        split at h
        · rename_i heq3
          obtain ⟨ht, hr⟩ := hfin _ _ h (inv_adv (s := { adv ({ s1 with typ := .name, name := nm, pfx := "" } : Scan).skipSpace with typ := .axe }) hs3 (ne_of_beq heq3 hc.colon))
          exact Or.inl ⟨by rw [ht]; simp [adv], hr⟩
        · cases h
      · obtain ⟨ht, hr⟩ := hfin _ _ h hs2
        exact Or.inl ⟨by rw [ht]; simp, hr⟩
  rw [if_neg hx] at h; clear hx
  cases h

/-! ## 3. The delimiter characters and their final tokens -/

/-- final character ↦ the tokens that can end the stream of a text ending with it.
`=` may complete `<= >= !=`, `/` may complete `//`, a quote can only close a literal (an opening
quote at the end is an error), `#` is always an error. -/
def lastTable : List (Char × List Tok) :=
  [(',', [.comma]), ('@', [.at]), ('(', [.lparen]), (')', [.rparen]), ('|', [.union]),
   ('[', [.lbracket]), (']', [.rbracket]), ('+', [.plus]), ('=', [.eq, .le, .ge, .ne]),
   ('$', [.dollar]), ('<', [.lt]), ('>', [.gt]), ('!', [.bang]), ('/', [.slash, .slashslash]),
   ('#', []), ('"', [.string]), ('\'', [.string])]

def delims : List Char := lastTable.map (·.1)

def lastToks (c : Char) : List Tok := (lastTable.lookup c).getD []

theorem delims_facts : ∀ c ∈ delims, c ≠ '\x00' ∧ isSpace c = false ∧ isName c = false ∧ isDigit c = false ∧
    c ≠ '.' ∧ c ≠ ':' ∧ c ≠ '*' := by decide

theorem delim_of_mem {c : Char} (h : c ∈ delims) : Delim c := by
  obtain ⟨a, b, c, d, e, f, g⟩ := delims_facts c h
  exact ⟨a, b, c, d, e, f, g⟩

theorem lastToks_ne_eof : ∀ c ∈ delims, ∀ t ∈ lastToks c, t ≠ .eof := by decide

abbrev isQuote (c : Char) : Prop := c = '"' ∨ c = '\''

theorem special_last {c : Char} {t : Tok} (h : Special P c t) : t ∈ lastToks c ∧ (isQuote c → P c) := by
  rcases h with ⟨rfl, rfl | rfl | rfl⟩ | ⟨rfl, rfl⟩ | ⟨rfl | rfl, rfl, hp⟩
  all_goals first
    | exact ⟨by decide, fun _ => hp⟩
    | exact ⟨by decide, fun h => absurd h (by decide)⟩

theorem atStart_nextItem {c : Char} (hD : c ∈ delims) (s s' : Scan) (h1 : s.skipSpace.curr = c)
    (h2 : s.skipSpace.rest = []) (h : s.nextItem = .ok s') : Done s' ∧ s'.typ ∈ lastToks c ∧ ¬ isQuote c := by
  unfold Scan.nextItem at h
  generalize s.skipSpace = t at h h1 h2
  obtain ⟨cur, rest, _, _, _, _, _, _⟩ := t
  simp only at h1 h2
  subst h1 h2
  simp only [delims, lastTable, List.map, List.mem_cons, List.not_mem_nil, or_false] at hD
  rcases hD with rfl | rfl | rfl | rfl | rfl | rfl | rfl | rfl | rfl | rfl | rfl | rfl | rfl | rfl | rfl | rfl | rfl <;>
    simp [Scan.nextChar, scanStringAux] at h <;> subst h <;> exact ⟨⟨rfl, rfl⟩, by simp only; decide, by decide⟩

/-- one `nextItem` call from a state whose unread input ends with the delimiter `c`: `c` is still
unread afterwards, or the text is consumed and the token just read is one of `lastToks c` -/
theorem nextItem_step (hP : ∀ x, P x → x ≠ '\x00') {c : Char} (hD : c ∈ delims) (s0 s' : Scan)
    (hi : Inv P c [] s0) (h : s0.nextItem = .ok s') :
    (s'.typ ≠ .eof ∧ Inv P c [] s') ∨ (Done s' ∧ s'.typ ∈ lastToks c ∧ (isQuote c → P c)) := by
  rcases nextItem_post hP (delim_of_mem hD) (tl := []) (by simp) s0 s' hi h with ⟨h1, h2⟩ | h1 | ⟨hd, hs⟩
  · obtain ⟨a, b, hq⟩ := atStart_nextItem hD s0 s' h1 h2 h
    exact Or.inr ⟨a, b, fun h => absurd h hq⟩
  · exact Or.inl h1
  · exact Or.inr ⟨hd, special_last hs⟩

/-! ## 4. The token stream of a text ending with a delimiter -/

/-- scanning fails somewhere ahead of `s` (before the end of the text is reached) -/
def FailsFrom (s : Scan) : Prop := ∃ u s1 e, Steps s u s1 ∧ s1.typ ≠ .eof ∧ s1.nextItem = .error e

/-- scanning the text fails: in `Scan.init` (the first token) or at a later `nextItem` -/
def ScanFails (text : List Char) : Prop :=
  (∃ e, Scan.init text = .error e) ∨ ∃ s, Scan.init text = .ok s ∧ FailsFrom s

theorem scanFails_rejected {text : List Char} (h : ScanFails text) (fuel : Nat) (cfg : PCfg) :
    ∃ e, parse fuel cfg text = .error e := by
  rcases h with ⟨e, he⟩ | ⟨s, hs, u, s1, e, hu, hne, herr⟩
  · exact ⟨_, parse_init_error he⟩
  · exact reject_scan_error fuel cfg hs hu hne herr

theorem done_nextItem {s : Scan} (hd : Done s) : ∃ s', s.nextItem = .ok s' ∧ s'.typ = .eof := by
  have h0 : s.skipSpace.curr = '\x00' := by
    have : isSpace '\x00' = false := by decide
    simp [Scan.skipSpace, skipSpaceAux, hd.1, hd.2, this, mkCR]
  refine ⟨{ s.skipSpace with typ := .eof }, ?_, rfl⟩
  unfold Scan.nextItem
  simp [h0]

theorem done_toks {s : Scan} (hd : Done s) (ht : s.typ ≠ .eof) : Toks s [s.typ, .eof] := by
  obtain ⟨s', h1, h2⟩ := done_nextItem hd
  exact Toks.cons ht h1 (Toks.eof h2)

theorem inv_remaining (hP : ∀ x, P x → x ≠ '\x00') {c : Char} (hc : c ≠ '\x00') {s : Scan} (h : Inv P c tl s) :
    0 < remaining s := by
  unfold remaining
  rw [invCR_length hP hc h]
  omega

theorem toks_tail (hP : ∀ x, P x → x ≠ '\x00') {c : Char} (hD : c ∈ delims) :
    ∀ (n : Nat) (s : Scan), remaining s ≤ n → Inv P c [] s → s.typ ≠ .eof →
    FailsFrom s ∨ ∃ u t, t ∈ lastToks c ∧ (isQuote c → P c) ∧ Toks s (u ++ [t, .eof])
  | 0, s, hn, hi, _ => by
    have := inv_remaining hP (delim_of_mem hD).nul hi
    omega
  | n+1, s, hn, hi, hne => by
    cases hq : s.nextItem with
    | error e => exact Or.inl ⟨[], s, e, Steps.nil _, hne, hq⟩
    | ok s' =>
      rcases nextItem_step hP hD s s' hi hq with ⟨hne', hi'⟩ | ⟨hd, hl, hpq⟩
      · have hlt : remaining s' < remaining s := by
          rcases nextItem_prog s s' hq with ⟨a, _⟩ | ⟨_, b⟩
          · exact absurd a hne'
          · exact b
        rcases toks_tail hP hD n s' (by omega) hi' hne' with ⟨u, s1, e, hu, h1, h2⟩ | ⟨u, t, ht, hpq, hu⟩
        · exact Or.inl ⟨_, s1, e, Steps.cons hne hq hu, h1, h2⟩
        · exact Or.inr ⟨s.typ :: u, t, ht, hpq, Toks.cons hne hq hu⟩
      · refine Or.inr ⟨[s.typ], s'.typ, hl, hpq, ?_⟩
        exact Toks.cons hne hq (done_toks hd (lastToks_ne_eof c hD _ hl))

theorem inv_init {c : Char} {pre : List Char} (hpre : ∀ x ∈ pre, P x) :
    Inv P c tl (({ rest := pre ++ c :: tl } : Scan).nextChar.1) := by
  cases pre with
  | nil => exact inv_nextChar_cons (s := { rest := [] ++ c :: tl }) rfl (invCR_last c)
  | cons y p => exact inv_nextChar_cons (s := { rest := y :: p ++ c :: tl }) rfl ⟨y :: p, hpre, rfl⟩

/-- general form with a predicate `P` on the characters before the last one -/
theorem last_char_tokens_P (hP : ∀ x, P x → x ≠ '\x00') {pre : List Char} {c : Char} (hpre : ∀ x ∈ pre, P x)
    (hD : c ∈ delims) :
    ScanFails (pre ++ [c]) ∨
      ∃ ts t, t ∈ lastToks c ∧ (isQuote c → P c) ∧ TextToks (pre ++ [c]) (ts ++ [t, .eof]) := by
  have hi := inv_init (c := c) (tl := []) hpre
  cases hq : Scan.init (pre ++ [c]) with
  | error e => exact Or.inl (Or.inl ⟨e, hq⟩)
  | ok s =>
    have hq' : (({ rest := pre ++ [c] } : Scan).nextChar.1).nextItem = .ok s := hq
    rcases nextItem_step hP hD _ s hi hq' with ⟨hne, hi'⟩ | ⟨hd, hl, hpq⟩
    · rcases toks_tail hP hD _ s (Nat.le_refl _) hi' hne with hf | ⟨u, t, ht, hpq, hu⟩
      · exact Or.inl (Or.inr ⟨s, hq, hf⟩)
      · exact Or.inr ⟨u, t, ht, hpq, s, hq, hu⟩
    · exact Or.inr ⟨[], s.typ, hl, hpq, s, hq, done_toks hd (lastToks_ne_eof c hD _ hl)⟩

/-- **last_char_token**, general form.  A text without U+0000 that ends with a delimiter character
`c` either fails to scan, or has a token stream ending with one of the tokens `lastToks c`.  No
assumption on `pre`. -/
theorem last_char_tokens {pre : List Char} {c : Char} (hpre : '\x00' ∉ pre) (hD : c ∈ delims) :
    ScanFails (pre ++ [c]) ∨ ∃ ts t, t ∈ lastToks c ∧ TextToks (pre ++ [c]) (ts ++ [t, .eof]) := by
  rcases last_char_tokens_P (P := fun x => x ≠ '\x00') (fun _ h => h) (pre := pre)
    (fun x hx e => hpre (e ▸ hx)) hD with h | ⟨ts, t, ht, _, h⟩
  · exact Or.inl h
  · exact Or.inr ⟨ts, t, ht, h⟩

/-- the characters that give exactly one possible final token -/
def simpleDelims : List Char := [',', '@', '(', ')', '|', '[', ']', '+', '$', '<', '>', '!']

/-- the token of a delimiter character at the end of the text (`<`, `>`, `!` look ahead one
character, which is the end marker) -/
def tokOf (c : Char) : Tok := (lastToks c).headD .eof

theorem simple_lastToks : ∀ c ∈ simpleDelims, c ∈ delims ∧ lastToks c = [tokOf c] := by decide

example : tokOf '[' = .lbracket ∧ tokOf '(' = .lparen ∧ tokOf ',' = .comma ∧ tokOf '@' = .at ∧
    tokOf '$' = .dollar ∧ tokOf '|' = .union ∧ tokOf '+' = .plus ∧ tokOf '<' = .lt ∧ tokOf '>' = .gt ∧
    tokOf '!' = .bang ∧ tokOf ')' = .rparen ∧ tokOf ']' = .rbracket := by decide

/-- **last_char_token**: for `c ∈ , @ ( ) | [ ] + $ < > !` -/
theorem last_char_token {pre : List Char} {c : Char} (hpre : '\x00' ∉ pre) (hc : c ∈ simpleDelims) :
    ScanFails (pre ++ [c]) ∨ ∃ ts, TextToks (pre ++ [c]) (ts ++ [tokOf c, .eof]) := by
  obtain ⟨hD, hl⟩ := simple_lastToks c hc
  rcases last_char_tokens hpre hD with h | ⟨ts, t, ht, h⟩
  · exact Or.inl h
  · rw [hl, List.mem_singleton] at ht
    subst ht
    exact Or.inr ⟨ts, h⟩

/-- text ending with `=`: the last token is `=`, `<=`, `>=` or `!=` -/
theorem last_char_eq {pre : List Char} (hpre : '\x00' ∉ pre) :
    ScanFails (pre ++ ['=']) ∨ ∃ ts t, t ∈ [Tok.eq, .le, .ge, .ne] ∧ TextToks (pre ++ ['=']) (ts ++ [t, .eof]) :=
  last_char_tokens hpre (by decide)

/-- text ending with `/`: the last token is `/` or `//` -/
theorem last_char_slash {pre : List Char} (hpre : '\x00' ∉ pre) :
    ScanFails (pre ++ ['/']) ∨ ∃ ts t, t ∈ [Tok.slash, .slashslash] ∧ TextToks (pre ++ ['/']) (ts ++ [t, .eof]) :=
  last_char_tokens hpre (by decide)

/-- text ending with `#`: scanning always fails -/
theorem last_char_hash {pre : List Char} (hpre : '\x00' ∉ pre) : ScanFails (pre ++ ['#']) := by
  rcases last_char_tokens hpre (c := '#') (by decide) with h | ⟨_, t, ht, _⟩
  · exact h
  · rw [show lastToks '#' = [] by decide] at ht; cases ht

/-- text ending with a quote: scanning fails (the quote opens a literal that is never closed, or
something else is wrong earlier), or the quote closes a literal and the stream ends with `string` -/
theorem last_char_quote {pre : List Char} {q : Char} (hpre : '\x00' ∉ pre) (hq : q = '"' ∨ q = '\'') :
    ScanFails (pre ++ [q]) ∨ ∃ ts, TextToks (pre ++ [q]) (ts ++ [.string, .eof]) := by
  rcases hq with rfl | rfl
  · rcases last_char_tokens hpre (c := '"') (by decide) with h | ⟨ts, t, ht, h⟩
    · exact Or.inl h
    · rw [show lastToks '"' = [.string] by decide, List.mem_singleton] at ht
      subst ht; exact Or.inr ⟨ts, h⟩
  · rcases last_char_tokens hpre (c := '\'') (by decide) with h | ⟨ts, t, ht, h⟩
    · exact Or.inl h
    · rw [show lastToks '\'' = [.string] by decide, List.mem_singleton] at ht
      subst ht; exact Or.inr ⟨ts, h⟩

/-! ## 5. Character-level C17: a text cut after a delimiter is rejected -/

/-- the delimiter characters all of whose possible final tokens are rejected by `reject_trailing` -/
def cutDelims : List Char := ['[', '(', ',', '@', '$', '|', '+', '=', '<', '>', '!', '#']

theorem cutDelims_facts : ∀ c ∈ cutDelims, c ∈ delims ∧ ∀ t ∈ lastToks c,
    t ∈ [Tok.lbracket, .lparen, .comma, .at, .dollar, .plus, .minus, .eq, .ne, .lt, .le, .gt, .ge,
      .union, .slashslash, .bang, .axe] := by decide

/-- **cut_after_delimiter_rejected**: a text (without U+0000) whose last character is one of
`[ ( , @ $ | + = < > ! #` is rejected by the parser — whatever precedes, for every fuel and
configuration.  (`=` covers the endings `<=`, `>=`, `!=`.) -/
theorem cut_after_delimiter_rejected {pre : List Char} {c : Char} (hpre : '\x00' ∉ pre)
    (hc : c ∈ cutDelims) (fuel : Nat) (cfg : PCfg) : ∃ e, parse fuel cfg (pre ++ [c]) = .error e := by
  obtain ⟨hD, hl⟩ := cutDelims_facts c hc
  rcases last_char_tokens hpre hD with h | ⟨ts, t, ht, h⟩
  · exact scanFails_rejected h fuel cfg
  · exact reject_trailing fuel cfg h (hl t ht)

/-! ## 5b. A text cut after `//` -/

theorem slashslash_at_end (s s' : Scan) (h1 : s.skipSpace.curr = '/') (h2 : s.skipSpace.rest = ['/'])
    (h : s.nextItem = .ok s') : Done s' ∧ s'.typ = .slashslash := by
  unfold Scan.nextItem at h
  generalize s.skipSpace = t at h h1 h2
  obtain ⟨cur, rest, _, _, _, _, _, _⟩ := t
  simp only at h1 h2
  subst h1 h2
  simp [Scan.nextChar] at h
  subst h
  exact ⟨⟨rfl, rfl⟩, rfl⟩

theorem slash_at_end (s : Scan) (h : At ['/'] s) : ∃ s', s.nextItem = .ok s' ∧ Done s' ∧ s'.typ = .slash := by
  have hsp : isSpace '/' = false := by decide
  have h1 : s.skipSpace.curr = '/' := by simp [Scan.skipSpace, skipSpaceAux, h.1, h.2, mkCR, hsp]
  have h2 : s.skipSpace.rest = [] := by simp [Scan.skipSpace, skipSpaceAux, h.1, h.2, mkCR, hsp]
  unfold Scan.nextItem
  generalize s.skipSpace = t at h1 h2
  obtain ⟨cur, rest, _, _, _, _, _, _⟩ := t
  simp only at h1 h2
  subst h1 h2
  simp [Scan.nextChar, At, mkCR]

theorem nextItem_step2 (hP : ∀ x, P x → x ≠ '\x00') (s0 s' : Scan) (hi : Inv P '/' ['/'] s0)
    (h : s0.nextItem = .ok s') :
    (s'.typ ≠ .eof ∧ Inv P '/' ['/'] s') ∨ (Done s' ∧ s'.typ = .slashslash) ∨
      (At ['/'] s' ∧ s'.typ = .slashslash) := by
  have hD : Delim '/' := delim_of_mem (by decide)
  rcases nextItem_post hP hD (tl := ['/']) (by decide) s0 s' hi h with ⟨h1, h2⟩ | h1 | ⟨ha, hs⟩
  · exact Or.inr (Or.inl (slashslash_at_end s0 s' h1 h2 h))
  · exact Or.inl h1
  · refine Or.inr (Or.inr ⟨ha, ?_⟩)
    rcases hs with ⟨e, _⟩ | ⟨_, e⟩ | ⟨e, _⟩
    · exact absurd e (by decide)
    · exact e
    · exact absurd e (by decide)

theorem toks_tail2 (hP : ∀ x, P x → x ≠ '\x00') :
    ∀ (n : Nat) (s : Scan), remaining s ≤ n → Inv P '/' ['/'] s → s.typ ≠ .eof →
    FailsFrom s ∨ ∃ u, Toks s (u ++ [.slashslash, .eof]) ∨ Toks s (u ++ [.slashslash, .slash, .eof])
  | 0, s, hn, hi, _ => by
    have := inv_remaining hP (c := '/') (by decide) hi
    omega
  | n+1, s, hn, hi, hne => by
    cases hq : s.nextItem with
    | error e => exact Or.inl ⟨[], s, e, Steps.nil _, hne, hq⟩
    | ok s' =>
      rcases nextItem_step2 hP s s' hi hq with ⟨hne', hi'⟩ | ⟨hd, ht⟩ | ⟨ha, ht⟩
      · have hlt : remaining s' < remaining s := by
          rcases nextItem_prog s s' hq with ⟨a, _⟩ | ⟨_, b⟩
          · exact absurd a hne'
          · exact b
        rcases toks_tail2 hP n s' (by omega) hi' hne' with ⟨u, s1, e, hu, h1, h2⟩ | ⟨u, hu | hu⟩
        · exact Or.inl ⟨_, s1, e, Steps.cons hne hq hu, h1, h2⟩
        · exact Or.inr ⟨s.typ :: u, Or.inl (Toks.cons hne hq hu)⟩
        · exact Or.inr ⟨s.typ :: u, Or.inr (Toks.cons hne hq hu)⟩
      · refine Or.inr ⟨[s.typ], Or.inl ?_⟩
        have := done_toks hd (by rw [ht]; decide)
        rw [ht] at this
        exact Toks.cons hne hq this
      · refine Or.inr ⟨[s.typ], Or.inr ?_⟩
        obtain ⟨s'', hq', hd', ht'⟩ := slash_at_end s' ha
        have h1 := done_toks hd' (by rw [ht']; decide)
        rw [ht'] at h1
        have h2 := Toks.cons (by rw [ht]; decide) hq' h1
        rw [ht] at h2
        exact Toks.cons hne hq h2

/-- a text ending with `//`: scanning fails, or the stream ends with `//` or with `// /` (as in `a///`) -/
theorem last_two_slashes {pre : List Char} (hpre : '\x00' ∉ pre) :
    ScanFails (pre ++ ['/', '/']) ∨ ∃ ts, TextToks (pre ++ ['/', '/']) (ts ++ [.slashslash, .eof]) ∨
      TextToks (pre ++ ['/', '/']) (ts ++ [.slashslash, .slash, .eof]) := by
  have hP : ∀ x, (fun x => x ≠ '\x00') x → x ≠ '\x00' := fun _ h => h
  have hi := inv_init (P := fun x => x ≠ '\x00') (c := '/') (tl := ['/']) (pre := pre)
    (fun x hx e => hpre (e ▸ hx))
  cases hq : Scan.init (pre ++ ['/', '/']) with
  | error e => exact Or.inl (Or.inl ⟨e, hq⟩)
  | ok s =>
    have hq' : (({ rest := pre ++ ['/', '/'] } : Scan).nextChar.1).nextItem = .ok s := hq
    rcases nextItem_step2 hP _ s hi hq' with ⟨hne, hi'⟩ | ⟨hd, ht⟩ | ⟨ha, ht⟩
    · rcases toks_tail2 hP _ s (Nat.le_refl _) hi' hne with hf | ⟨u, hu | hu⟩
      · exact Or.inl (Or.inr ⟨s, hq, hf⟩)
      · exact Or.inr ⟨u, Or.inl ⟨s, hq, hu⟩⟩
      · exact Or.inr ⟨u, Or.inr ⟨s, hq, hu⟩⟩
    · refine Or.inr ⟨[], Or.inl ⟨s, hq, ?_⟩⟩
      have := done_toks hd (by rw [ht]; decide)
      rw [ht] at this
      exact this
    · refine Or.inr ⟨[], Or.inr ⟨s, hq, ?_⟩⟩
      obtain ⟨s'', hq', hd', ht'⟩ := slash_at_end s ha
      have h1 := done_toks hd' (by rw [ht']; decide)
      rw [ht'] at h1
      have h2 := Toks.cons (by rw [ht]; decide) hq' h1
      rw [ht] at h2
      exact h2

/-- **cut after `//`**: a text (without U+0000) ending with `//` is rejected -/
theorem cut_after_slashslash_rejected {pre : List Char} (hpre : '\x00' ∉ pre) (fuel : Nat) (cfg : PCfg) :
    ∃ e, parse fuel cfg (pre ++ ['/', '/']) = .error e := by
  rcases last_two_slashes hpre with h | ⟨ts, h | h⟩
  · exact scanFails_rejected h fuel cfg
  · exact reject_trailing fuel cfg h (by decide)
  · exact reject_trailing_slash fuel cfg (pre := ts) (t := .slashslash) h rfl

/-! ## 6. A quote as the last character -/

/-- the scanner meets the final character `q`, a quote, at a token start (after skipping spaces
the unread input is exactly `[q]`): `nextItem` fails with `unclosedString` -/
theorem quote_at_end_nextItem {q : Char} (hq : isQuote q) (s1 : Scan) (h1 : s1.skipSpace.curr = q)
    (h2 : s1.skipSpace.rest = []) : s1.nextItem = .error .unclosedString :=
  nextItem_unclosed s1 (by rw [h1]; exact hq) (by rw [h1, h2]; rfl)

/-- **cut_after_quote_rejected** (opening quote at the end).  If scanning the text reaches, by
successful `nextItem` calls, a state `s1` at which the unread input is — after spaces — exactly the
quote `q` (that is: the final `q` is at a token start, it *opens* a literal), the text is rejected,
for every fuel and configuration. -/
theorem cut_after_quote_rejected {text : List Char} {q : Char} (hq : isQuote q) {s s1 : Scan} {u : List Tok}
    (hs : Scan.init text = .ok s) (hu : Steps s u s1) (hne : s1.typ ≠ .eof)
    (h1 : s1.skipSpace.curr = q) (h2 : s1.skipSpace.rest = []) (fuel : Nat) (cfg : PCfg) :
    s1.nextItem = .error .unclosedString ∧ ∃ e, parse fuel cfg text = .error e :=
  ⟨quote_at_end_nextItem hq s1 h1 h2,
   reject_scan_error fuel cfg hs hu hne (quote_at_end_nextItem hq s1 h1 h2)⟩

/-- the same when the quote is the first token of the text -/
theorem cut_after_quote_first {text : List Char} {q : Char} (hq : isQuote q)
    (h1 : (({ rest := text } : Scan).nextChar.1).skipSpace.curr = q)
    (h2 : (({ rest := text } : Scan).nextChar.1).skipSpace.rest = []) (fuel : Nat) (cfg : PCfg) :
    parse fuel cfg text = .error (.scan .unclosedString) :=
  parse_init_error (quote_at_end_nextItem hq _ h1 h2)

/-- **general statement for a final quote**: the text `pre ++ [q]` fails to scan, or `q` closes a
literal: the stream ends with `string` and the same quote character occurs in `pre`
(`last_char_quote` is the version without the occurrence clause) -/
theorem last_char_quote_closes {pre : List Char} {q : Char} (hpre : '\x00' ∉ pre) (hq : isQuote q) :
    ScanFails (pre ++ [q]) ∨ (q ∈ pre ∧ ∃ ts, TextToks (pre ++ [q]) (ts ++ [.string, .eof])) := by
  by_cases hm : q ∈ pre
  · rcases last_char_quote hpre hq with h | h
    · exact Or.inl h
    · exact Or.inr ⟨hm, h⟩
  · refine Or.inl ?_
    have hD : q ∈ delims := by rcases hq with rfl | rfl <;> decide
    rcases last_char_tokens_P (P := fun x => x ≠ '\x00' ∧ x ≠ q) (fun _ h => h.1) (pre := pre)
      (fun x hx => ⟨fun e => hpre (e ▸ hx), fun e => hm (e ▸ hx)⟩) hD with h | ⟨_, _, _, hp, _⟩
    · exact h
    · exact absurd rfl (hp hq).2

/-- **cut after an opening quote**, character level: a text (without U+0000) whose last character
is a quote that does not occur before is rejected -/
theorem cut_after_fresh_quote_rejected {pre : List Char} {q : Char} (hpre : '\x00' ∉ pre) (hq : isQuote q)
    (hfresh : q ∉ pre) (fuel : Nat) (cfg : PCfg) : ∃ e, parse fuel cfg (pre ++ [q]) = .error e := by
  rcases last_char_quote_closes hpre hq with h | ⟨hm, _⟩
  · exact scanFails_rejected h fuel cfg
  · exact absurd hm hfresh

/-! ## 6b. The truncation form of C17 -/

/-- **C17, truncation form** (the corrected `Theorems.C17.C17TruncationStatement`, for the
characters `[ ( , @ $ | + = < > ! #` instead of `[ ( , /`): cutting any text (without U+0000; it
need not even be valid) just after one of these characters gives a text that the parser rejects,
for every fuel and configuration. -/
theorem truncation_rejected (cfg : PCfg) (text : List Char) (hnul : '\x00' ∉ text) (cut : Nat) (hcut : 0 < cut)
    (hc : ∃ c, text[cut - 1]? = some c ∧ c ∈ cutDelims) (fuel : Nat) :
    ∃ e, parse fuel cfg (text.take cut) = .error e := by
  obtain ⟨c, hget, hc⟩ := hc
  obtain ⟨k, rfl⟩ : ∃ k, cut = k + 1 := ⟨cut - 1, by omega⟩
  simp only [Nat.add_sub_cancel] at hget
  have htake : text.take (k + 1) = text.take k ++ [c] := by
    rw [List.take_add_one, hget]; rfl
  rw [htake]
  exact cut_after_delimiter_rejected (fun h => hnul (List.mem_of_mem_take h)) hc fuel cfg

/-- the same for a cut after `//` -/
theorem truncation_slashslash_rejected (cfg : PCfg) (text : List Char) (hnul : '\x00' ∉ text) (cut : Nat)
    (h1 : text[cut]? = some '/') (h2 : text[cut + 1]? = some '/') (fuel : Nat) :
    ∃ e, parse fuel cfg (text.take (cut + 2)) = .error e := by
  have htake : text.take (cut + 2) = text.take cut ++ ['/', '/'] := by
    rw [List.take_add_one, List.take_add_one, h1, h2]; simp
  rw [htake]
  exact cut_after_slashslash_rejected (fun h => hnul (List.mem_of_mem_take h)) fuel cfg

/-- the same for a cut after a quote that does not occur before (an opening quote) -/
theorem truncation_quote_rejected (cfg : PCfg) (text : List Char) (hnul : '\x00' ∉ text) (cut : Nat) {q : Char}
    (hq : isQuote q) (hget : text[cut]? = some q) (hfresh : q ∉ text.take cut) (fuel : Nat) :
    ∃ e, parse fuel cfg (text.take (cut + 1)) = .error e := by
  have htake : text.take (cut + 1) = text.take cut ++ [q] := by
    rw [List.take_add_one, hget]; rfl
  rw [htake]
  exact cut_after_fresh_quote_rejected (fun h => hnul (List.mem_of_mem_take h)) hq hfresh fuel cfg

/-! ## 7. Examples (non-vacuity) -/
section examples

/-- delimiter at the end, both outcomes of `last_char_token` occur:
`a[` scans to `name lbracket eof`; in `a['[` the bracket is inside an unclosed literal -/
example : textToksFuel 10 "a[" = some [.name, .lbracket, .eof] := by decide
example : textToksFuel 10 "f(" = some [.name, .lparen, .eof] := by decide
example : textToksFuel 10 "f(1," = some [.name, .lparen, .number, .comma, .eof] := by decide
example : textToksFuel 10 "a<=" = some [.name, .le, .eof] := by decide
example : textToksFuel 10 "a<" = some [.name, .lt, .eof] := by decide
example : textToksFuel 10 "a['b'" = some [.name, .lbracket, .string, .eof] := by decide
example : textScanFails 10 "a['[" = true := by decide
example : textScanFails 10 "a:[" = true := by decide
example : textScanFails 10 "a['" = true := by decide

theorem ex_scanFails_in_literal : ScanFails "a['[".toList := by
  have h : textScanFails 10 "a['[" = true := by decide
  unfold textScanFails at h
  split at h
  · rename_i e he; exact Or.inl ⟨e, he⟩
  · rename_i s hs; exact Or.inr ⟨s, hs, scanFailsFuel_sound _ _ h⟩

theorem ex_cut_bracket_in_literal (fuel : Nat) (cfg : PCfg) : ∃ e, parse fuel cfg "a['[".toList = .error e :=
  cut_after_delimiter_rejected (pre := "a['".toList) (c := '[') (by decide) (by decide) fuel cfg

theorem ex_cut_bracket (fuel : Nat) (cfg : PCfg) : ∃ e, parse fuel cfg "a[".toList = .error e :=
  cut_after_delimiter_rejected (pre := "a".toList) (c := '[') (by decide) (by decide) fuel cfg

theorem ex_cut_paren (fuel : Nat) (cfg : PCfg) : ∃ e, parse fuel cfg "f(".toList = .error e :=
  cut_after_delimiter_rejected (pre := "f".toList) (c := '(') (by decide) (by decide) fuel cfg

theorem ex_cut_comma (fuel : Nat) (cfg : PCfg) : ∃ e, parse fuel cfg "f(1,".toList = .error e :=
  cut_after_delimiter_rejected (pre := "f(1".toList) (c := ',') (by decide) (by decide) fuel cfg

theorem ex_cut_le (fuel : Nat) (cfg : PCfg) : ∃ e, parse fuel cfg "a <=".toList = .error e :=
  cut_after_delimiter_rejected (pre := "a <".toList) (c := '=') (by decide) (by decide) fuel cfg

theorem ex_cut_quote (fuel : Nat) (cfg : PCfg) : ∃ e, parse fuel cfg "a[b='".toList = .error e :=
  cut_after_fresh_quote_rejected (pre := "a[b=".toList) (q := '\'') (by decide) (by decide) (by decide) fuel cfg

theorem ex_cut_slashslash (fuel : Nat) (cfg : PCfg) : ∃ e, parse fuel cfg "a//".toList = .error e :=
  cut_after_slashslash_rejected (pre := "a".toList) (by decide) fuel cfg

theorem ex_cut_slashslashslash (fuel : Nat) (cfg : PCfg) : ∃ e, parse fuel cfg "a///".toList = .error e :=
  cut_after_slashslash_rejected (pre := "a/".toList) (by decide) fuel cfg

example : textToksFuel 10 "a///" = some [.name, .slashslash, .slash, .eof] := by decide

/-- `a[b='c']/d[` cut from the valid `a[b='c']/d[1]` -/
theorem ex_truncation (fuel : Nat) (cfg : PCfg) :
    ∃ e, parse fuel cfg ("a[b='c']/d[1]".toList.take 11) = .error e :=
  truncation_rejected cfg _ (by decide) 11 (by decide) ⟨'[', by decide, by decide⟩ fuel

example : (parse 100 (defaultCfg none) "a[b='c']/d[1]".toList).isOk = true := by decide +kernel

/-- a final quote that closes a literal is of course accepted -/
example : (parse 100 (defaultCfg none) "a[b='c']".toList).isOk = true := by decide +kernel
example : (parse 100 (defaultCfg none) "'c'".toList).isOk = true := by decide +kernel

/-- why `-`, `*`, `/`, `.` and `:` are not in `cutDelims`: `a-` is a name, `a/*`, `/`, `.` are valid -/
example : isName '-' = true := by decide
example : (parse 100 (defaultCfg none) "a-".toList).isOk = true := by decide +kernel
example : (parse 100 (defaultCfg none) "a/*".toList).isOk = true := by decide +kernel
example : (parse 100 (defaultCfg none) "/".toList).isOk = true := by decide +kernel
example : (parse 100 (defaultCfg none) ".".toList).isOk = true := by decide +kernel

end examples

section axioms
end axioms

end XPathV.Lemmas.ScanTail
