import XPathV.Lemmas.Whitespace.Boundary
import XPathV.Lemmas.Whitespace.Parse
import XPathV.Lemmas.Whitespace.FuelStable
import XPathV.Lemmas.Whitespace.Complete
import XPathV.Lemmas.Whitespace.Examples
import XPathV.Lemmas.ParserFull
import XPathV.Lemmas.FullGrammarComplete
/-!
# C10, second clause — inserting or removing optional whitespace between tokens never changes the meaning

Proved about the model (`Model/Scanner.lean`, `Model/Parser.lean`).  Whitespace: the characters
`Scan.skipSpace` skips (`isSpace` = Go's `unicode.IsSpace`; `Blank ws`).

* **Token boundary** — `LexPrefix u v` (`Whitespace/Boundary.lean`; `Boundary` is an alias): `u` is made of
  complete scanner items (`Lexeme`, `Whitespace/Lexeme.lean`: one constructor per kind of token, with the
  condition on the following character that ends the token) with blanks before/between/after them, or `u` ends in
  the optional blanks between an axis name and its `::`.  Walk lemmas: `LexPrefix.start`, `.snoc` (over a
  lexeme), `.shift` (over blanks), `.axisGap`; `.insert_left/.insert_right`: still boundaries after the insertion.
* **Scanner level** — `tokVs_insert_blanks : LexPrefix u v → Blank ws → AsciiHead ws →
  tokVs (u ++ ws ++ v) = tokVs (u ++ v)` (`some` of the same list or both `none`); `tokVs_remove_blanks`.
  The look-ahead after a name (over blanks, for `(` and `::`) is part of `Lexeme.name` / `Lexeme.axis` /
  `LexPrefix.axisGap`.  `AsciiHead ws`: only needed directly behind a name (`Examples.nbsp_after_name`).
* **Completeness of the boundaries** (ASCII texts) — `scan_positions_are_boundaries`
  (`Whitespace/Complete.lean`, from `itemBody_inv`: every item the scanner returns is a `Lexeme`): every position
  between two items of a successful scanner run is a `LexPrefix` boundary; `tokVs_insert_blanks_at_scanner_position`.
* **Parser level, every fuel and configuration** — `parse_insert_blanks :
  parse fuel cfg (u ++ ws ++ v) = .ok a ↔ parse fuel cfg (u ++ v) = .ok a` (the same `Ast`, not only up to
  `normConv`; grammatical or not), from `parse_eq_of_sync` (`Whitespace/Parse.lean`): the parser model sees a text
  only through the scanner's tokens.  With `Compile`'s fuel: `parse_insert_blanks_fuelFor`
  (`Whitespace/FuelStable.lean`: more fuel never changes a result that is not the out-of-fuel error).
* **Meaning level** — `same_tokens_same_tree`, `whitespace_insertion_preserves_tree`,
  `whitespace_insertion_same_grammar_tree`.
* `Whitespace/Examples.lean`: concrete texts, and the non-optional blanks (`a b`, `/ /`, `1 .5`, `! =`, `. .`,
  `: :`, `p :a`, `a -b` vs `a-b`, NBSP behind a name).
-/
namespace XPathV.Whitespace
open XPathV XPathV.Model XPathV.Bridge XPathV.Spec.Full
open XPathV.BuildRejects (start plainName localPart)
open XPathV.Lemmas.ParserFull (nesting full_complete_tokVs)

/-! ## 1. parser level: every fuel, every configuration -/

/-- **Blanks inserted at a token boundary do not change what the parser model does**: the text with the
blanks is accepted iff the text without them is, and with the same tree (syntactically the same `Ast`). -/
theorem parse_insert_blanks {u v ws : List Char} (hb : LexPrefix u v) (hws : Blank ws) (ha : AsciiHead ws)
    (fuel : Nat) (cfg : PCfg) (a : Ast) :
    parse fuel cfg (u ++ ws ++ v) = .ok a ↔ parse fuel cfg (u ++ v) = .ok a := by
  have hs : Sync (start (u ++ v)) (start (u ++ ws ++ v)) := by
    rw [List.append_assoc]
    exact hb.sync hws ha _ _ rfl (BuildRejects.skipSpace_at (BuildRejects.start_at _))
      (BuildRejects.skipSpace_at (BuildRejects.start_at _))
  exact (parse_eq_of_sync fuel cfg hs a).symm

theorem fuelFor_mono {t t' : List Char} (h : t.length ≤ t'.length) : fuelFor t ≤ fuelFor t' := by
  unfold fuelFor; omega

/-- the same with the fuel `Compile` uses (`fuelFor`, which grows with the text) and the library's
configuration -/
theorem parse_insert_blanks_fuelFor {u v ws : List Char} (hb : LexPrefix u v) (hws : Blank ws) (ha : AsciiHead ws)
    (ns : Option NsMap) (a : Ast) :
    parse (fuelFor (u ++ ws ++ v)) (defaultCfg ns) (u ++ ws ++ v) = .ok a ↔
      parse (fuelFor (u ++ v)) (defaultCfg ns) (u ++ v) = .ok a := by
  have hle : fuelFor (u ++ v) ≤ fuelFor (u ++ ws ++ v) := fuelFor_mono (by simp)
  rw [parse_insert_blanks hb hws ha, FuelStable.parse_fuelFor_stable ns (u ++ v) hle]


/-- removal is the same statement read from right to left: blanks that stand at a token boundary of the
text without them may be removed -/
theorem tokVs_remove_blanks {u v ws : List Char} (hb : LexPrefix u v) (hws : Blank ws) (ha : AsciiHead ws) :
    tokVs (u ++ v) = tokVs (u ++ ws ++ v) := (tokVs_insert_blanks hb hws ha).symm

/-- ASCII blanks (tab, line feed, vertical tab, form feed, carriage return, space) anywhere at a boundary;
XPath's own white space `S` is `#x20 | #x9 | #xD | #xA` -/
theorem tokVs_insert_ascii_blanks {u v ws : List Char} (hb : LexPrefix u v)
    (hws : ∀ c ∈ ws, c ∈ ['\t', '\n', '\x0b', '\x0c', '\r', ' ']) : tokVs (u ++ ws ++ v) = tokVs (u ++ v) := by
  have hall : ∀ c ∈ ['\t', '\n', '\x0b', '\x0c', '\r', ' '], isSpace c = true ∧ c.toNat < 0x80 := by decide
  refine tokVs_insert_blanks hb (fun c hc => (hall c (hws c hc)).1) ?_
  intro c hc
  cases ws with
  | nil => cases hc
  | cons x ws =>
    simp only [List.head?_cons, Option.some.injEq] at hc
    subst hc
    exact (hall _ (hws _ (List.mem_cons_self ..))).2

/-! ## 2. meaning level -/

/-- two texts with the same token stream, which the XPath 1.0 grammar derives with a tree `b` nesting
fewer than 200 deep: the model parser accepts both, with trees equal to `b` — hence to each other — up
to the representation conventions of `normConv` -/
theorem same_tokens_same_tree {ns : Option NsMap} {t1 t2 : List Char} {toks : List TokV} {b : Ast}
    (h1 : tokVs t1 = some toks) (h2 : tokVs t2 = some toks) (hp : Parses ns toks b) (hd : nesting b < 200) :
    ∃ a1 a2, parse (fuelFor t1) (defaultCfg ns) t1 = .ok a1 ∧ parse (fuelFor t2) (defaultCfg ns) t2 = .ok a2 ∧
      normConv a1 = normConv b ∧ normConv a2 = normConv b := by
  have href := refParseFull_iff.mpr hp
  obtain ⟨a1, p1, n1⟩ := full_complete_tokVs h1 href hd
  obtain ⟨a2, p2, n2⟩ := full_complete_tokVs h2 href hd
  exact ⟨a1, a2, p1, p2, n1, n2⟩

/-- **C10, second clause, for grammatical expressions**: if `u ++ v` is an expression of the XPath 1.0
grammar (its token stream `toks` derives the tree `b`, nesting fewer than 200 deep) and `(u, v)` is a
token boundary, then the text with blanks inserted there has the same token stream, and `Compile`'s
parser accepts both texts with one and the same tree `a` (syntactically equal), which is the grammar's
tree up to `normConv`. -/
theorem whitespace_insertion_preserves_tree {ns : Option NsMap} {u v ws : List Char} {toks : List TokV} {b : Ast}
    (hb : LexPrefix u v) (hws : Blank ws) (ha : AsciiHead ws)
    (ht : tokVs (u ++ v) = some toks) (hp : Parses ns toks b) (hd : nesting b < 200) :
    tokVs (u ++ ws ++ v) = some toks ∧
    ∃ a, parse (fuelFor (u ++ v)) (defaultCfg ns) (u ++ v) = .ok a ∧
      parse (fuelFor (u ++ ws ++ v)) (defaultCfg ns) (u ++ ws ++ v) = .ok a ∧ normConv a = normConv b := by
  have ht' : tokVs (u ++ ws ++ v) = some toks := by rw [tokVs_insert_blanks hb hws ha]; exact ht
  obtain ⟨a, p, n⟩ := full_complete_tokVs ht (refParseFull_iff.mpr hp) hd
  exact ⟨ht', a, p, (parse_insert_blanks_fuelFor hb hws ha ns a).mpr p, n⟩

/-- the grammar's tree is a function of the token stream (`Parses_unique`), so the expression with the
blanks is in the grammar exactly when the one without is, with the same tree -/
theorem whitespace_insertion_same_grammar_tree {ns : Option NsMap} {u v ws : List Char} (hb : LexPrefix u v)
    (hws : Blank ws) (ha : AsciiHead ws) (b : Ast) :
    (∃ toks, tokVs (u ++ ws ++ v) = some toks ∧ Parses ns toks b) ↔
      (∃ toks, tokVs (u ++ v) = some toks ∧ Parses ns toks b) := by
  rw [tokVs_insert_blanks hb hws ha]


/-! ## 3. every position between two items of a scanner run -/

/-- the name used in the statement of the property -/
abbrev Boundary (u v : List Char) : Prop := LexPrefix u v

/-- **Blanks may be inserted wherever the scanner stands between two items** (ASCII texts): after any
number of successful `nextItem` calls the text is `u ++ w` with the scanner in front of `w` (for a
name-like token: of `w` without its leading blanks, which it has skipped already), and blanks inserted
anywhere in the run of blanks `w` starts with — in particular directly behind the last token and directly
in front of the next one — do not change the token stream. -/
theorem tokVs_insert_blanks_at_scanner_position {text : List Char} (hasc : Ascii text) {s : Scan}
    (h : Items (start text) s) :
    ∃ u w, text = u ++ w ∧ (Lemmas.ScanTail.At w s ∨ Lemmas.ScanTail.At (w.dropWhile isSpace) s) ∧
      ∀ b v ws, w = b ++ v → Blank b → Blank ws → AsciiHead ws → tokVs (u ++ b ++ ws ++ v) = tokVs text := by
  obtain ⟨u, w, e, hat, hb⟩ := scan_positions_are_boundaries hasc h
  refine ⟨u, w, e, hat, fun b v ws ew hbl hws ha => ?_⟩
  rw [tokVs_insert_blanks (hb b v ew hbl) hws ha, e, ew, List.append_assoc]

end XPathV.Whitespace

