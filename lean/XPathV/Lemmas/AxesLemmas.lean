import XPathV.Lemmas.DocLemmas
import XPathV.Spec.Axes
import XPathV.Model.Engine
/-!
# The model's per-node walks are the specification's axes (on every well-formed document)
-/
namespace XPathV
open XPathV.Model

/-! ## Toolkit: strictly increasing lists are determined by their members -/

theorem sorted_ext : ∀ (l₁ l₂ : List Nat), l₁.Pairwise (· < ·) → l₂.Pairwise (· < ·) →
    (∀ x, x ∈ l₁ ↔ x ∈ l₂) → l₁ = l₂
  | [], [], _, _, _ => rfl
  | [], b :: l₂, _, _, h => by have := (h b).2 (by simp); simp at this
  | a :: l₁, [], _, _, h => by have := (h a).1 (by simp); simp at this
  | a :: l₁, b :: l₂, h₁, h₂, h => by
    rw [List.pairwise_cons] at h₁ h₂
    have hab : a = b := by
      have ha := (h a).1 (by simp)
      have hb := (h b).2 (by simp)
      simp only [List.mem_cons] at ha hb
      rcases ha with ha | ha
      · exact ha
      · rcases hb with hb | hb
        · exact hb.symm
        · have := h₁.1 b hb; have := h₂.1 a ha; omega
    subst hab
    congr 1
    apply sorted_ext l₁ l₂ h₁.2 h₂.2
    intro x
    constructor
    · intro hx
      have := (h x).1 (by simp [hx])
      simp only [List.mem_cons] at this
      rcases this with e | e
      · have := h₁.1 x hx; omega
      · exact e
    · intro hx
      have := (h x).2 (by simp [hx])
      simp only [List.mem_cons] at this
      rcases this with e | e
      · have := h₂.1 x hx; omega
      · exact e

theorem filter_range_eq (n : Nat) (P : Nat → Bool) (L : List Nat) (hs : L.Pairwise (· < ·))
    (hm : ∀ x, x ∈ L ↔ (x < n ∧ P x = true)) : (List.range n).filter P = L := by
  apply sorted_ext _ _ (List.Pairwise.filter _ List.pairwise_lt_range) hs
  intro x
  rw [List.mem_filter, List.mem_range, hm]

/-- the naive quadratic scan of the specification equals any strictly increasing index list with
the same members -/
theorem spec_filter_eq (d : Doc) (f : Ref → Bool) (L : List Nat) (hs : L.Pairwise (· < ·))
    (hm : ∀ x, x ∈ L ↔ (x < d.length ∧ f (.node x) = true)) :
    (allNodes d).filter f = L.map .node := by
  unfold allNodes
  rw [List.filter_map, filter_range_eq d.length (f ∘ Ref.node) L hs hm]

/-! ## Navigator moves on node references -/

/-- index-level `MoveToNext` -/
def nextOf (d : Doc) (c : Nat) : Option Nat :=
  if c < d.length ∧ endOf d c < d.length ∧ dep d (endOf d c) = dep d c then some (endOf d c)
  else none

theorem moveNext_node (d : Doc) (c : Nat) : Nav.moveNext d (.node c) = (nextOf d c).map .node := by
  unfold Nav.moveNext nextOf
  simp only
  split <;> rfl

theorem moveParent_node (d : Doc) (c : Nat) :
    Nav.moveParent d (.node c) = (parentFrom d (dep d c) c).map .node := rfl

theorem movePrev_node (d : Doc) (c : Nat) :
    Nav.movePrev d (.node c) = (prevFrom d (dep d c) c).map .node := rfl

theorem parent?_node (d : Doc) (c : Nat) :
    Spec.parent? d (.node c) = (parentFrom d (dep d c) c).map .node := rfl

theorem parent?_node_eq (d : Doc) (c p : Nat) :
    Spec.parent? d (.node c) = some (.node p) ↔ parentFrom d (dep d c) c = some p := by
  rw [parent?_node]
  cases parentFrom d (dep d c) c <;> simp

theorem lt_node (i j : Nat) : Ref.lt (.node i) (.node j) = true ↔ i < j := by
  simp [Ref.lt, Ref.ord]
  exact decide_eq_true_iff

/-! ## T3: ancestors -/

theorem ancestorsFrom_eq (d : Doc) (f : Nat) (r : Ref) :
    ancestorsFrom d f r = Spec.ancestorsFuel d f r := by
  induction f generalizing r with
  | zero => rfl
  | succ f ih =>
    simp only [ancestorsFrom, Spec.ancestorsFuel, Spec.parent?]
    cases Nav.moveParent d r with
    | none => rfl
    | some p => simp only [ih]

/-- T3 -/
theorem ancestors_spec (d : Doc) (r : Ref) : ancestorsM d r = Spec.ancestors d r :=
  ancestorsFrom_eq d _ r

/-! ## Sibling chains -/

/-- index-level `sibsFrom` -/
def sibsIdx (d : Doc) : Nat → Nat → List Nat
  | 0, _ => []
  | f+1, c => c :: match nextOf d c with
    | some n => sibsIdx d f n
    | none => []

theorem sibsFrom_node (d : Doc) (f c : Nat) :
    sibsFrom d f (.node c) = (sibsIdx d f c).map .node := by
  induction f generalizing c with
  | zero => rfl
  | succ f ih =>
    simp only [sibsFrom, sibsIdx, moveNext_node, List.map_cons]
    cases nextOf d c with
    | none => rfl
    | some n => simp only [Option.map_some, ih]

theorem nextOf_gt (d : Doc) (c n : Nat) (h : nextOf d c = some n) : n = endOf d c ∧ c < n := by
  unfold nextOf at h
  split at h
  · cases h; exact ⟨rfl, endOf_gt d c⟩
  · cases h

/-- the tail of a sibling chain -/
def restIdx (d : Doc) (f c : Nat) : List Nat :=
  match nextOf d c with
  | some n => sibsIdx d f n
  | none => []

theorem sibsIdx_succ (d : Doc) (f c : Nat) : sibsIdx d (f+1) c = c :: restIdx d f c := rfl

theorem restIdx_ge (d : Doc) (f c j : Nat) (h : j ∈ restIdx d f c) : endOf d c ≤ j := by
  induction f generalizing c with
  | zero =>
    unfold restIdx at h
    cases hn : nextOf d c with
    | none => simp [hn] at h
    | some n => simp [hn, sibsIdx] at h
  | succ f ih =>
    unfold restIdx at h
    cases hn : nextOf d c with
    | none => simp [hn] at h
    | some n =>
      simp only [hn, sibsIdx_succ, List.mem_cons] at h
      obtain ⟨e, hlt⟩ := nextOf_gt d c n hn
      rcases h with h | h
      · omega
      · have := ih n h
        have := endOf_gt d n
        omega

/-- every later sibling starts at or after the end of the subtree of every earlier one -/
theorem sibsIdx_pairwise_end (d : Doc) (f c : Nat) :
    (sibsIdx d f c).Pairwise (fun a b => endOf d a ≤ b) := by
  induction f generalizing c with
  | zero => simp [sibsIdx]
  | succ f ih =>
    rw [sibsIdx_succ, List.pairwise_cons]
    refine ⟨fun j hj => restIdx_ge d f c j hj, ?_⟩
    unfold restIdx
    cases nextOf d c with
    | none => simp
    | some n => exact ih n

theorem sibsIdx_pairwise_lt (d : Doc) (f c : Nat) : (sibsIdx d f c).Pairwise (· < ·) :=
  (sibsIdx_pairwise_end d f c).imp (fun {a b} h => by have := endOf_gt d a; omega)

theorem restIdx_pairwise_end (d : Doc) (f c : Nat) :
    (restIdx d f c).Pairwise (fun a b => endOf d a ≤ b) := by
  have := sibsIdx_pairwise_end d (f+1) c
  rw [sibsIdx_succ, List.pairwise_cons] at this
  exact this.2

theorem restIdx_pairwise_lt (d : Doc) (f c : Nat) : (restIdx d f c).Pairwise (· < ·) :=
  (restIdx_pairwise_end d f c).imp (fun {a b} h => by have := endOf_gt d a; omega)

/-- Members of the chain after `c`, when `[c, e)` is a stretch of nodes at depth `≥ dep c`
closed by the end of the document or a shallower node: exactly the nodes of depth `dep c`. -/
theorem restIdx_mem (d : Doc) (e : Nat) (he : e ≤ d.length) :
    ∀ f c, c < e → e - (c+1) ≤ f →
      (∀ k, c ≤ k → k < e → dep d c ≤ dep d k) →
      (e = d.length ∨ dep d e < dep d c) →
      ∀ j, j ∈ restIdx d f c ↔ (c < j ∧ j < e ∧ dep d j = dep d c) := by
  intro f
  induction f with
  | zero =>
    intro c hce hf _ _ j
    have : restIdx d 0 c = [] := by
      unfold restIdx; cases nextOf d c <;> rfl
    rw [this]
    constructor
    · intro h; cases h
    · intro ⟨_, _, _⟩; omega
  | succ f ih =>
    intro c hce hf hin hat j
    unfold restIdx
    cases hn : nextOf d c with
    | none =>
      simp only [List.not_mem_nil, false_iff]
      intro ⟨h1, h2, h3⟩
      have hge : endOf d c ≤ j := by
        rcases Nat.lt_or_ge j (endOf d c) with h | h
        · have := endOf_inside d c j h1 h; omega
        · exact h
      have hlen : endOf d c < d.length := by omega
      have hat' := endOf_at d c hlen
      have hin' := hin (endOf d c) (by have := endOf_gt d c; omega) (by omega)
      unfold nextOf at hn
      split at hn
      · cases hn
      · rename_i hno
        exact hno ⟨by omega, hlen, by omega⟩
    | some n =>
      obtain ⟨hne, hcn⟩ := nextOf_gt d c n hn
      have hn' := hn
      unfold nextOf at hn'
      split at hn'
      · rename_i hyes
        obtain ⟨hc, hlen, hdep⟩ := hyes
        rw [← hne] at hlen hdep
        have hne' : n < e := by
          rcases Nat.lt_or_ge n e with h | h
          · exact h
          · rcases hat with hat | hat
            · omega
            · rcases Nat.lt_or_ge e n with h' | h'
              · have := endOf_inside d c e hce (by omega); omega
              · have : e = n := by omega
                subst this; omega
        have hf1 : 1 ≤ f + 1 := by omega
        simp only [sibsIdx_succ, List.mem_cons]
        rw [ih n hne' (by omega)
          (fun k h1 h2 => by have := hin k (by omega) h2; omega)
          (by rcases hat with h | h; exact Or.inl h; exact Or.inr (by omega)) j]
        constructor
        · intro h
          rcases h with h | ⟨h1, h2, h3⟩
          · subst h; exact ⟨hcn, hne', hdep⟩
          · exact ⟨by omega, h2, by omega⟩
        · intro ⟨h1, h2, h3⟩
          rcases Nat.lt_or_ge j n with h | h
          · have := endOf_inside d c j h1 (by omega); omega
          · rcases Nat.lt_or_ge n j with h' | h'
            · exact Or.inr ⟨h', h2, by omega⟩
            · exact Or.inl (by omega)
      · cases hn'

theorem sibsIdx_mem (d : Doc) (e : Nat) (he : e ≤ d.length) (f c : Nat) (hce : c < e)
    (hf : e - c ≤ f)
    (hin : ∀ k, c ≤ k → k < e → dep d c ≤ dep d k)
    (hat : e = d.length ∨ dep d e < dep d c) (j : Nat) :
    j ∈ sibsIdx d f c ↔ (c ≤ j ∧ j < e ∧ dep d j = dep d c) := by
  cases f with
  | zero => omega
  | succ f =>
    rw [sibsIdx_succ, List.mem_cons, restIdx_mem d e he f c hce (by omega) hin hat j]
    constructor
    · intro h
      rcases h with h | ⟨h1, h2, h3⟩
      · subst h; exact ⟨Nat.le_refl _, hce, rfl⟩
      · exact ⟨by omega, h2, h3⟩
    · intro ⟨h1, h2, h3⟩
      rcases Nat.lt_or_ge c j with h | h
      · exact Or.inr ⟨h, h2, h3⟩
      · exact Or.inl (by omega)

/-! ## T1 / T6: children -/

/-- the indices of the children of node `i`, as the engine enumerates them -/
def childIdx (d : Doc) (i : Nat) : List Nat :=
  if i + 1 < d.length ∧ dep d (i+1) = dep d i + 1 then sibsIdx d d.length (i+1) else []

theorem childrenM_node (d : Doc) (i : Nat) : childrenM d (.node i) = (childIdx d i).map .node := by
  by_cases h : i + 1 < d.length ∧ dep d (i+1) = dep d i + 1
  · simp only [childrenM, childIdx, Nav.moveChild, h, and_self, ↓reduceIte, sibsFrom_node]
  · simp only [childrenM, childIdx, Nav.moveChild, h, ↓reduceIte, List.map_nil]

theorem childIdx_mem {d : Doc} (wf : WF d) (i : Nat) (hi : i < d.length) (j : Nat) :
    j ∈ childIdx d i ↔ (i < j ∧ j < endOf d i ∧ dep d j = dep d i + 1) := by
  unfold childIdx
  have hle := endOf_le d i hi
  have hgt := endOf_gt d i
  split
  · rename_i hc
    obtain ⟨hc1, hc2⟩ := hc
    have hlt : i + 1 < endOf d i := by
      rcases Nat.lt_or_ge (i+1) (endOf d i) with h | h
      · exact h
      · have e : endOf d i = i + 1 := by omega
        have := endOf_at d i (by omega)
        rw [e] at this; omega
    rw [sibsIdx_mem d (endOf d i) hle d.length (i+1) hlt (by omega)
      (fun k h1 h2 => by have := endOf_inside d i k (by omega) h2; omega)
      (by
        rcases Nat.lt_or_ge (endOf d i) d.length with h | h
        · right; have := endOf_at d i h; omega
        · left; omega) j]
    rw [hc2]
    constructor
    · intro ⟨a, b, c⟩; exact ⟨by omega, b, c⟩
    · intro ⟨a, b, c⟩; exact ⟨by omega, b, c⟩
  · rename_i hc
    simp only [List.not_mem_nil, false_iff]
    intro ⟨h1, h2, h3⟩
    have hstep := (wf.step i (by omega)).2
    have hin := endOf_inside d i (i+1) (by omega) (by omega)
    have hd : dep d (i+1) = dep d i + 1 := by omega
    exact hc ⟨by omega, hd⟩

theorem parent_pred_iff {d : Doc} (wf : WF d) (i j : Nat) (hj : j < d.length) :
    (Spec.parent? d (.node j) == some (.node i)) = true ↔
      (i < j ∧ j < endOf d i ∧ dep d j = dep d i + 1) := by
  rw [beq_iff_eq, parent?_node_eq]
  constructor
  · intro h
    have hij := (parentFrom_some d _ _ _ h).1
    exact ⟨hij, (parent_iff_subtree wf i j hj hij).1 h⟩
  · intro ⟨h1, h2, h3⟩
    exact (parent_iff_subtree wf i j hj h1).2 ⟨h2, h3⟩

/-- T1: the child walk is the child axis, in document order -/
theorem children_spec {d : Doc} (wf : WF d) (i : Nat) (hi : i < d.length) :
    childrenM d (.node i) = Spec.children d (.node i) := by
  rw [childrenM_node]
  unfold Spec.children
  symm
  apply spec_filter_eq
  · unfold childIdx; split
    · exact sibsIdx_pairwise_lt d _ _
    · simp
  · intro x
    rw [childIdx_mem wf i hi]
    constructor
    · intro h
      have hx : x < d.length := by have := endOf_le d i hi; omega
      exact ⟨hx, (parent_pred_iff wf i x hx).2 h⟩
    · intro ⟨hx, h⟩
      exact (parent_pred_iff wf i x hx).1 h

/-- T6: the children are strictly increasing, inside the subtree interval of `i`, one level below,
and their subtrees are disjoint consecutive intervals (`endOf c₁ ≤ c₂` for every earlier `c₁`) -/
theorem children_sorted {d : Doc} (wf : WF d) (i : Nat) (hi : i < d.length) :
    childrenM d (.node i) = (childIdx d i).map .node ∧
    (childIdx d i).Pairwise (· < ·) ∧
    (∀ c ∈ childIdx d i, i < c ∧ c < endOf d i ∧ dep d c = dep d i + 1 ∧ endOf d c ≤ endOf d i) ∧
    (childIdx d i).Pairwise (fun c₁ c₂ => endOf d c₁ ≤ c₂) := by
  refine ⟨childrenM_node d i, ?_, ?_, ?_⟩
  · unfold childIdx; split
    · exact sibsIdx_pairwise_lt d _ _
    · simp
  · intro c hc
    obtain ⟨a, b, e⟩ := (childIdx_mem wf i hi c).1 hc
    exact ⟨a, b, e, endOf_nested d i c hi a b⟩
  · unfold childIdx; split
    · exact sibsIdx_pairwise_end d _ _
    · simp

/-! ## T4: the ancestor relation is interval containment -/

theorem anc_mem {d : Doc} (wf : WF d) (p : Nat) :
    ∀ f j, j < f → j < d.length →
      (Ref.node p ∈ Spec.ancestorsFuel d f (.node j) ↔ (p < j ∧ j < endOf d p)) := by
  intro f
  induction f with
  | zero => intro j h; omega
  | succ f ih =>
    intro j hjf hj
    simp only [Spec.ancestorsFuel, parent?_node]
    cases hq : parentFrom d (dep d j) j with
    | none =>
      simp only [Option.map_none, List.not_mem_nil, false_iff]
      intro ⟨h1, h2⟩
      have := parentFrom_none d _ _ hq p h1
      have := endOf_inside d p j h1 h2
      omega
    | some q =>
      simp only [Option.map_some, List.mem_cons, Ref.node.injEq]
      obtain ⟨hqj, hqe, hqn⟩ := parent_endOf wf q j hj hq
      obtain ⟨_, hqd, hqb⟩ := parentFrom_some d _ _ _ hq
      rw [ih q (by omega) (by omega)]
      constructor
      · intro h
        rcases h with h | ⟨h1, h2⟩
        · subst h; exact ⟨hqj, hqe⟩
        · have := endOf_nested d p q (by omega) h1 h2
          exact ⟨by omega, by omega⟩
      · intro ⟨h1, h2⟩
        have hdp := endOf_inside d p j h1 h2
        rcases Nat.lt_trichotomy p q with h | h | h
        · exact Or.inr ⟨h, by omega⟩
        · exact Or.inl h
        · have := hqb p h h1; omega

/-- T4 -/
theorem isAncestor_iff {d : Doc} (wf : WF d) (p j : Nat) (hj : j < d.length) :
    Spec.isAncestor d (.node p) (.node j) = true ↔ (p < j ∧ j < endOf d p) := by
  unfold Spec.isAncestor Spec.ancestors
  rw [List.contains_iff_mem]
  exact anc_mem wf p _ j (by omega) hj

/-! ## T2: the descendant walk -/

theorem climb_spec {d : Doc} (wf : WF d) (s i : Nat) (hs : s ≤ i) (hi : i < endOf d s)
    (hsn : s < d.length) :
    ∀ level k, s ≤ k → k ≤ i → endOf d k = i + 1 → dep d k = dep d s + level →
      climb d level (.node k) =
        if i + 1 < endOf d s then some (.node (i+1), dep d (i+1) - dep d s) else none := by
  intro level
  induction level with
  | zero =>
    intro k hsk hki hend hdep
    have hks : k = s := by
      rcases Nat.lt_or_ge s k with h | h
      · have := endOf_inside d s k h (by omega); omega
      · omega
    subst hks
    simp [climb, hend]
  | succ level ih =>
    intro k hsk hki hend hdep
    have hsk' : s < k := by
      rcases Nat.lt_or_ge s k with h | h
      · exact h
      · have : k = s := by omega
        subst this; omega
    have hn := endOf_le d s hsn
    have hkn : k < d.length := by omega
    simp only [climb, moveNext_node, nextOf, hend, moveParent_node]
    by_cases hnext : k < d.length ∧ i + 1 < d.length ∧ dep d (i+1) = dep d k
    · simp only [hnext, and_self, ↓reduceIte, Option.map_some]
      have : i + 1 < endOf d s := by
        rcases Nat.lt_or_ge (i+1) (endOf d s) with h | h
        · exact h
        · have h2 : endOf d s = i + 1 := by omega
          have := endOf_at d s (by omega)
          rw [h2] at this; omega
      simp only [this, ↓reduceIte]
      congr 2; omega
    · simp only [hnext, ↓reduceIte, Option.map_none]
      have hlow : i + 1 = d.length ∨ dep d (i+1) < dep d k := by
        rcases Nat.lt_or_ge (i+1) d.length with h | h
        · right
          have := endOf_at d k (by omega)
          rw [hend] at this
          rcases Nat.lt_or_ge (dep d (i+1)) (dep d k) with h3 | h3
          · exact h3
          · exact absurd ⟨hkn, h, by omega⟩ hnext
        · left; omega
      cases hp : parentFrom d (dep d k) k with
      | none =>
        have := parentFrom_none d (dep d k) k hp s hsk'
        omega
      | some p =>
        simp only [Option.map_some]
        obtain ⟨hpk, hpd, hbetween⟩ := parentFrom_some d _ _ _ hp
        have hsp : s ≤ p := by
          rcases Nat.lt_or_ge p s with h | h
          · have := hbetween s h hsk'; omega
          · exact h
        have hpdep : dep d p + 1 = dep d k := parent_depth wf k p hkn hp
        have hendp : endOf d p = i + 1 := by
          apply endOf_eq d p (i+1) (by omega) (by omega)
          · intro j hj1 hj2
            rcases Nat.lt_or_ge j k with h | h
            · have := hbetween j hj1 h; omega
            · rcases Nat.lt_or_ge k j with h' | h'
              · have := endOf_inside d k j h' (by omega); omega
              · have : j = k := by omega
                subst this; omega
          · rcases hlow with h | h
            · left; exact h
            · right; omega
        exact ih p hsp (by omega) hendp (by omega)

theorem stepD_spec {d : Doc} (wf : WF d) (s i : Nat) (hs : s ≤ i) (hi : i < endOf d s)
    (hsn : s < d.length) :
    stepD d (.node i) (dep d i - dep d s) =
      if i + 1 < endOf d s then some (.node (i+1), dep d (i+1) - dep d s) else none := by
  have hn := endOf_le d s hsn
  have hdi : dep d s ≤ dep d i := by
    rcases Nat.lt_or_ge s i with h | h
    · have := endOf_inside d s i h hi; omega
    · have : i = s := by omega
      subst this; exact Nat.le_refl _
  unfold stepD Nav.moveChild
  by_cases hc : i + 1 < d.length ∧ dep d (i+1) = dep d i + 1
  · simp only [hc, and_self, ↓reduceIte]
    have : i + 1 < endOf d s := by
      rcases Nat.lt_or_ge (i+1) (endOf d s) with h | h
      · exact h
      · have h2 : endOf d s = i + 1 := by omega
        have := endOf_at d s (by omega)
        rw [h2] at this; omega
    simp only [this, ↓reduceIte]
    congr 2; omega
  · simp only [hc, ↓reduceIte]
    apply climb_spec wf s i hs hi hsn _ i hs (Nat.le_refl _)
    · apply endOf_eq d i (i+1) (by omega) (by omega)
      · intro k h1 h2; omega
      · rcases Nat.lt_or_ge (i+1) d.length with h | h
        · right
          have := (wf.step i h).2
          rcases Nat.lt_or_ge (dep d i) (dep d (i+1)) with h3 | h3
          · exact absurd ⟨h, by omega⟩ hc
          · exact h3
        · left; omega
    · omega

/-- the Go descendant loop started inside the subtree of `s` enumerates the rest of the open
interval `(s, endOf s)` in order, and its level counter is the depth relative to `s` -/
theorem walkD_spec {d : Doc} (wf : WF d) (s : Nat) (hsn : s < d.length) :
    ∀ fuel i, s ≤ i → i < endOf d s → endOf d s - (i+1) ≤ fuel →
      walkD d fuel (.node i) (dep d i - dep d s) =
        (List.range' (i+1) (endOf d s - (i+1))).map (fun j => (Ref.node j, dep d j - dep d s)) := by
  intro fuel
  induction fuel with
  | zero =>
    intro i hs hi hf
    have : endOf d s - (i+1) = 0 := by omega
    simp [walkD, this]
  | succ f ih =>
    intro i hs hi hf
    simp only [walkD, stepD_spec wf s i hs hi hsn]
    by_cases h : i + 1 < endOf d s
    · simp only [h, ↓reduceIte]
      have e : endOf d s - (i+1) = (endOf d s - (i+1+1)) + 1 := by omega
      rw [e, List.range'_succ, List.map_cons]
      congr 1
      exact ih (i+1) (by omega) h (by omega)
    · simp only [h, ↓reduceIte]
      have : endOf d s - (i+1) = 0 := by omega
      simp [this]

theorem descM_eq {d : Doc} (wf : WF d) (i : Nat) (hi : i < d.length) :
    descM d (.node i) =
      (List.range' (i+1) (endOf d i - (i+1))).map (fun j => (Ref.node j, dep d j - dep d i)) := by
  have := walkD_spec wf i hi d.length i (Nat.le_refl _) (endOf_gt d i)
    (by have := endOf_le d i hi; omega)
  rw [Nat.sub_self] at this
  exact this

/-- T2 (intermediate): the descendant walk visits exactly the open interval `(i, endOf i)` in order -/
theorem desc_range {d : Doc} (wf : WF d) (i : Nat) (hi : i < d.length) :
    (descM d (.node i)).map (·.1) = (List.range' (i+1) (endOf d i - (i+1))).map Ref.node := by
  rw [descM_eq wf i hi, List.map_map]
  rfl

/-- T2 (intermediate): the level counter is the depth relative to the start node -/
theorem desc_level {d : Doc} (wf : WF d) (i : Nat) (hi : i < d.length) :
    ∀ rl ∈ descM d (.node i), rl.2 = dep d rl.1.idx - dep d i := by
  intro rl h
  rw [descM_eq wf i hi, List.mem_map] at h
  obtain ⟨j, _, rfl⟩ := h
  rfl

/-- T2: the descendant walk is the descendant axis, in document order -/
theorem desc_spec {d : Doc} (wf : WF d) (i : Nat) (hi : i < d.length) :
    (descM d (.node i)).map (·.1) = Spec.descendants d (.node i) := by
  rw [desc_range wf i hi]
  unfold Spec.descendants
  symm
  apply spec_filter_eq
  · exact List.pairwise_lt_range' 1
  · intro x
    rw [List.mem_range'_1]
    have hle := endOf_le d i hi
    have hgt := endOf_gt d i
    constructor
    · intro ⟨h1, h2⟩
      have hx : x < d.length := by omega
      exact ⟨hx, (isAncestor_iff wf i x hx).2 ⟨by omega, by omega⟩⟩
    · intro ⟨hx, h⟩
      have := (isAncestor_iff wf i x hx).1 h
      omega

/-! ## T5: following-sibling / preceding-sibling -/

theorem nextSibsM_node (d : Doc) (i : Nat) :
    nextSibsM d (.node i) = (restIdx d d.length i).map .node := by
  unfold nextSibsM restIdx
  rw [moveNext_node]
  cases nextOf d i with
  | none => rfl
  | some n => simp only [Option.map_some, sibsFrom_node]

theorem parent_none_zero {d : Doc} (wf : WF d) (i : Nat) (hi : i < d.length)
    (h : parentFrom d (dep d i) i = none) : i = 0 := by
  rcases Nat.eq_zero_or_pos i with h0 | h0
  · exact h0
  · obtain ⟨p, hp⟩ := parent_exists wf i h0 hi
    rw [hp] at h; cases h

theorem nextIdx_mem {d : Doc} (wf : WF d) (i : Nat) (hi : i < d.length) (x : Nat) :
    x ∈ restIdx d d.length i ↔
      (x < d.length ∧ (Ref.lt (.node i) (.node x) &&
        Spec.parent? d (.node x) == Spec.parent? d (.node i) &&
        (Spec.parent? d (.node i)).isSome) = true) := by
  rw [Bool.and_eq_true, Bool.and_eq_true, lt_node, beq_iff_eq]
  cases hq : parentFrom d (dep d i) i with
  | none =>
    have hpi : Spec.parent? d (.node i) = none := by rw [parent?_node, hq]; rfl
    have h0 := parent_none_zero wf i hi hq
    subst h0
    rw [hpi, restIdx_mem d d.length (Nat.le_refl _) d.length 0 hi (by omega)
      (fun k _ _ => by rw [wf.root.1]; exact Nat.zero_le _) (Or.inl rfl) x]
    simp only [Option.isSome_none, Bool.false_eq_true, and_false, iff_false]
    intro ⟨h1, h2, h3⟩
    have := wf.dep_pos x h1 h2
    have := wf.root.1
    omega
  | some p =>
    have hpi : Spec.parent? d (.node i) = some (.node p) := (parent?_node_eq d i p).2 hq
    obtain ⟨hpi1, hpi2, hpi3⟩ := parent_endOf wf p i hi hq
    have hdep := parent_depth wf i p hi hq
    have hple := endOf_le d p (by omega)
    rw [hpi, parent?_node_eq, restIdx_mem d (endOf d p) hple d.length i hpi2 (by omega)
      (fun k h1 h2 => by have := endOf_inside d p k (by omega) h2; omega)
      (by
        rcases Nat.lt_or_ge (endOf d p) d.length with h | h
        · right; have := endOf_at d p h; omega
        · left; omega) x]
    simp only [Option.isSome_some, and_true]
    constructor
    · intro ⟨h1, h2, h3⟩
      have hx : x < d.length := by omega
      exact ⟨hx, h1, (parent_iff_subtree wf p x hx (by omega)).2 ⟨h2, by omega⟩⟩
    · intro ⟨hx, h1, h2⟩
      have := (parent_iff_subtree wf p x hx (by omega)).1 h2
      exact ⟨h1, this.1, by omega⟩

/-- T5: the `MoveToNext` chain is the following-sibling axis, in document order -/
theorem nextSibs_spec {d : Doc} (wf : WF d) (i : Nat) (hi : i < d.length) :
    nextSibsM d (.node i) = Spec.followingSiblings d (.node i) := by
  rw [nextSibsM_node]
  unfold Spec.followingSiblings
  simp only [Ref.isAttr, Bool.false_eq_true, ↓reduceIte]
  symm
  apply spec_filter_eq
  · exact restIdx_pairwise_lt d _ _
  · exact nextIdx_mem wf i hi

/-- index-level `prevSibsFrom` -/
def prevIdx (d : Doc) : Nat → Nat → List Nat
  | 0, _ => []
  | f+1, c => match prevFrom d (dep d c) c with
    | some p => p :: prevIdx d f p
    | none => []

theorem prevSibsFrom_node (d : Doc) (f c : Nat) :
    prevSibsFrom d f (.node c) = (prevIdx d f c).map .node := by
  induction f generalizing c with
  | zero => rfl
  | succ f ih =>
    simp only [prevSibsFrom, prevIdx, movePrev_node]
    cases prevFrom d (dep d c) c with
    | none => rfl
    | some p => simp only [Option.map_some, ih, List.map_cons]

theorem prevIdx_lt (d : Doc) (f c j : Nat) (h : j ∈ prevIdx d f c) : j < c := by
  induction f generalizing c with
  | zero => simp [prevIdx] at h
  | succ f ih =>
    simp only [prevIdx] at h
    cases hp : prevFrom d (dep d c) c with
    | none => simp [hp] at h
    | some p =>
      simp only [hp, List.mem_cons] at h
      have := (prevFrom_some d _ _ _ hp).1
      rcases h with h | h
      · omega
      · have := ih p h; omega

theorem prevIdx_pairwise_gt (d : Doc) (f c : Nat) :
    (prevIdx d f c).Pairwise (fun a b => b < a) := by
  induction f generalizing c with
  | zero => simp [prevIdx]
  | succ f ih =>
    simp only [prevIdx]
    cases hp : prevFrom d (dep d c) c with
    | none => simp
    | some p =>
      simp only [List.pairwise_cons]
      exact ⟨fun j hj => prevIdx_lt d f p j hj, ih p⟩

/-- the `MoveToPrevious` chain from `c`: the earlier nodes of the same depth with no shallower
node in between -/
theorem prevIdx_mem (d : Doc) :
    ∀ f c, c ≤ f → ∀ j, j ∈ prevIdx d f c ↔
      (j < c ∧ dep d j = dep d c ∧ ∀ k, j < k → k < c → dep d c ≤ dep d k) := by
  intro f
  induction f with
  | zero =>
    intro c hc j
    simp only [prevIdx, List.not_mem_nil, false_iff]
    intro ⟨h, _⟩; omega
  | succ f ih =>
    intro c hc j
    simp only [prevIdx]
    cases hp : prevFrom d (dep d c) c with
    | none =>
      simp only [List.not_mem_nil, false_iff]
      intro ⟨h1, h2, h3⟩
      rcases prevFrom_none d _ _ hp with h | ⟨q, hq, hqd, hqb⟩
      · have := h j h1; omega
      · rcases Nat.lt_trichotomy j q with h | h | h
        · have := h3 q h hq; omega
        · subst h; omega
        · have := hqb j h h1; omega
    | some p =>
      obtain ⟨hpc, hpd, hpb⟩ := prevFrom_some d _ _ _ hp
      simp only [List.mem_cons]
      rw [ih p (by omega) j]
      constructor
      · intro h
        rcases h with h | ⟨h1, h2, h3⟩
        · subst h
          exact ⟨hpc, hpd, fun k a b => by have := hpb k a b; omega⟩
        · refine ⟨by omega, by omega, ?_⟩
          intro k a b
          rcases Nat.lt_trichotomy k p with h | h | h
          · have := h3 k a h; omega
          · subst h; omega
          · have := hpb k h b; omega
      · intro ⟨h1, h2, h3⟩
        rcases Nat.lt_trichotomy j p with h | h | h
        · refine Or.inr ⟨h, by omega, ?_⟩
          intro k a b
          have := h3 k a (by omega); omega
        · exact Or.inl h
        · have := hpb j h h1; omega

theorem prevSibsM_node (d : Doc) (i : Nat) :
    prevSibsM d (.node i) = (prevIdx d d.length i).map .node := prevSibsFrom_node d _ i

theorem prevIdx_spec_mem {d : Doc} (wf : WF d) (i : Nat) (hi : i < d.length) (x : Nat) :
    x ∈ prevIdx d d.length i ↔
      (x < d.length ∧ (Ref.lt (.node x) (.node i) &&
        Spec.parent? d (.node x) == Spec.parent? d (.node i) &&
        (Spec.parent? d (.node i)).isSome) = true) := by
  rw [Bool.and_eq_true, Bool.and_eq_true, lt_node, beq_iff_eq, prevIdx_mem d _ i (by omega) x]
  cases hq : parentFrom d (dep d i) i with
  | none =>
    have hpi : Spec.parent? d (.node i) = none := by rw [parent?_node, hq]; rfl
    have h0 := parent_none_zero wf i hi hq
    subst h0
    rw [hpi]
    simp only [Option.isSome_none, Bool.false_eq_true, and_false, iff_false]
    intro ⟨h1, _⟩
    omega
  | some p =>
    have hpi : Spec.parent? d (.node i) = some (.node p) := (parent?_node_eq d i p).2 hq
    obtain ⟨hpi1, hpi2, hpi3⟩ := parent_endOf wf p i hi hq
    obtain ⟨_, hpd, hpb⟩ := parentFrom_some d _ _ _ hq
    have hdep := parent_depth wf i p hi hq
    rw [hpi, parent?_node_eq]
    simp only [Option.isSome_some, and_true]
    constructor
    · intro ⟨h1, h2, h3⟩
      have hx : x < d.length := by omega
      have hpx : p < x := by
        rcases Nat.lt_trichotomy x p with h | h | h
        · have := h3 p h hpi1; omega
        · subst h; omega
        · exact h
      exact ⟨hx, h1, (parent_iff_subtree wf p x hx hpx).2 ⟨by omega, by omega⟩⟩
    · intro ⟨hx, h1, h2⟩
      have hpx := (parentFrom_some d _ _ _ h2).1
      have := (parent_iff_subtree wf p x hx hpx).1 h2
      refine ⟨h1, by omega, ?_⟩
      intro k a b
      have := endOf_inside d p k (by omega) (by omega)
      omega

/-- T5: the `MoveToPrevious` chain (nearest first), reversed, is the preceding-sibling axis in
document order -/
theorem prevSibs_spec {d : Doc} (wf : WF d) (i : Nat) (hi : i < d.length) :
    (prevSibsM d (.node i)).reverse = Spec.precedingSiblings d (.node i) := by
  rw [prevSibsM_node, ← List.map_reverse]
  unfold Spec.precedingSiblings
  simp only [Ref.isAttr, Bool.false_eq_true, ↓reduceIte]
  symm
  apply spec_filter_eq
  · rw [List.pairwise_reverse]
    exact prevIdx_pairwise_gt d _ _
  · intro x
    rw [List.mem_reverse]
    exact prevIdx_spec_mem wf i hi x

/-! ## following / preceding -/

theorem dep_le_idx {d : Doc} (wf : WF d) (i : Nat) (hi : i < d.length) : dep d i ≤ i := by
  induction i with
  | zero => rw [wf.root.1]; exact Nat.le_refl _
  | succ i ih =>
    have := ih (by omega)
    have := (wf.step i hi).2
    omega

theorem range'_append1 (s a b : Nat) :
    List.range' s a ++ List.range' (s + a) b = List.range' s (a + b) := by
  have := List.range'_append (s := s) (m := a) (n := b) (step := 1)
  rw [Nat.one_mul] at this
  exact this

/-- a subtree root followed by its descendant walk -/
def subtreeM (d : Doc) (r : Ref) : List Ref := r :: (descM d r).map (·.1)

theorem subtreeM_node {d : Doc} (wf : WF d) (n : Nat) (hn : n < d.length) :
    subtreeM d (.node n) = (List.range' n (endOf d n - n)).map .node := by
  unfold subtreeM
  rw [desc_range wf n hn]
  have hgt := endOf_gt d n
  have e : endOf d n - n = (endOf d n - (n+1)) + 1 := by omega
  rw [e, List.range'_succ, List.map_cons]

theorem nextOf_none_end {d : Doc} (c : Nat) (hc : c < d.length) (h : nextOf d c = none) :
    endOf d c = d.length ∨ dep d (endOf d c) < dep d c := by
  have hle := endOf_le d c hc
  rcases Nat.lt_or_ge (endOf d c) d.length with h1 | h1
  · right
    have := endOf_at d c h1
    unfold nextOf at h
    split at h
    · cases h
    · rename_i hno
      rcases Nat.lt_or_ge (dep d (endOf d c)) (dep d c) with h2 | h2
      · exact h2
      · exact absurd ⟨hc, h1, by omega⟩ hno
  · left; omega

/-- the sibling subtrees `followingQuery` visits from `c`, each followed by its descendant walk,
are exactly the nodes after the subtree of `c`, in document order -/
theorem followRoots_flat {d : Doc} (wf : WF d) :
    ∀ f c, c < d.length → (d.length - endOf d c) + dep d c < f →
      (followRoots d f (.node c)).flatMap (subtreeM d) =
        (List.range' (endOf d c) (d.length - endOf d c)).map .node := by
  intro f
  induction f with
  | zero => intro c _ h; omega
  | succ f ih =>
    intro c hc hf
    have hle := endOf_le d c hc
    simp only [followRoots, moveNext_node, moveParent_node]
    cases hn : nextOf d c with
    | some n =>
      obtain ⟨hne, hcn⟩ := nextOf_gt d c n hn
      have hn' := hn
      unfold nextOf at hn'
      split at hn'
      · rename_i hyes
        obtain ⟨_, hlen, hdep⟩ := hyes
        rw [← hne] at hlen hdep
        have hgt := endOf_gt d n
        have hnle := endOf_le d n hlen
        simp only [Option.map_some, List.flatMap_cons]
        rw [ih n hlen (by omega), subtreeM_node wf n hlen, ← List.map_append, ← hne]
        have := range'_append1 n (endOf d n - n) (d.length - endOf d n)
        rw [show n + (endOf d n - n) = endOf d n by omega] at this
        rw [this]
        congr 2
        omega
      · cases hn'
    | none =>
      simp only [Option.map_none]
      have hend := nextOf_none_end c hc hn
      cases hq : parentFrom d (dep d c) c with
      | none =>
        simp only [Option.map_none, List.flatMap_nil]
        have h0 := parent_none_zero wf c hc hq
        subst h0
        have : endOf d 0 = d.length := by
          rcases hend with h | h
          · exact h
          · have := wf.root.1; omega
        rw [this, Nat.sub_self]
        rfl
      | some q =>
        simp only [Option.map_some]
        obtain ⟨hqc, hqe, hqn⟩ := parent_endOf wf q c hc hq
        have hdep := parent_depth wf c q hc hq
        have hgt := endOf_gt d c
        have hqq : endOf d q = endOf d c := by
          apply endOf_eq d q (endOf d c) (by omega) hle
          · intro k h1 h2
            exact endOf_inside d q k h1 (by omega)
          · rcases hend with h | h
            · exact Or.inl h
            · exact Or.inr (by omega)
        rw [ih q (by omega) (by omega), hqq]

/-- following axis (list equality, document order): the engine's roots with their descendant walks
are the specification's `following` -/
theorem following_spec_eq {d : Doc} (wf : WF d) (i : Nat) (hi : i < d.length) :
    (followRoots d (2 * d.length + 2) (.node i)).flatMap (fun r => r :: (descM d r).map (·.1)) =
      Spec.following d (.node i) := by
  have h1 := followRoots_flat wf (2 * d.length + 2) i hi
    (by have := dep_le_idx wf i hi; omega)
  unfold subtreeM at h1
  rw [h1]
  unfold Spec.following
  symm
  apply spec_filter_eq
  · exact List.pairwise_lt_range' 1
  · intro x
    rw [List.mem_range'_1, Bool.and_eq_true, lt_node, Bool.not_eq_true']
    have hle := endOf_le d i hi
    have hgt := endOf_gt d i
    constructor
    · intro ⟨a, b⟩
      have hx : x < d.length := by omega
      refine ⟨hx, by omega, ?_⟩
      cases h : Spec.isAncestor d (.node i) (.node x) with
      | false => rfl
      | true => have := (isAncestor_iff wf i x hx).1 h; omega
    · intro ⟨hx, a, b⟩
      refine ⟨?_, by omega⟩
      rcases Nat.lt_or_ge x (endOf d i) with h | h
      · have := (isAncestor_iff wf i x hx).2 ⟨a, h⟩
        rw [this] at b; cases b
      · exact h

/-- following axis, membership form -/
theorem following_spec {d : Doc} (wf : WF d) (i : Nat) (hi : i < d.length) (x : Ref) :
    x ∈ (followRoots d (2 * d.length + 2) (.node i)).flatMap
        (fun r => r :: (descM d r).map (·.1)) ↔ x ∈ Spec.following d (.node i) := by
  rw [following_spec_eq wf i hi]

/-- the sibling subtrees `precedingQuery` visits from `c`, each with its descendant walk, contain
exactly the nodes before `c` whose subtree ends at or before `c` (the non-ancestors) -/
theorem precRoots_mem {d : Doc} (wf : WF d) :
    ∀ f c reset, c < d.length → c < f → ∀ x,
      x ∈ (precRoots d f (.node c) reset).flatMap (fun rb => subtreeM d rb.1) ↔
        ∃ j, x = .node j ∧ j < c ∧ endOf d j ≤ c := by
  intro f
  induction f with
  | zero => intro c _ _ h; omega
  | succ f ih =>
    intro c reset hc hf x
    simp only [precRoots, movePrev_node, moveParent_node]
    cases hp : prevFrom d (dep d c) c with
    | some p =>
      obtain ⟨hpc, hpd, hpb⟩ := prevFrom_some d _ _ _ hp
      have hpe : endOf d p = c := by
        apply endOf_eq d p c hpc (by omega)
        · intro k a b; have := hpb k a b; omega
        · exact Or.inr (by omega)
      simp only [Option.map_some, List.flatMap_cons, List.mem_append]
      rw [ih p false (by omega) (by omega) x, subtreeM_node wf p (by omega), List.mem_map, hpe]
      constructor
      · intro h
        rcases h with ⟨j, hj, rfl⟩ | ⟨j, rfl, h1, h2⟩
        · rw [List.mem_range'_1] at hj
          refine ⟨j, rfl, by omega, ?_⟩
          rcases Nat.lt_or_ge p j with h | h
          · have := endOf_nested d p j (by omega) h (by omega); omega
          · have : j = p := by omega
            subst this; omega
        · exact ⟨j, rfl, by omega, by omega⟩
      · intro ⟨j, hx, h1, h2⟩
        subst hx
        rcases Nat.lt_or_ge j p with h | h
        · right
          refine ⟨j, rfl, h, ?_⟩
          rcases Nat.lt_or_ge p (endOf d j) with h' | h'
          · exfalso
            have hnest := endOf_nested d j p (by omega) h h'
            have hjc : endOf d j = c := by omega
            have a := endOf_inside d j p h h'
            have b := endOf_at d j (by omega)
            rw [hjc] at b
            omega
          · exact h'
        · left
          exact ⟨j, by rw [List.mem_range'_1]; omega, rfl⟩
    | none =>
      simp only [Option.map_none]
      cases hq : parentFrom d (dep d c) c with
      | none =>
        have h0 := parent_none_zero wf c hc hq
        subst h0
        simp only [Option.map_none, List.flatMap_nil, List.not_mem_nil, false_iff]
        intro ⟨j, _, h, _⟩; omega
      | some q =>
        simp only [Option.map_some]
        obtain ⟨hqc, hqe, hqn⟩ := parent_endOf wf q c hc hq
        obtain ⟨_, hqd, hqb⟩ := parentFrom_some d _ _ _ hq
        have hdep := parent_depth wf c q hc hq
        have hcq : c = q + 1 := by
          rcases Nat.lt_or_ge (q+1) c with h | h
          · exfalso
            have hstep := (wf.step q (by omega)).2
            rcases prevFrom_none d _ _ hp with h1 | ⟨q', hq', hqd', hqb'⟩
            · have := h1 q hqc; omega
            · rcases Nat.lt_trichotomy q' q with h2 | h2 | h2
              · have := hqb' q h2 hqc; omega
              · subst h2
                have := hqb' (q'+1) (by omega) h; omega
              · have := hqb q' h2 hq'; omega
          · omega
        rw [ih q true (by omega) (by omega) x]
        constructor
        · intro ⟨j, hx, h1, h2⟩
          exact ⟨j, hx, by omega, by omega⟩
        · intro ⟨j, hx, h1, h2⟩
          refine ⟨j, hx, ?_, ?_⟩
          · rcases Nat.lt_or_ge j q with h | h
            · exact h
            · have : j = q := by omega
              subst this; omega
          · rcases Nat.lt_or_ge q (endOf d j) with h | h
            · exfalso
              have hjq : j < q := by
                rcases Nat.lt_or_ge j q with h' | h'
                · exact h'
                · have : j = q := by omega
                  subst this; omega
              have hjc : endOf d j = c := by omega
              have a := endOf_inside d j q hjq h
              have b := endOf_at d j (by omega)
              rw [hjc] at b
              omega
            · exact h

/-- preceding axis, membership form -/
theorem preceding_spec {d : Doc} (wf : WF d) (i : Nat) (hi : i < d.length) (x : Ref) :
    x ∈ (precRoots d (2 * d.length + 2) (.node i) false).flatMap
        (fun rb => rb.1 :: (descM d rb.1).map (·.1)) ↔ x ∈ Spec.preceding d (.node i) := by
  have h1 := precRoots_mem wf (2 * d.length + 2) i false hi (by omega) x
  unfold subtreeM at h1
  rw [h1]
  unfold Spec.preceding allNodes
  rw [List.mem_filter, List.mem_map]
  constructor
  · intro ⟨j, hx, a, b⟩
    subst hx
    refine ⟨⟨j, by rw [List.mem_range]; omega, rfl⟩, ?_⟩
    rw [Bool.and_eq_true, lt_node, Bool.not_eq_true']
    refine ⟨a, ?_⟩
    cases h : Spec.isAncestor d (.node j) (.node i) with
    | false => rfl
    | true => have := (isAncestor_iff wf j i hi).1 h; omega
  · intro ⟨⟨j, _, hx⟩, h⟩
    subst hx
    rw [Bool.and_eq_true, lt_node, Bool.not_eq_true'] at h
    refine ⟨j, rfl, h.1, ?_⟩
    rcases Nat.lt_or_ge i (endOf d j) with h' | h'
    · have := (isAncestor_iff wf j i hi).2 ⟨h.1, h'⟩
      rw [this] at h; cases h.2
    · exact h'

end XPathV

/-! ## Axiom audit -/
section AxiomAudit
open XPathV
#print axioms children_spec
#print axioms desc_spec
#print axioms desc_range
#print axioms desc_level
#print axioms ancestors_spec
#print axioms isAncestor_iff
#print axioms nextSibs_spec
#print axioms prevSibs_spec
#print axioms children_sorted
#print axioms following_spec_eq
#print axioms following_spec
#print axioms preceding_spec
#print axioms parent_iff_subtree
#print axioms prevFrom_iff
#print axioms endOf_eq
end AxiomAudit
