import XPathV.Lemmas.PredSem
import XPathV.Lemmas.FlatFiltered
import XPathV.Lemmas.ParserFuel
/-!
# C01 / C02 at the public API: `compile` (scanner + parser + builder on the text), `selectAll`,
`evaluate`

The theorems of `PathSem` / `PredSem` start from a parse tree.  Here they are restated against
`Model.compile` / `Model.selectAll` / `Model.evaluate` exactly as the driver runs them
(`Driver.compileCase` = `compile rc.cc c.ns text`, `Driver.modelSel` = `selectAll … p ctx`,
`Driver.specEval` = `parse (fuelFor text) (defaultCfg ns) text` followed by `Spec.evalTop`).

* §1 anatomy of `compile`: `compile_inv`, `compile_of_build`, `compile_ne_fuel`
* §2 the plan of a path of the fragment is path-shaped, in particular not the nil query
  (`build_frag_pathShape`), so `compile` returns it (`compile_of_frag`)
* §3 end-to-end: `C02_api_build` (the statement of the task: `parse` + `Frag` + `build`),
  `C02_compile`, `C02_compile_source` (the default `CompileCfg`, whose two switches are read off the
  source), `C02_compile_evaluate`, `C01_compile`, `C02_compile_total`
* §4 concrete texts: `"//a[b]/c"`, `"/a/b[not(c)]"`, `"a/b[c = 'x' and d > 1]"`
-/
namespace XPathV.ApiSem
open XPathV XPathV.Model XPathV.PathSem XPathV.PredSem

variable {F : Type} [NumAlg F]

/-! ## §1 Anatomy of `compile` -/

/-- the build-depth limit `compile` passes to the builder -/
abbrev apiLimit : Nat := Generated.buildDepthLimit.getD 0

theorem plan_beq_nil_false (q : Plan) (h : q ≠ .nil) : (q == Plan.nil) = false := by
  cases hq : (q == Plan.nil) with
  | false => rfl
  | true => exact absurd (eq_of_beq hq) h

/-- **`compile` succeeded** ⇒ the text is not empty, the parser (with `fuelFor text`, the default
precedence chain and the namespace table) returned a tree, the builder (from the initial flags and
state, with the configuration's switches and the generated depth limit) returned a plan, and that
plan — which is not the nil query — is the result -/
theorem compile_inv (cc : CompileCfg) (ns : Option (List (String × String))) (text : List Char)
    (p : Plan) (h : compile cc ns text = .ok p) :
    text ≠ [] ∧ ∃ a o, parse (fuelFor text) (defaultCfg ns) text = .ok a ∧
      build cc.regexOk apiLimit cc.shortcutNeedsNodeTest cc.smartDescThroughFilter a {} {} = .ok o ∧
      o.q = p ∧ p ≠ .nil := by
  unfold compile at h
  split at h
  · cases h
  · rename_i hne
    refine ⟨by intro h'; rw [h'] at hne; exact hne rfl, ?_⟩
    split at h
    · cases h
    · rename_i a ha
      split at h
      · cases h
      · rename_i o ho
        split at h
        · cases h
        · rename_i hnil
          cases h
          exact ⟨a, o, ha, ho, rfl, fun hq => hnil (by rw [hq]; rfl)⟩

/-- the converse: a non-empty text that parses and builds to a non-nil plan compiles to it -/
theorem compile_of_build (cc : CompileCfg) (ns : Option (List (String × String))) (text : List Char)
    (hne : text ≠ []) (a : Ast) (o : BOut)
    (hparse : parse (fuelFor text) (defaultCfg ns) text = .ok a)
    (hb : build cc.regexOk apiLimit cc.shortcutNeedsNodeTest cc.smartDescThroughFilter a {} {} = .ok o)
    (hq : o.q ≠ .nil) : compile cc ns text = .ok o.q := by
  unfold compile
  have he : text.isEmpty = false := by
    cases text with
    | nil => exact absurd rfl hne
    | cons _ _ => rfl
  simp only [he, Bool.false_eq_true, ↓reduceIte, hparse]
  show (match build cc.regexOk apiLimit cc.shortcutNeedsNodeTest cc.smartDescThroughFilter a {} {} with
    | .error e => Except.error (CompileErr.build e)
    | .ok o => if (o.q == Plan.nil) = true then .error .nilQuery else .ok o.q) = _
  rw [hb]
  simp only [plan_beq_nil_false _ hq, Bool.false_eq_true, ↓reduceIte]

/-- **the fuel `compile` gives the parser is sufficient**: `compile` never fails for lack of fuel -/
theorem compile_ne_fuel (cc : CompileCfg) (ns : Option (List (String × String))) (text : List Char) :
    compile cc ns text ≠ .error (.parse .fuel) := by
  unfold compile
  split
  · intro h; cases h
  · split
    · rename_i e he
      intro h
      cases h
      exact Lemmas.ParserFuel.parse_fuel_enough_default ns text he
    · split
      · intro h; cases h
      · split <;> (intro h; cases h)

/-- a parse failure of `compile` is the parser's failure on the text -/
theorem compile_parse_error (cc : CompileCfg) (ns : Option (List (String × String))) (text : List Char)
    (e : PErr) (h : compile cc ns text = .error (.parse e)) :
    parse (fuelFor text) (defaultCfg ns) text = .error e ∧ e ≠ .fuel := by
  have hf := compile_ne_fuel cc ns text
  unfold compile at h
  split at h
  · cases h
  · split at h
    · rename_i e' he
      cases h
      exact ⟨he, fun h' => hf (by rw [h'] at he; unfold compile; simp only [*]; rfl)⟩
    · split at h
      · cases h
      · split at h <;> cases h

/-- `selectAll` is `sel` with the items projected to their nodes -/
theorem selectAll_of_sel (d : Doc) (cfg : ECfg) (p : Plan) (c : Ref) (out : List Item)
    (h : sel (F := F) d cfg p c = .ok out) : selectAll (F := F) d cfg p c = .ok (refs out) := by
  simp only [selectAll, h, bind, Except.bind, pure, Except.pure, refs]

theorem selectAll_error (d : Doc) (cfg : ECfg) (p : Plan) (c : Ref) (e : EErr)
    (h : sel (F := F) d cfg p c = .error e) : selectAll (F := F) d cfg p c = .error e := by
  simp only [selectAll, h, bind, Except.bind]

/-- `evaluate` on a path-shaped plan: the drained iterator -/
theorem evaluate_of_sel (d : Doc) (cfg : ECfg) (p : Plan) (hp : PathShape p) (c : Ref) (out : List Item)
    (h : sel (F := F) d cfg p c = .ok out) : evaluate (F := F) d cfg p c = .ok (.nodes (refs out)) := by
  simp only [evaluate, evalP_pathShape d cfg p hp c out h, selectAll_of_sel d cfg p c out h, bind,
    Except.bind, pure, Except.pure]

/-! ## §2 The plan of a path of the fragment is never the nil query -/

theorem pathShape_ne_nil (q : Plan) (h : PathShape q) : q ≠ .nil := by
  intro hq; rw [hq] at h; exact h

/-- **the plan `build` makes of a path of the fragment is path-shaped** (a step, a filter or a
merge), whatever the flags, the state and the two switches -/
theorem build_frag_pathShape (regexOk : RegexOk) (limit : Nat) (snt sdf : Bool) {p : Ast}
    (hp : Frag true p) (fl : Flags) (st : BState) (o : BOut)
    (h : build regexOk limit snt sdf p fl st = .ok o) : PathShape o.q := by
  have stepShape : ∀ (a : AxisInfo) (fl : Flags) (pr pr' : Props) (inp q : Plan) (st' : BState),
      axisPlan a fl pr inp = .ok (q, pr') → build.finAxis q pr' st' = .ok o → PathShape o.q := by
    intro a fl pr pr' inp q st' hq hfin
    rw [finAxis_q _ _ _ _ hfin]
    exact (axisPlan_inv a fl pr inp q pr' hq).1
  cases hp with
  | none => rw [build] at h; cases h
  | root s => rw [(build_root_inv regexOk limit snt sdf s fl st o h).1]; trivial
  | filter inp b hinp hb =>
    obtain ⟨st1, io, X, _, hor⟩ := FlatFiltered.build_filter_shape regexOk limit snt sdf inp b fl st o h
    rcases hor with hq | ⟨_, parent, _, hq⟩ <;> (rw [hq]; trivial)
  | axis a inp hinp ha =>
    have other : ∀ inp', (inp' ≠ .none) → (∀ b g, inp' = .axis b g → False) →
        build regexOk limit snt sdf (.axis a inp') fl st = .ok o → PathShape o.q := by
      intro inp' h1 h2 h
      rw [build] at h
      · replace h := enter_ok _ _ _ _ h
        obtain ⟨o1, ho1, h⟩ := except_bind_ok _ _ _ h
        obtain ⟨⟨q, props⟩, hq, hfin⟩ := except_bind_ok _ _ _ h
        exact stepShape _ _ _ _ _ _ _ hq hfin
      · exact h1
      · exact h2
    cases hinp with
    | none =>
      rw [build] at h
      replace h := enter_ok _ _ _ _ h
      obtain ⟨⟨q, props⟩, hq, hfin⟩ := except_bind_ok _ _ _ h
      exact stepShape _ _ _ _ _ _ _ hq hfin
    | root s => exact other _ (fun h => by cases h) (fun b g h => by cases h) h
    | filter i c hi hc => exact other _ (fun h => by cases h) (fun b g h => by cases h) h
    | axis b grand hg hb =>
      rw [build] at h
      replace h := enter_ok _ _ _ _ h
      simp only [] at h
      split at h
      · have key : ∀ gq, o.q = .descendant a false gq → PathShape o.q := by
          intro gq hq; rw [hq]; trivial
        cases hg with
        | none =>
          simp only [pure, Except.pure, bind, Except.bind] at h
          exact key _ (finAxis_q _ _ _ _ h)
        | root s =>
          simp only [] at h
          obtain ⟨o1, ho1, h⟩ := except_bind_ok _ _ _ h
          simp only [pure, Except.pure, bind, Except.bind] at h
          exact key o1.q (finAxis_q _ _ _ _ h)
        | axis e g2 hg2 he =>
          simp only [] at h
          obtain ⟨o1, ho1, h⟩ := except_bind_ok _ _ _ h
          simp only [pure, Except.pure, bind, Except.bind] at h
          exact key o1.q (finAxis_q _ _ _ _ h)
        | filter i c hi hc =>
          simp only [] at h
          obtain ⟨o1, ho1, h⟩ := except_bind_ok _ _ _ h
          simp only [pure, Except.pure, bind, Except.bind] at h
          exact key o1.q (finAxis_q _ _ _ _ h)
      · obtain ⟨o1, ho1, h⟩ := except_bind_ok _ _ _ h
        obtain ⟨⟨q, props⟩, hq, hfin⟩ := except_bind_ok _ _ _ h
        exact stepShape _ _ _ _ _ _ _ hq hfin

/-- the parser (as `compile` runs it) rejects the empty text -/
theorem parse_nil_default (ns : Option (List (String × String))) :
    parse (fuelFor []) (defaultCfg ns) [] = .error .notNodeSet := rfl

theorem text_ne_nil_of_parse (ns : Option (List (String × String))) (text : List Char) (a : Ast)
    (h : parse (fuelFor text) (defaultCfg ns) text = .ok a) : text ≠ [] := by
  intro ht
  rw [ht, parse_nil_default] at h
  cases h

/-- **`compile` on a text that parses into the fragment**: whenever the builder succeeds, `compile`
returns the builder's plan (it is never the nil query) -/
theorem compile_of_frag (cc : CompileCfg) (ns : Option (List (String × String))) (text : List Char)
    (a : Ast) (o : BOut) (hparse : parse (fuelFor text) (defaultCfg ns) text = .ok a)
    (hfrag : Frag true a)
    (hb : build cc.regexOk apiLimit cc.shortcutNeedsNodeTest cc.smartDescThroughFilter a {} {} = .ok o) :
    compile cc ns text = .ok o.q :=
  compile_of_build cc ns text (text_ne_nil_of_parse ns text a hparse) a o hparse hb
    (pathShape_ne_nil _ (build_frag_pathShape _ _ _ _ hfrag _ _ o hb))

/-- … and when the builder fails, `compile` reports the builder's error -/
theorem compile_of_build_error (cc : CompileCfg) (ns : Option (List (String × String)))
    (text : List Char) (a : Ast) (e : BErr)
    (hparse : parse (fuelFor text) (defaultCfg ns) text = .ok a)
    (hb : build cc.regexOk apiLimit cc.shortcutNeedsNodeTest cc.smartDescThroughFilter a {} {} = .error e) :
    compile cc ns text = .error (.build e) := by
  have hne := text_ne_nil_of_parse ns text a hparse
  unfold compile
  have he : text.isEmpty = false := by
    cases text with
    | nil => exact absurd rfl hne
    | cons _ _ => rfl
  simp only [he, Bool.false_eq_true, ↓reduceIte, hparse]
  show (match build cc.regexOk apiLimit cc.shortcutNeedsNodeTest cc.smartDescThroughFilter a {} {} with
    | .error e => Except.error (CompileErr.build e)
    | .ok o => if (o.q == Plan.nil) = true then .error .nilQuery else .ok o.q) = _
  rw [hb]

/-! ## §3 End-to-end: C02 / C01 against `compile`, `selectAll`, `evaluate` -/

/-- **C02, the three stages spelled out** (the statement of the task): if the parser returns `a` on
the text, `a` is in the fragment and the builder (switches as read off the source: `//name`
shortcut guarded, no smartDesc through filters; initial flags and state) returns `o`, then
`selectAll` of `o.q` from a valid context node succeeds and has exactly the members of the node-set
`Spec.evalTop` assigns to `a` -/
theorem C02_api_build {d : Doc} (wf : WF d) (cfg : ECfg) (hns : cfg.nsIface = true)
    (hinj : HashInj d cfg) (regexOk : RegexOk) (limit : Nat) (fuel : Nat) (pcfg : PCfg)
    (text : List Char) (a : Ast) (_hparse : parse fuel pcfg text = .ok a) (hfrag : Frag true a)
    (o : BOut) (hb : build regexOk limit true false a {} {} = .ok o)
    (c : Ref) (hc : validRef d c = true) :
    ∃ l ns, selectAll (F := F) d cfg o.q c = .ok l ∧
      Spec.evalTop (F := F) d a c = .ok (.nodes ns) ∧ ∀ x, x ∈ l ↔ x ∈ ns := by
  obtain ⟨out, ns, h1, h2, h3⟩ := C02_evalTop (F := F) wf cfg hns hinj regexOk limit a hfrag {} o hb c hc
  exact ⟨refs out, ns, selectAll_of_sel d cfg o.q c out h1, h2, h3⟩

/-- the same with the switches written as the constants `compile` reads off the source -/
theorem C02_api_build_source {d : Doc} (wf : WF d) (cfg : ECfg) (hns : cfg.nsIface = true)
    (hinj : HashInj d cfg) (regexOk : RegexOk) (limit : Nat) (fuel : Nat) (pcfg : PCfg)
    (text : List Char) (a : Ast) (hparse : parse fuel pcfg text = .ok a) (hfrag : Frag true a)
    (o : BOut)
    (hb : build regexOk limit shortcutNeedsNodeTestFromSource smartDescThroughFilterFromSource a {} {} = .ok o)
    (c : Ref) (hc : validRef d c = true) :
    ∃ l ns, selectAll (F := F) d cfg o.q c = .ok l ∧
      Spec.evalTop (F := F) d a c = .ok (.nodes ns) ∧ ∀ x, x ∈ l ↔ x ∈ ns := by
  rw [Lemmas.SourceConfig.shortcut_guard_from_source,
    Lemmas.SourceConfig.smartdesc_stops_at_filters_from_source] at hb
  exact C02_api_build wf cfg hns hinj regexOk limit fuel pcfg text a hparse hfrag o hb c hc

/-- **C02 against `compile` / `selectAll`** (what `Driver.modelSel` runs against `Driver.specEval`):
for a text that the parser — with `fuelFor text`, the default configuration and the namespace
table `ns` — turns into a tree `a` of the fragment, every plan `compile` returns (under a
configuration with the `//name` shortcut guarded and no smartDesc through filters) selects, from
every valid context node of every well-formed document, exactly the members of the node-set the
oracle assigns to `a`; neither side fails -/
theorem C02_compile {d : Doc} (wf : WF d) (cfg : ECfg) (hns : cfg.nsIface = true)
    (hinj : HashInj d cfg) (cc : CompileCfg) (hsnt : cc.shortcutNeedsNodeTest = true)
    (hsdf : cc.smartDescThroughFilter = false) (ns : Option (List (String × String)))
    (text : List Char) (a : Ast) (hparse : parse (fuelFor text) (defaultCfg ns) text = .ok a)
    (hfrag : Frag true a) (p : Plan) (hcomp : compile cc ns text = .ok p)
    (c : Ref) (hc : validRef d c = true) :
    ∃ l nsl, selectAll (F := F) d cfg p c = .ok l ∧
      Spec.evalTop (F := F) d a c = .ok (.nodes nsl) ∧ ∀ x, x ∈ l ↔ x ∈ nsl := by
  obtain ⟨_, a', o, hp', hb, hq, _⟩ := compile_inv cc ns text p hcomp
  rw [hparse] at hp'; cases hp'
  rw [hsnt, hsdf] at hb
  rw [← hq]
  exact C02_api_build wf cfg hns hinj cc.regexOk apiLimit _ _ text a hparse hfrag o hb c hc

/-- the default `CompileCfg` guards the `//name` shortcut (read off the source) -/
theorem srcCfg_snt (regexOk : RegexOk) :
    ({ regexOk := regexOk } : CompileCfg).shortcutNeedsNodeTest = true :=
  by simp only [Lemmas.SourceConfig.shortcut_guard_from_source]

/-- the default `CompileCfg` does not pass smartDesc through filters (read off the source) -/
theorem srcCfg_sdf (regexOk : RegexOk) :
    ({ regexOk := regexOk } : CompileCfg).smartDescThroughFilter = false :=
  by simp only [Lemmas.SourceConfig.smartdesc_stops_at_filters_from_source]

/-- **C02 against `compile` at the source configuration**: `CompileCfg`'s default switches are the
ones read off the current source (`shortcutNeedsNodeTestFromSource`,
`smartDescThroughFilterFromSource`); any regexp oracle -/
theorem C02_compile_source {d : Doc} (wf : WF d) (cfg : ECfg) (hns : cfg.nsIface = true)
    (hinj : HashInj d cfg) (regexOk : RegexOk) (ns : Option (List (String × String)))
    (text : List Char) (a : Ast) (hparse : parse (fuelFor text) (defaultCfg ns) text = .ok a)
    (hfrag : Frag true a) (p : Plan) (hcomp : compile { regexOk := regexOk } ns text = .ok p)
    (c : Ref) (hc : validRef d c = true) :
    ∃ l nsl, selectAll (F := F) d cfg p c = .ok l ∧
      Spec.evalTop (F := F) d a c = .ok (.nodes nsl) ∧ ∀ x, x ∈ l ↔ x ∈ nsl :=
  C02_compile wf cfg hns hinj { regexOk := regexOk } (srcCfg_snt regexOk) (srcCfg_sdf regexOk)
    ns text a hparse hfrag p hcomp c hc

/-- **C02 against `compile` / `evaluate`** (what `Driver.modelEval` runs): `Expr.Evaluate` of the
compiled path returns a node-set with exactly the oracle's members — the same list `selectAll`
returns -/
theorem C02_compile_evaluate {d : Doc} (wf : WF d) (cfg : ECfg) (hns : cfg.nsIface = true)
    (hinj : HashInj d cfg) (cc : CompileCfg) (hsnt : cc.shortcutNeedsNodeTest = true)
    (hsdf : cc.smartDescThroughFilter = false) (ns : Option (List (String × String)))
    (text : List Char) (a : Ast) (hparse : parse (fuelFor text) (defaultCfg ns) text = .ok a)
    (hfrag : Frag true a) (p : Plan) (hcomp : compile cc ns text = .ok p)
    (c : Ref) (hc : validRef d c = true) :
    ∃ l nsl, evaluate (F := F) d cfg p c = .ok (.nodes l) ∧ selectAll (F := F) d cfg p c = .ok l ∧
      Spec.evalTop (F := F) d a c = .ok (.nodes nsl) ∧ ∀ x, x ∈ l ↔ x ∈ nsl := by
  obtain ⟨_, a', o, hp', hb, hq, _⟩ := compile_inv cc ns text p hcomp
  rw [hparse] at hp'; cases hp'
  have hsh := build_frag_pathShape _ _ _ _ hfrag _ _ o hb
  rw [hsnt, hsdf] at hb
  rw [← hq]
  obtain ⟨out, nsl, h1, h2, h3⟩ :=
    C02_evalTop (F := F) wf cfg hns hinj cc.regexOk apiLimit a hfrag {} o hb c hc
  exact ⟨refs out, nsl, evaluate_of_sel d cfg o.q hsh c out h1, selectAll_of_sel d cfg o.q c out h1,
    h2, h3⟩

/-- **C01 against `compile` / `selectAll`**: predicate-free location paths -/
theorem C01_compile {d : Doc} (wf : WF d) (cfg : ECfg) (hns : cfg.nsIface = true)
    (hinj : HashInj d cfg) (cc : CompileCfg) (hsnt : cc.shortcutNeedsNodeTest = true)
    (ns : Option (List (String × String)))
    (text : List Char) (a : Ast) (hparse : parse (fuelFor text) (defaultCfg ns) text = .ok a)
    (hpf : PathPF a) (p : Plan) (hcomp : compile cc ns text = .ok p)
    (c : Ref) (hc : validRef d c = true) :
    ∃ l nsl, selectAll (F := F) d cfg p c = .ok l ∧
      Spec.evalTop (F := F) d a c = .ok (.nodes nsl) ∧ ∀ x, x ∈ l ↔ x ∈ nsl := by
  obtain ⟨_, a', o, hp', hb, hq, _⟩ := compile_inv cc ns text p hcomp
  rw [hparse] at hp'; cases hp'
  rw [hsnt] at hb
  rw [← hq]
  obtain ⟨out, nsl, h1, h2, h3⟩ :=
    C01_evalTop (F := F) wf cfg hns hinj cc.regexOk apiLimit _ a hpf {} o hb c hc
  exact ⟨refs out, nsl, selectAll_of_sel d cfg o.q c out h1, h2, h3⟩

/-- C01 against `compile` at the source configuration -/
theorem C01_compile_source {d : Doc} (wf : WF d) (cfg : ECfg) (hns : cfg.nsIface = true)
    (hinj : HashInj d cfg) (regexOk : RegexOk) (ns : Option (List (String × String)))
    (text : List Char) (a : Ast) (hparse : parse (fuelFor text) (defaultCfg ns) text = .ok a)
    (hpf : PathPF a) (p : Plan) (hcomp : compile { regexOk := regexOk } ns text = .ok p)
    (c : Ref) (hc : validRef d c = true) :
    ∃ l nsl, selectAll (F := F) d cfg p c = .ok l ∧
      Spec.evalTop (F := F) d a c = .ok (.nodes nsl) ∧ ∀ x, x ∈ l ↔ x ∈ nsl :=
  C01_compile wf cfg hns hinj { regexOk := regexOk } (srcCfg_snt regexOk)
    ns text a hparse hpf p hcomp c hc

/-- **the whole pipeline on a text of the fragment**: `compile` (source configuration) either
reports a *builder* error (the depth limit — never "empty", a parse error, lack of fuel or the nil
query), or returns a plan on which `selectAll` and `evaluate` agree with the oracle at every valid
context node of every well-formed document -/
theorem C02_compile_total (regexOk : RegexOk) (ns : Option (List (String × String)))
    (text : List Char) (a : Ast) (hparse : parse (fuelFor text) (defaultCfg ns) text = .ok a)
    (hfrag : Frag true a) :
    (∃ e, compile { regexOk := regexOk } ns text = .error (.build e)) ∨
    (∃ p, compile { regexOk := regexOk } ns text = .ok p ∧ PathShape p ∧
      ∀ (F : Type) [NumAlg F] (d : Doc), WF d → ∀ cfg : ECfg, cfg.nsIface = true → HashInj d cfg →
        ∀ c, validRef d c = true →
          ∃ l nsl, selectAll (F := F) d cfg p c = .ok l ∧ evaluate (F := F) d cfg p c = .ok (.nodes l) ∧
            Spec.evalTop (F := F) d a c = .ok (.nodes nsl) ∧ ∀ x, x ∈ l ↔ x ∈ nsl) := by
  let cc : CompileCfg := { regexOk := regexOk }
  cases hb : build cc.regexOk apiLimit cc.shortcutNeedsNodeTest cc.smartDescThroughFilter a {} {} with
  | error e => exact .inl ⟨e, compile_of_build_error cc ns text a e hparse hb⟩
  | ok o =>
    have hcomp := compile_of_frag cc ns text a o hparse hfrag hb
    refine .inr ⟨o.q, hcomp, build_frag_pathShape _ _ _ _ hfrag _ _ o hb, ?_⟩
    intro F _ d wf cfg hns hinj c hc
    obtain ⟨l, nsl, h1, h2, h3, h4⟩ := C02_compile_evaluate (F := F) wf cfg hns hinj cc
      (srcCfg_snt regexOk) (srcCfg_sdf regexOk) ns text a hparse hfrag o.q hcomp c hc
    exact ⟨l, nsl, h2, h1, h3, h4⟩

/-! ## §4 Concrete expression texts -/

section Examples

/-- Boolean check "`r` is `.ok a`" (so that `decide +kernel` can run the scanner and the parser) -/
def parsesTo (r : Except PErr Ast) (a : Ast) : Bool :=
  match r with
  | .ok b => decide (b = a)
  | .error _ => false

theorem parsesTo_eq {r : Except PErr Ast} {a : Ast} (h : parsesTo r a = true) : r = .ok a := by
  cases r with
  | error e => cases h
  | ok b => simp only [parsesTo, decide_eq_true_eq] at h; rw [h]

/-- Boolean check "`r` is `.ok p`" for `compile` -/
def compilesTo (r : Except CompileErr Plan) (p : Plan) : Bool :=
  match r with
  | .ok q => decide (q = p)
  | .error _ => false

theorem compilesTo_eq {r : Except CompileErr Plan} {p : Plan} (h : compilesTo r p = true) :
    r = .ok p := by
  cases r with
  | error e => cases h
  | ok q => simp only [compilesTo, decide_eq_true_eq] at h; rw [h]

private def ch (n : String) : AxisInfo := ⟨"child", .elem, "", n, "", false, ""⟩
private def dos : AxisInfo := ⟨"descendant-or-self", .all, "", "", "", false, ""⟩

private theorem ch_axis (n : String) : (ch n).axis ∈ axes12 := by simp [axes12, ch]
private theorem dos_axis : dos.axis ∈ axes12 := by simp [axes12, dos]

/-! ### `//a[b]/c` -/

def text1 : List Char := "//a[b]/c".toList

/-- what the parser makes of `//a[b]/c` -/
def ast1 : Ast :=
  .axis (ch "c") (.filter (.axis (ch "a") (.axis dos (.root "//"))) (.axis (ch "b") .none))

theorem parse1 : parse (fuelFor text1) (defaultCfg none) text1 = .ok ast1 :=
  parsesTo_eq (by decide +kernel)

theorem frag1 : Frag true ast1 :=
  .axis _ _ (.filter _ _ (.axis _ _ (.axis _ _ (.root _) dos_axis) (ch_axis _))
    (.exist _ (.axis _ _ .none (ch_axis _)))) (ch_axis _)

/-- what `compile` (source configuration) makes of `//a[b]/c` -/
def plan1 : Plan :=
  .cachedChild (ch "c") (.filter (.cachedChild (ch "a") (.descendant dos true .absolute))
    (.child (ch "b") .context))

theorem compile1 : compile {} none text1 = .ok plan1 := compilesTo_eq (by decide +kernel)

/-- **end to end on the text `//a[b]/c`**: no hypothesis left but the standing ones -/
example {d : Doc} (wf : WF d) (cfg : ECfg) (hns : cfg.nsIface = true) (hinj : HashInj d cfg)
    (c : Ref) (hc : validRef d c = true) :
    ∃ l nsl, selectAll (F := F) d cfg plan1 c = .ok l ∧
      Spec.evalTop (F := F) d ast1 c = .ok (.nodes nsl) ∧ ∀ x, x ∈ l ↔ x ∈ nsl :=
  C02_compile_source wf cfg hns hinj (fun _ => true) none text1 ast1 parse1 frag1 plan1 compile1 c hc

/-! ### `/a/b[not(c)]` (the merge rewrite fires) -/

def text2 : List Char := "/a/b[not(c)]".toList

def ast2 : Ast :=
  .filter (.axis (ch "b") (.axis (ch "a") (.root "/")))
    (.call "not" "" (.acons (.axis (ch "c") .none) .anil))

theorem parse2 : parse (fuelFor text2) (defaultCfg none) text2 = .ok ast2 :=
  parsesTo_eq (by decide +kernel)

theorem frag2 : Frag true ast2 :=
  .filter _ _ (.axis _ _ (.axis _ _ (.root _) (ch_axis _)) (ch_axis _))
    (.not _ _ (.exist _ (.axis _ _ .none (ch_axis _))))

def plan2 : Plan :=
  .merge (.child (ch "a") .absolute)
    (.filter (.child (ch "b") .context)
      (.func "not" .nil (.pcons (.child (ch "c") .context) .pnil)))

theorem compile2 : compile {} none text2 = .ok plan2 := compilesTo_eq (by decide +kernel)

example {d : Doc} (wf : WF d) (cfg : ECfg) (hns : cfg.nsIface = true) (hinj : HashInj d cfg)
    (c : Ref) (hc : validRef d c = true) :
    ∃ l nsl, selectAll (F := F) d cfg plan2 c = .ok l ∧
      Spec.evalTop (F := F) d ast2 c = .ok (.nodes nsl) ∧ ∀ x, x ∈ l ↔ x ∈ nsl :=
  C02_compile_source wf cfg hns hinj (fun _ => true) none text2 ast2 parse2 frag2 plan2 compile2 c hc

/-! ### `a/b[c = 'x' and d > 1]` -/

def text3 : List Char := "a/b[c = 'x' and d > 1]".toList

def ast3 : Ast :=
  .filter (.axis (ch "b") (.axis (ch "a") .none))
    (.oper "and" (.oper "=" (.axis (ch "c") .none) (.str "x"))
      (.oper ">" (.axis (ch "d") .none) (.num "1")))

theorem parse3 : parse (fuelFor text3) (defaultCfg none) text3 = .ok ast3 :=
  parsesTo_eq (by decide +kernel)

theorem frag3 : Frag true ast3 :=
  .filter _ _ (.axis _ _ (.axis _ _ .none (ch_axis _)) (ch_axis _))
    (.and _ _ (.eqStr _ _ (.axis _ _ .none (ch_axis _)))
      (.cmpNumR _ _ _ (by simp [cmpOps]) (.axis _ _ .none (ch_axis _))))

def plan3 : Plan :=
  .filter (.child (ch "b") (.child (ch "a") .context))
    (.boolean false (.logical "=" (.child (ch "c") .context) (.constStr "x"))
      (.logical ">" (.child (ch "d") .context) (.constNum "1")))

theorem compile3 : compile {} none text3 = .ok plan3 := compilesTo_eq (by decide +kernel)

example {d : Doc} (wf : WF d) (cfg : ECfg) (hns : cfg.nsIface = true) (hinj : HashInj d cfg)
    (c : Ref) (hc : validRef d c = true) :
    ∃ l nsl, selectAll (F := F) d cfg plan3 c = .ok l ∧ evaluate (F := F) d cfg plan3 c = .ok (.nodes l) ∧
      Spec.evalTop (F := F) d ast3 c = .ok (.nodes nsl) ∧ ∀ x, x ∈ l ↔ x ∈ nsl := by
  obtain ⟨l, nsl, h1, h2, h3, h4⟩ := C02_compile_evaluate (F := F) wf cfg hns hinj {}
    (srcCfg_snt _) (srcCfg_sdf _) none text3 ast3 parse3 frag3 plan3 compile3 c hc
  exact ⟨l, nsl, h2, h1, h3, h4⟩

/-- the total statement on a text: `compile` cannot fail on it except in the builder -/
example : (∃ e, compile {} none text2 = .error (.build e)) ∨
    (∃ p, compile {} none text2 = .ok p ∧ PathShape p ∧
      ∀ (F : Type) [NumAlg F] (d : Doc), WF d → ∀ cfg : ECfg, cfg.nsIface = true → HashInj d cfg →
        ∀ c, validRef d c = true →
          ∃ l nsl, selectAll (F := F) d cfg p c = .ok l ∧ evaluate (F := F) d cfg p c = .ok (.nodes l) ∧
            Spec.evalTop (F := F) d ast2 c = .ok (.nodes nsl) ∧ ∀ x, x ∈ l ↔ x ∈ nsl) :=
  C02_compile_total (fun _ => true) none text2 ast2 parse2 frag2

end Examples

end XPathV.ApiSem

/-! ## Axiom audit -/
section AxiomAudit
open XPathV.ApiSem
end AxiomAudit
