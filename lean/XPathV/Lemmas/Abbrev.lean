import XPathV.Lemmas.Abbrev.Grammar
import XPathV.Lemmas.Abbrev.Classify
import XPathV.Lemmas.Abbrev.Full
import XPathV.Lemmas.FullGrammarComplete
import XPathV.Lemmas.ParserFull
/-!
# C10, third clause — each abbreviation means its expansion

XPath 1.0 §2.5: `a` = `child::a`, `@a` = `attribute::a`, `.` = `self::node()`, `..` = `parent::node()`,
`//` = `/descendant-or-self::node()/`.

**Expansion** (`Abbrev/Defs.lean`) is a function on the scanner's token stream — what a user writes:
`expandWith sel none 0 toks` writes out the abbreviations at the positions `sel` selects
(`expandAbbrev`: all of them; `expandAt i`: the one at position `i`; `expandKind k`: all of one kind;
`Expands toks toks'`: some set of them).

**Grammar** (`Parses_expandWith`, `Parses_of_Expands` and corollaries):
  `Parses ns toks a → Expands toks toks' → Parses ns toks' a`
— the written-out stream is an expression of the XPath 1.0 grammar with the *same* tree `a`; no
normalisation is involved, because the grammar's tree conventions already give `.` the record of
`self::node()` (`nodeStep`, with `prop = "node"`) and `//` the step `dos` under a root `"/"`.
Conversely (`expanded_tree_eq`) whatever tree the written-out form has is the tree of the abbreviated
form.  (The implication "the written-out form is an expression ⇒ the abbreviated form is one" is
false for the Recommendation's grammar: `self::node()[1]` is an expression, `.[1]` is not —
`not_conversely`.)

`Parses_at`, `Parses_dot`, `Parses_dotdot`, `Parses_slashslash` state the single-occurrence case
without `expandWith` (`pre ++ .at :: post` ↦ `pre ++ [.axis "attribute"] ++ post`, …);
`Abbrev/Full.lean` shows that `expandWith` with nothing selected is the identity, that `expandAbbrev`
leaves no `@ . .. //` token and is a fixed point of every further expansion.

The proof has two halves: on classified tokens, `D_expand` (`Abbrev/Grammar.lean`, induction on the
derivation, every non-terminal); and `classify_expand` (`Abbrev/Classify.lean`): the §3.7
classification of the written-out stream is the written-out classification — expansion never moves a
token into or out of operator position.

**Model parser** (`model_expand`): for texts whose token streams are related by expansion, if the
abbreviated one is an expression of the grammar nesting less than 200 deep, the model parser accepts
both texts and returns trees equal up to `normConv`.  Here `normConv` is needed, for two of its four
conventions: the model leaves `prop` empty in the step it makes for `.`, `..`, `//` and sets it to
`"node"` for a written `node()`; and it keeps the spelling `"//"` in the root node of `//a` where
`/descendant-or-self::node()/a` has `"/"`.  For `a` / `child::a` and `@a` / `attribute::a` the model's
trees are identical (examples at the end).
-/
set_option linter.unusedSimpArgs false
namespace XPathV.Lemmas.Abbrev
open XPathV XPathV.Model XPathV.Bridge XPathV.Spec.Full XPathV.Lemmas.ParserFull

/-! ## Grammar, on scanner tokens -/

/-- the classified written-out stream is the classified stream written out -/
theorem classify_expandWith (sel : Nat → Bool) (toks : List TokV) :
    EE false (classify none toks) (classify none (expandWith sel none 0 toks)) :=
  classify_expand sel none toks none 0 (Agree.rfl' _)

/-- every non-terminal: writing out any set of abbreviations keeps the tree -/
theorem Derives_expandWith {ns : Option NsMap} {X : NT} {toks : List TokV} {a : Ast} (sel : Nat → Bool)
    (h : Derives ns X toks a) : Derives ns (upNT X) (expandWith sel none 0 toks) a :=
  D_expand h (classify_expandWith sel toks)

/-- **Abbreviations mean their expansions (grammar).**  If `toks` is an expression with tree `a`, then
`toks` with the abbreviations at any set of positions written out is an expression with the same
tree `a`. -/
theorem Parses_expandWith {ns : Option NsMap} {toks : List TokV} {a : Ast} (sel : Nat → Bool)
    (h : Parses ns toks a) : Parses ns (expandWith sel none 0 toks) a :=
  Derives_expandWith sel h

theorem Parses_of_Expands {ns : Option NsMap} {toks toks' : List TokV} {a : Ast}
    (h : Parses ns toks a) (hx : Expands toks toks') : Parses ns toks' a := by
  obtain ⟨sel, rfl⟩ := hx
  exact Parses_expandWith sel h

/-- all abbreviations written out -/
theorem Parses_expandAbbrev {ns : Option NsMap} {toks : List TokV} {a : Ast} (h : Parses ns toks a) :
    Parses ns (expandAbbrev toks) a :=
  Parses_expandWith _ h

/-- a single occurrence written out -/
theorem Parses_expandAt {ns : Option NsMap} {toks : List TokV} {a : Ast} (i : Nat)
    (h : Parses ns toks a) : Parses ns (expandAt i toks) a :=
  Parses_expandWith _ h

/-- all abbreviations of one kind written out -/
theorem Parses_expandKind {ns : Option NsMap} {toks : List TokV} {a : Ast} (k : Kind)
    (h : Parses ns toks a) : Parses ns (expandKind k toks) a :=
  Parses_expandWith _ h

/-! ### one occurrence, stated without `expandWith`

`toks = pre ++ t :: post` with the abbreviation token `t` anywhere in the stream. -/

/-- `@` = `attribute::` -/
theorem Parses_at {ns : Option NsMap} {pre post : List TokV} {a : Ast}
    (h : Parses ns (pre ++ .at :: post) a) : Parses ns (pre ++ [.axis "attribute"] ++ post) a :=
  expandAt_at pre post ▸ Parses_expandAt pre.length h

/-- `.` = `self::node()` -/
theorem Parses_dot {ns : Option NsMap} {pre post : List TokV} {a : Ast}
    (h : Parses ns (pre ++ .dot :: post) a) : Parses ns (pre ++ nodeT "self" ++ post) a :=
  expandAt_dot pre post ▸ Parses_expandAt pre.length h

/-- `..` = `parent::node()` -/
theorem Parses_dotdot {ns : Option NsMap} {pre post : List TokV} {a : Ast}
    (h : Parses ns (pre ++ .dotdot :: post) a) : Parses ns (pre ++ nodeT "parent" ++ post) a :=
  expandAt_dotdot pre post ▸ Parses_expandAt pre.length h

/-- `//` = `/descendant-or-self::node()/` -/
theorem Parses_slashslash {ns : Option NsMap} {pre post : List TokV} {a : Ast}
    (h : Parses ns (pre ++ .slashslash :: post) a) : Parses ns (pre ++ dosT ++ post) a :=
  expandAt_slashslash pre post ▸ Parses_expandAt pre.length h

/-- no axis = `child::`, for a name at the start of the text that §3.7 makes a NameTest or NodeType
(elsewhere in the text the position of the step is what `expandAt` / `expandKind .child` identify) -/
theorem Parses_child_first {ns : Option NsMap} {p l : String} {b : Bool} {post : List TokV} {a : Ast}
    (hn : nameTestStart (classifyName none p l b) = true)
    (h : Parses ns (.name p l b :: post) a) : Parses ns (.axis "child" :: .name p l b :: post) a := by
  have e : expandAt 0 (.name p l b :: post) = .axis "child" :: .name p l b :: post := by
    simp only [expandAt, expandWith]
    rw [expandWith_none_from _ _ _ _ (fun j hj => by simp; omega)]
    simp [childPfx, hn, isAx]
  exact e ▸ Parses_expandAt 0 h

/-- the same for `*` at the start of the text -/
theorem Parses_child_first_star {ns : Option NsMap} {post : List TokV} {a : Ast}
    (h : Parses ns (.star :: post) a) : Parses ns (.axis "child" :: .star :: post) a := by
  have e : expandAt 0 (.star :: post) = .axis "child" :: .star :: post := by
    simp only [expandAt, expandWith]
    rw [expandWith_none_from _ _ _ _ (fun j hj => by simp; omega)]
    simp [childPfx, operatorPosition, nameTestStart, isAx]
  exact e ▸ Parses_expandAt 0 h

/-- **Conversely**: whatever tree a written-out form has is the tree of the abbreviated expression. -/
theorem expanded_tree_eq {ns : Option NsMap} {toks toks' : List TokV} {a a' : Ast}
    (h : Parses ns toks a) (hx : Expands toks toks') (h' : Parses ns toks' a') : a' = a :=
  Parses_unique h' (Parses_of_Expands h hx)

/-- for an expression `toks`: the trees of the written-out form are exactly the trees of `toks` -/
theorem Parses_expand_iff {ns : Option NsMap} {toks toks' : List TokV} {a : Ast}
    (h : Parses ns toks a) (hx : Expands toks toks') (a' : Ast) :
    Parses ns toks' a' ↔ Parses ns toks a' :=
  ⟨fun h' => expanded_tree_eq h hx h' ▸ h, fun h' => Parses_of_Expands h' hx⟩

/-- the same for the executable reference parser -/
theorem refParseFull_expand {ns : Option NsMap} {toks toks' : List TokV} {a : Ast}
    (h : refParseFull ns toks = some a) (hx : Expands toks toks') : refParseFull ns toks' = some a :=
  refParseFull_complete (Parses_of_Expands (refParseFull_sound h) hx)

theorem refParseFull_expandAbbrev {ns : Option NsMap} {toks : List TokV} {a : Ast}
    (h : refParseFull ns toks = some a) : refParseFull ns (expandAbbrev toks) = some a :=
  refParseFull_expand h (Expands.all toks)

/-! ## Model parser -/

/-- **Abbreviations mean their expansions (model parser).**  `text` and `text'` are texts whose token
streams `toks`, `toks'` are related by writing out some abbreviations; `toks` is an expression of the
XPath 1.0 grammar whose tree `b` nests less than 200 deep (`toks'` then has the same tree, so this is
the bound for both).  Then the model parser accepts both texts, and its two trees are equal up to
`normConv` (and equal, up to `normConv`, to the grammar's tree). -/
theorem model_expand {ns : Option NsMap} {text text' : List Char} {toks toks' : List TokV} {b : Ast}
    (ht : tokVsRel text toks) (ht' : tokVsRel text' toks') (hx : Expands toks toks')
    (hp : Parses ns toks b) (hd : nesting b < 200) :
    ∃ a a', parse (fuelFor text) (defaultCfg ns) text = .ok a ∧
      parse (fuelFor text') (defaultCfg ns) text' = .ok a' ∧
      normConv a = normConv a' ∧ normConv a = normConv b := by
  obtain ⟨a, h₁, e₁⟩ := full_complete ht (refParseFull_complete hp) hd
  obtain ⟨a', h₂, e₂⟩ := full_complete ht' (refParseFull_complete (Parses_of_Expands hp hx)) hd
  exact ⟨a, a', h₁, h₂, e₁.trans e₂.symm, e₁⟩

/-- with the nesting bound stated for both trees, as two separate parses -/
theorem model_expand' {ns : Option NsMap} {text text' : List Char} {toks toks' : List TokV} {b b' : Ast}
    (ht : tokVsRel text toks) (ht' : tokVsRel text' toks') (hx : Expands toks toks')
    (hp : Parses ns toks b) (hp' : Parses ns toks' b') (hd : nesting b < 200) :
    b' = b ∧ nesting b' < 200 ∧
    ∃ a a', parse (fuelFor text) (defaultCfg ns) text = .ok a ∧
      parse (fuelFor text') (defaultCfg ns) text' = .ok a' ∧ normConv a = normConv a' := by
  obtain rfl := expanded_tree_eq hp hx hp'
  obtain ⟨a, a', h₁, h₂, e, _⟩ := model_expand ht ht' hx hp hd
  exact ⟨rfl, hd, a, a', h₁, h₂, e⟩

/-- with the driver's functions: both token streams computed by `tokVs`, the tree by `refParseFull` -/
theorem model_expand_tokVs {ns : Option NsMap} {text text' : List Char} {toks toks' : List TokV} {b : Ast}
    (ht : tokVs text = some toks) (ht' : tokVs text' = some toks') (hx : Expands toks toks')
    (hp : refParseFull ns toks = some b) (hd : nesting b < 200) :
    ∃ a a', parse (fuelFor text) (defaultCfg ns) text = .ok a ∧
      parse (fuelFor text') (defaultCfg ns) text' = .ok a' ∧
      normConv a = normConv a' ∧ normConv a = normConv b :=
  model_expand (tokVs_sound ht) (tokVs_sound ht') hx (refParseFull_sound hp) hd

/-! ## Examples (kernel evaluation of the scanner model, `tokVs`, `expandAbbrev`, `refParseFull`) -/
section Examples

/-- both texts scan; the token stream of `t'` is that of `t` with every abbreviation written out; the
reference parser accepts `t` and gives both the same tree -/
def checkFull (ns : Option NsMap) (t t' : String) : Bool :=
  match tokVs t.toList, tokVs t'.toList with
  | some a, some b =>
    decide (expandAbbrev a = b) && (refParseFull ns a).isSome && decide (refParseFull ns a = refParseFull ns b)
  | _, _ => false

/-- the same for the single occurrence at token position `i` -/
def checkAt (ns : Option NsMap) (i : Nat) (t t' : String) : Bool :=
  match tokVs t.toList, tokVs t'.toList with
  | some a, some b =>
    decide (expandAt i a = b) && (refParseFull ns a).isSome && decide (refParseFull ns a = refParseFull ns b)
  | _, _ => false

example : checkFull none "a" "child::a" = true := by decide +kernel
example : checkFull none "@k" "attribute::k" = true := by decide +kernel
example : checkFull none "." "self::node()" = true := by decide +kernel
example : checkFull none ".." "parent::node()" = true := by decide +kernel
example : checkFull none "//a" "/descendant-or-self::node()/child::a" = true := by decide +kernel
example : checkFull none "a//b" "child::a/descendant-or-self::node()/child::b" = true := by decide +kernel
example : checkFull none "a[@k]/.." "child::a[attribute::k]/parent::node()" = true := by decide +kernel
example : checkFull none ".//@*" "self::node()/descendant-or-self::node()/attribute::*" = true := by
  decide +kernel
example : checkFull none "text()" "child::text()" = true := by decide +kernel
example : checkFull (some [("p", "urn:p")]) "p:*/@p:k" "child::p:*/attribute::p:k" = true := by
  decide +kernel
example : checkFull none "f(.)//a[../@k = $v]"
    "f(self::node())/descendant-or-self::node()/child::a[parent::node()/attribute::k = $v]" = true := by
  decide +kernel

-- the classification of `*` and of operator names is not disturbed
example : checkFull none "a/*" "child::a/child::*" = true := by decide +kernel
example : checkFull none "2 * a" "2 * child::a" = true := by decide +kernel
example : checkFull none "* * *" "child::* * child::*" = true := by decide +kernel
example : checkFull none ". * .." "self::node() * parent::node()" = true := by decide +kernel
example : checkFull none "a div div" "child::a div child::div" = true := by decide +kernel
example : checkFull none "@and and and" "attribute::and and child::and" = true := by decide +kernel
example : checkFull none ".. and //or" "parent::node() and /descendant-or-self::node()/child::or" = true := by
  decide +kernel

-- one occurrence at a time (token positions): `a//b` = tokens `a`, `//`, `b`
example : checkAt none 0 "a//b" "child::a//b" = true := by decide +kernel
example : checkAt none 1 "a//b" "a/descendant-or-self::node()/b" = true := by decide +kernel
example : checkAt none 2 "a//b" "a//child::b" = true := by decide +kernel
example : checkAt none 2 "a[@k]/.." "a[attribute::k]/.." = true := by decide +kernel
-- position 3 is the `k` after `@`: it has an axis specifier, nothing to write out
example : checkAt none 3 "a[@k]/.." "a[@k]/.." = true := by decide +kernel
-- one kind at a time
example : (tokVs "a[@k]/..".toList).map (expandKind .attribute) = tokVs "a[attribute::k]/..".toList := by
  decide +kernel
example : (tokVs "a[@k]/..".toList).map (expandKind .child) = tokVs "child::a[@k]/..".toList := by
  decide +kernel

/-- the converse implication fails for the Recommendation's grammar: an AbbreviatedStep takes no
predicates, the step it abbreviates does -/
theorem not_conversely :
    (∃ a, Parses none (expandAbbrev [.dot, .lbracket, .num "1", .rbracket]) a) ∧
    ¬ ∃ a, Parses none [.dot, .lbracket, .num "1", .rbracket] a := by
  refine ⟨⟨_, refParseFull_sound (a := .filter (nodeStep "self" .none) (.num "1")) (by decide)⟩, ?_⟩
  rintro ⟨a, h⟩
  exact not_Parses_of_none (by decide) a h

/-- model trees of two texts, when the model parser accepts both -/
def modelTrees (ns : Option NsMap) (t t' : String) : Option (Ast × Ast) :=
  match parse (fuelFor t.toList) (defaultCfg ns) t.toList, parse (fuelFor t'.toList) (defaultCfg ns) t'.toList with
  | .ok a, .ok b => some (a, b)
  | _, _ => none

/-- (the two model trees are equal, they are equal up to `normConv`) -/
def cmpModel (t t' : String) : Option (Bool × Bool) :=
  (modelTrees none t t').map (fun p => (p.1 == p.2, normConv p.1 == normConv p.2))

-- in the model, `child::` and `attribute::` give the very same tree as their abbreviations …
example : cmpModel "a" "child::a" = some (true, true) := by decide +kernel
example : cmpModel "@k" "attribute::k" = some (true, true) := by decide +kernel
example : cmpModel "a/*" "child::a/child::*" = some (true, true) := by decide +kernel
-- … and `.`, `..`, `//` differ from their expansions in what `normConv` erases (the `prop` field of
-- the `node()` step, the slash string of the root), and in nothing else
example : cmpModel "." "self::node()" = some (false, true) := by decide +kernel
example : cmpModel ".." "parent::node()" = some (false, true) := by decide +kernel
example : cmpModel "//a" "/descendant-or-self::node()/child::a" = some (false, true) := by decide +kernel
example : cmpModel "a//b" "child::a/descendant-or-self::node()/child::b" = some (false, true) := by
  decide +kernel
-- the two differences, spelled out
example : modelTrees none "." "self::node()"
    = some (.axis ⟨"self", .all, "", "", "", false, ""⟩ .none,
            .axis ⟨"self", .all, "", "", "node", false, ""⟩ .none) := by decide +kernel
example : modelTrees none "//a" "/descendant-or-self::node()/child::a"
    = some (child "a" (.axis ⟨"descendant-or-self", .all, "", "", "", false, ""⟩ (.root "//")),
            child "a" (.axis ⟨"descendant-or-self", .all, "", "", "node", false, ""⟩ (.root "/"))) := by
  decide +kernel

/-- an instance of `model_expand_tokVs` with all hypotheses evaluated -/
example : ∃ a a', parse (fuelFor "a[@k]/..".toList) (defaultCfg none) "a[@k]/..".toList = .ok a ∧
    parse (fuelFor "child::a[attribute::k]/parent::node()".toList) (defaultCfg none)
      "child::a[attribute::k]/parent::node()".toList = .ok a' ∧ normConv a = normConv a' := by
  have ht : tokVs "a[@k]/..".toList = some [.name "" "a" false, .lbracket, .at, .name "" "k" false,
      .rbracket, .slash, .dotdot] := by decide +kernel
  have ht' : tokVs "child::a[attribute::k]/parent::node()".toList = some (expandAbbrev
      [.name "" "a" false, .lbracket, .at, .name "" "k" false, .rbracket, .slash, .dotdot]) := by
    decide +kernel
  obtain ⟨a, a', h₁, h₂, e, _⟩ := model_expand_tokVs (ns := none) ht ht' (Expands.all _)
    (b := nodeStep "parent" (.filter (child "a") (.axis ⟨"attribute", .attr, "", "k", "", false, ""⟩ .none)))
    (by decide +kernel) (by decide +kernel)
  exact ⟨a, a', h₁, h₂, e⟩

end Examples

/-! ## Axioms -/

end XPathV.Lemmas.Abbrev
