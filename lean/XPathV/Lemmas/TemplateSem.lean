import XPathV.Lemmas.TemplateSem.FuelFree
/-!
# C16: `replace(s, p, r)` equals `ReplaceAllString` with `$n` read as group `n`

`replace_template_spec`: for every replacement string, every match and every group count below 10^8, Go's
expansion of the template written by `xpathReplacement` equals the specification's reading of the XPath
replacement string.  Fuel facts (`rewrite_fuel`, `expandGo_fuel`, `expandSpec_fuel`) are in `TemplateSem/Fuel`.
-/
namespace XPathV.Lemmas.TemplateSem
open XPathV.Model.Template XPathV.Spec.Template

/-! ## a found reference -/

theorem refLen_pos_shape {groups : Nat} {t : List Char} (h : refLen groups t > 0) :
    ∃ c t', t = c :: t' ∧ c ≠ '0' ∧ isDigitCh c = true := by
  match t with
  | [] => simp [refLen_nil] at h
  | c :: t' =>
    refine ⟨c, t', rfl, ?_, ?_⟩
    · intro h0; subst h0; simp [refLen_zero_head] at h
    · cases hc : isDigitCh c
      · rw [refLen_nondigit _ _ hc] at h; omega
      · rfl

theorem refLen_le_length (groups : Nat) (t : List Char) : refLen groups t ≤ t.length :=
  Nat.le_trans (refLen_le groups t) (List.takeWhile_sublist _).length_le

theorem refLen_take_digits (groups : Nat) (t : List Char) :
    ∀ a ∈ t.take (refLen groups t), isDigitCh a = true :=
  take_all_of_le_takeWhile isDigitCh t _ (refLen_le groups t)

theorem refLen_take_val {groups : Nat} {t : List Char} (h : refLen groups t > 0) :
    numVal (t.take (refLen groups t)) ≤ groups := by
  obtain ⟨c, t', rfl, h0, _⟩ := refLen_pos_shape h
  rw [refLen_eq_scan h0, numVal_eq]
  exact scanRef_val groups _ 0 (Nat.zero_le _)

theorem refLen_take_parse {groups : Nat} (hk : groups < 100000000) {t : List Char} (h : refLen groups t > 0) :
    parseNum (t.take (refLen groups t)) = some (numVal (t.take (refLen groups t))) := by
  have hv := refLen_take_val h
  have hd := refLen_take_digits groups t
  obtain ⟨c, t', rfl, h0, _⟩ := refLen_pos_shape h
  obtain ⟨k, hk'⟩ : ∃ k, refLen groups (c :: t') = k + 1 := ⟨refLen groups (c :: t') - 1, by omega⟩
  rw [hk'] at hv hd ⊢
  rw [List.take_succ_cons] at hv hd ⊢
  exact parseNum_digits h0 hd (by omega)

theorem refLen_take_ne_nil {groups : Nat} {t : List Char} (h : refLen groups t > 0) :
    t.take (refLen groups t) ≠ [] := by
  obtain ⟨c, t', rfl, _, _⟩ := refLen_pos_shape h
  obtain ⟨k, hk'⟩ : ∃ k, refLen groups (c :: t') = k + 1 := ⟨refLen groups (c :: t') - 1, by omega⟩
  rw [hk', List.take_succ_cons]
  simp

/-! ## the main induction -/

theorem eg_rwT_eq_es (g : Groups) (groups : Nat) (hk : groups < 100000000) :
    ∀ (n : Nat) (r : List Char), r.length ≤ n → eg g (rwT groups r) = es g groups r := by
  intro n
  induction n with
  | zero =>
    intro r h
    have : r = [] := List.eq_nil_of_length_eq_zero (by omega)
    subst this; rfl
  | succ n ih =>
    intro r hn
    match r with
    | [] => rfl
    | c :: t =>
      simp only [List.length_cons] at hn
      by_cases hc : c = '$'
      · subst hc
        -- `$` followed by something that is not `$`
        have key : ∀ t : List Char, NoDollarHead t → t.length ≤ n →
            eg g (rwT groups ('$' :: t)) = es g groups ('$' :: t) := by
          intro t hnd hn
          rw [rwT_dollar _ hnd, es_dollar _ _ hnd, longestRef_eq]
          by_cases hpos : refLen groups t > 0
          · -- a group reference: `${digits}`
            simp only [hpos, if_true]
            rw [eg_dollar _ (noDollarHead_cons (by decide)),
              extract_braced _ (refLen_take_ne_nil hpos) (refLen_take_digits groups t),
              refLen_take_parse hk hpos]
            simp only []
            have hlen : (t.take (refLen groups t)).length = refLen groups t := by
              rw [List.length_take]; have := refLen_le_length groups t; omega
            rw [hlen, ih (t.drop (refLen groups t)) (by simp only [List.length_drop]; omega)]
            rfl
          · -- no reference: Go reads the `$`
            simp only [hpos, if_false]
            rw [eg_dollar _ (rwT_noDollarHead _ hnd), extract_rwT _ hnd]
            cases heq : extract t with
            | none =>
              simp only []
              rw [ih t hn]
            | some x =>
              obtain ⟨nm, num, rest⟩ := x
              have := extract_rest_le heq
              simp only []
              rw [ih rest (by omega)]
        match t with
        | '$' :: t' =>
          simp only [List.length_cons] at hn
          rw [rwT_dd, eg_dd, es_dd, ih t' (by omega)]
        | [] => exact key [] noDollarHead_nil (by simp)
        | c :: t' =>
          by_cases hc : c = '$'
          · subst hc
            simp only [List.length_cons] at hn
            rw [rwT_dd, eg_dd, es_dd, ih t' (by omega)]
          · exact key (c :: t') (noDollarHead_cons hc) (by omega)
      · rw [rwT_cons_ne _ _ hc, eg_cons_ne _ _ hc, es_cons_ne _ _ _ hc, ih t (by omega)]

/-- **C16.**  Expanding, with Go's `Regexp.expand`, the template that `xpathReplacement` writes equals the
specification's direct reading of the XPath replacement string — for every replacement string, every match
and every number of groups below 10^8 (the bound above which Go's `extract` no longer reads a number). -/
theorem replace_template_spec (g : Groups) (groups : Nat) (hk : groups < 100000000) (r : List Char) :
    replaceOne g groups r = replaceOneSpec g groups r := by
  rw [replaceOne_eq, replaceOneSpec_eq]
  exact eg_rwT_eq_es g groups hk r.length r (Nat.le_refl _)

/-! ## readable corollaries -/

theorem rwT_noDollar (groups : Nat) (r : List Char) (h : '$' ∉ r) : rwT groups r = r := by
  induction r with
  | nil => rfl
  | cons c t ih =>
    have hc : c ≠ '$' := by intro e; subst e; exact h (by simp)
    rw [rwT_cons_ne _ _ hc, ih (fun hm => h (by simp [hm]))]

/-- a template without `$` is returned unchanged -/
theorem replaceOne_noDollar (g : Groups) (k : Nat) (r : List Char) (h : '$' ∉ r) : replaceOne g k r = r := by
  rw [replaceOne_eq, rwT_noDollar k r h]
  exact expandGo_noDollar g _ r h

/-- `$$` is a literal dollar -/
theorem replaceOne_dd (g : Groups) (k : Nat) (rest : List Char) :
    replaceOne g k ('$' :: '$' :: rest) = '$' :: replaceOne g k rest := by
  rw [replaceOne_eq, replaceOne_eq, rwT_dd, eg_dd]

theorem scanRef_append (groups : Nat) (ds rest : List Char) (n : Nat)
    (hall : ∀ a ∈ ds, isDigitCh a = true) (hv : ds.foldl dstep n ≤ groups) :
    scanRef groups (ds ++ rest) n 0 = ds.length + scanRef groups rest (ds.foldl dstep n) 0 := by
  induction ds generalizing n with
  | nil => simp
  | cons c ds ih =>
    have hc : isDigitCh c = true := hall c (by simp)
    simp only [List.foldl_cons] at hv
    have hge := foldl_dstep_ge ds (dstep n c)
    rw [List.cons_append, scanRef_cons_digit _ _ _ hc, if_neg (by omega),
      ih (dstep n c) (fun a ha => hall a (by simp [ha])) hv]
    simp only [List.length_cons, List.foldl_cons]
    omega

/-- the reference, for a numeral given as a digit string: `$ds` followed by `rest` is group `numVal ds` followed
by the reading of `rest`, provided `ds` is a numeral without leading zero naming an existing group and no longer
numeral does (`rest` does not go on with a digit `d` such that `10 * numVal ds + d` is still a group) -/
theorem replaceOne_ref_digits (g : Groups) (k : Nat) (hk : k < 100000000) {c : Char} (ds rest : List Char)
    (h0 : c ≠ '0') (hall : ∀ a ∈ c :: ds, isDigitCh a = true) (hv : numVal (c :: ds) ≤ k)
    (hrest : ∀ d rest', rest = d :: rest' → isDigitCh d = true → k < 10 * numVal (c :: ds) + digitVal d) :
    replaceOne g k ('$' :: (c :: ds) ++ rest) =
      (g.texts.getD (numVal (c :: ds)) none).getD [] ++ replaceOne g k rest := by
  rw [replace_template_spec g k hk, replace_template_spec g k hk, replaceOneSpec_eq, replaceOneSpec_eq]
  have hcd : isDigitCh c = true := hall c (by simp)
  have hc : c ≠ '$' := by intro e; subst e; simp [isDigitCh] at hcd
  have hlen : refLen k ((c :: ds) ++ rest) = (c :: ds).length := by
    rw [List.cons_append, refLen_eq_scan h0, ← List.cons_append,
      scanRef_append k (c :: ds) rest 0 hall (by rw [← numVal_eq]; exact hv), ← numVal_eq]
    have : scanRef k rest (numVal (c :: ds)) 0 = 0 := by
      match rest, hrest with
      | [], _ => rfl
      | d :: rest', hrest =>
        cases hd : isDigitCh d
        · exact scanRef_cons_nondigit _ _ _ hd
        · have := hrest d rest' rfl hd
          rw [scanRef_cons_digit _ _ _ hd, if_pos (by unfold dstep; omega)]
    omega
  rw [List.cons_append, List.cons_append, es_dollar _ _ (noDollarHead_cons hc), longestRef_eq,
    ← List.cons_append, hlen]
  simp

/-- `digitsOf n` is the decimal numeral of `n` -/
theorem digitsOf_eq (n : Nat) : digitsOf n = Nat.toDigits 10 n := by
  simp [digitsOf]

theorem digitsOf_digits (n : Nat) : ∀ a ∈ digitsOf n, isDigitCh a = true := by
  intro a ha
  rw [digitsOf_eq] at ha
  have h := Nat.isDigit_of_mem_toDigits (by decide) (by decide) ha
  simp only [Char.isDigit, Bool.and_eq_true, decide_eq_true_eq] at h
  simp only [isDigitCh, Bool.and_eq_true, decide_eq_true_eq]
  exact h

theorem numVal_digitsOf (n : Nat) : numVal (digitsOf n) = n := by
  have h := @Nat.ofDigitChars_ten_toDigits n
  rw [digitsOf_eq]
  have e : (fun (m : Nat) (c : Char) => m * 10 + digitVal c) =
      (fun sofar c => 10 * sofar + (c.toNat - '0'.toNat)) := by
    funext m c; simp only [digitVal]; omega
  unfold numVal
  rw [e]
  exact h

theorem toDigits_head_ne_zero (n : Nat) (hn : 0 < n) :
    ∃ c ds, Nat.toDigits 10 n = c :: ds ∧ c ≠ '0' := by
  induction n using Nat.strongRecOn with
  | _ n ih =>
    rw [Nat.toDigits_eq_if (by decide)]
    split
    · refine ⟨_, [], rfl, ?_⟩
      have : n = 1 ∨ n = 2 ∨ n = 3 ∨ n = 4 ∨ n = 5 ∨ n = 6 ∨ n = 7 ∨ n = 8 ∨ n = 9 := by omega
      rcases this with h | h | h | h | h | h | h | h | h <;> subst h <;> decide
    · obtain ⟨c, ds, e, hc⟩ := ih (n / 10) (by omega) (by omega)
      exact ⟨c, ds ++ [Nat.digitChar (n % 10)], by rw [e]; rfl, hc⟩

/-- `$n` followed by `rest` is the text of group `n` followed by the reading of `rest`, when `1 ≤ n ≤ k` and `rest`
does not go on with a digit `d` such that `10 * n + d ≤ k` -/
theorem replaceOne_ref (g : Groups) (k : Nat) (hk : k < 100000000) (n : Nat) (h1 : 1 ≤ n) (hn : n ≤ k)
    (rest : List Char)
    (hrest : ∀ d rest', rest = d :: rest' → isDigitCh d = true → k < 10 * n + digitVal d) :
    replaceOne g k ('$' :: digitsOf n ++ rest) = (g.texts.getD n none).getD [] ++ replaceOne g k rest := by
  obtain ⟨c, ds, e, hc⟩ := toDigits_head_ne_zero n (by omega)
  rw [← digitsOf_eq] at e
  have hv := numVal_digitsOf n
  have hall := digitsOf_digits n
  rw [e] at hv hall ⊢
  have := replaceOne_ref_digits g k hk ds rest hc hall (by omega) (by rw [hv]; exact hrest)
  rw [hv] at this
  exact this

/-- in particular when a character that is not a digit follows: `$1x` is group 1 followed by `x`
(Go alone would look for a group *named* `1x`) -/
theorem replaceOne_ref_nondigit (g : Groups) (k : Nat) (hk : k < 100000000) (n : Nat) (h1 : 1 ≤ n) (hn : n ≤ k)
    (d : Char) (rest : List Char) (hd : isDigitCh d = false) :
    replaceOne g k ('$' :: digitsOf n ++ d :: rest) =
      (g.texts.getD n none).getD [] ++ replaceOne g k (d :: rest) :=
  replaceOne_ref g k hk n h1 hn (d :: rest) (by
    intro d' rest' e hd'
    cases e
    rw [hd] at hd'; cases hd')

/-- … and at the end of the template -/
theorem replaceOne_ref_end (g : Groups) (k : Nat) (hk : k < 100000000) (n : Nat) (h1 : 1 ≤ n) (hn : n ≤ k) :
    replaceOne g k ('$' :: digitsOf n) = (g.texts.getD n none).getD [] := by
  have := replaceOne_ref g k hk n h1 hn [] (by intro d rest' e; cases e)
  simpa [replaceOne_noDollar] using this

/-! ## examples (one match: whole match `m`, group 1 = `b`; one group) -/

/-- a match with one group: the whole match is `m`, group 1 is `b` -/
def g1 : Groups := ⟨[some ['m'], some ['b']], [[], []]⟩

-- `$1x`: group 1, then `x` (Go's own reading of `$1x` is the group named `1x`: empty)
example : replaceOne g1 1 ['$', '1', 'x'] = ['b', 'x'] := by decide
example : expandGo g1 4 ['$', '1', 'x'] = [] := by decide
-- `$10` with one group: group 1, then `0`
example : replaceOne g1 1 ['$', '1', '0'] = ['b', '0'] := by decide
-- `$$1`: a literal dollar, then `1`
example : replaceOne g1 1 ['$', '$', '1'] = ['$', '1'] := by decide
-- `$01`: not a numbered reference (leading zero); Go reads the group named `01`: empty
example : replaceOne g1 1 ['$', '0', '1'] = [] := by decide
-- `${1}`: Go's braced form is kept
example : replaceOne g1 1 ['$', '{', '1', '}'] = ['b'] := by decide
-- `x$`: a final `$` is raw text
example : replaceOne g1 1 ['x', '$'] = ['x', '$'] := by decide
-- `$0` is the whole match; `$2` with one group is empty; `$1$1`
example : replaceOne g1 1 ['$', '0'] = ['m'] := by decide
example : replaceOne g1 1 ['$', '2'] = [] := by decide
example : replaceOne g1 1 ['$', '1', '$', '1'] = ['b', 'b'] := by decide
-- the specification gives the same on each of them
example : (([['$', '1', 'x'], ['$', '1', '0'], ['$', '$', '1'], ['$', '0', '1'], ['$', '{', '1', '}'],
    ['x', '$'], ['$', '0'], ['$', '2'], ['$', '1', '$', '1']] : List (List Char)).all
    (fun r => replaceOne g1 1 r == replaceOneSpec g1 1 r)) = true := by decide

end XPathV.Lemmas.TemplateSem

section Axioms
open XPathV.Lemmas.TemplateSem
end Axioms
