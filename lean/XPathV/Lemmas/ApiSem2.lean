import XPathV.Lemmas.ApiSem
import XPathV.Lemmas.PredSem2
/-!
# C02 at the public API for the extended fragment `Frag2`

`ApiSem` restates C02 against `Model.compile` / `Model.selectAll` / `Model.evaluate` for texts that
parse into `PredSem.Frag`.  Here the same statements for the larger fragment `PredSem2.Frag2`
(`count(P) op n`, `not(count(P))`, `contains`/`starts-with`/`ends-with` forms, `local-name` forms,
the parenthesised `(P)[b]`, `P op Q`, `P op 'lit'`, `'lit' op P`).

* `build_frag2_pathShape` — the plan `build` makes of a path of `Frag2` is path-shaped (a step, a
  filter or a merge), the top-level `(P)[b]` included: it is built by the `.filter` arm, whose result
  is `.filter _ _` (the merge form needs `inp.isAxis`, which `.group _` is not).  No constructor of
  `Frag2` had to be excluded.
* `compile_of_frag2`, `C02_compile2`, `C02_compile_source2`, `C02_compile_evaluate2`,
  `C02_compile_total2`
-/
namespace XPathV.ApiSem
open XPathV XPathV.Model XPathV.PathSem XPathV.PredSem XPathV.PredSem2

variable {F : Type} [NumAlg F]

/-- **the plan `build` makes of a path of the extended fragment is path-shaped** (a step, a filter
or a merge), whatever the flags, the state and the two switches -/
theorem build_frag2_pathShape (regexOk : RegexOk) (limit : Nat) (snt sdf : Bool) {p : Ast}
    (hp : Frag2 true p) (fl : Flags) (st : BState) (o : BOut)
    (h : build regexOk limit snt sdf p fl st = .ok o) : PathShape o.q := by
  have stepShape : ∀ (a : AxisInfo) (fl : Flags) (pr pr' : Props) (inp q : Plan) (st' : BState),
      axisPlan a fl pr inp = .ok (q, pr') → build.finAxis q pr' st' = .ok o → PathShape o.q := by
    intro a fl pr pr' inp q st' hq hfin
    rw [finAxis_q _ _ _ _ hfin]
    exact (axisPlan_inv a fl pr inp q pr' hq).1
  have filterShape : ∀ (inp b : Ast),
      build regexOk limit snt sdf (.filter inp b) fl st = .ok o → PathShape o.q := by
    intro inp b h
    obtain ⟨st1, io, X, _, hor⟩ := FlatFiltered.build_filter_shape regexOk limit snt sdf inp b fl st o h
    rcases hor with hq | ⟨_, parent, _, hq⟩ <;> (rw [hq]; trivial)
  cases hp with
  | none => rw [build] at h; cases h
  | root s => rw [(build_root_inv regexOk limit snt sdf s fl st o h).1]; trivial
  | filter inp b hinp hb => exact filterShape _ _ h
  | gfilter p b hp hb => exact filterShape _ _ h
  | axis a inp hinp ha =>
    have other : ∀ inp', (inp' ≠ .none) → (∀ b g, inp' = .axis b g → False) →
        build regexOk limit snt sdf (.axis a inp') fl st = .ok o → PathShape o.q := by
      intro inp' h1 h2 h
      rw [build] at h
      · replace h := enter_ok _ _ _ _ h
        obtain ⟨o1, ho1, h⟩ := except_bind_ok _ _ _ h
        obtain ⟨⟨q, props⟩, hq, hfin⟩ := except_bind_ok _ _ _ h
        exact stepShape _ _ _ _ _ _ _ hq hfin
      · exact h1
      · exact h2
    cases hinp with
    | none =>
      rw [build] at h
      replace h := enter_ok _ _ _ _ h
      obtain ⟨⟨q, props⟩, hq, hfin⟩ := except_bind_ok _ _ _ h
      exact stepShape _ _ _ _ _ _ _ hq hfin
    | root s => exact other _ (fun h => by cases h) (fun b g h => by cases h) h
    | filter i c hi hc => exact other _ (fun h => by cases h) (fun b g h => by cases h) h
    | gfilter i c hi hc => exact other _ (fun h => by cases h) (fun b g h => by cases h) h
    | axis b grand hg hb =>
      rw [build] at h
      replace h := enter_ok _ _ _ _ h
      simp only [] at h
      split at h
      · have key : ∀ gq, o.q = .descendant a false gq → PathShape o.q := by
          intro gq hq; rw [hq]; trivial
        cases hg with
        | none =>
          simp only [pure, Except.pure, bind, Except.bind] at h
          exact key _ (finAxis_q _ _ _ _ h)
        | root s =>
          simp only [] at h
          obtain ⟨o1, ho1, h⟩ := except_bind_ok _ _ _ h
          simp only [pure, Except.pure, bind, Except.bind] at h
          exact key o1.q (finAxis_q _ _ _ _ h)
        | axis e g2 hg2 he =>
          simp only [] at h
          obtain ⟨o1, ho1, h⟩ := except_bind_ok _ _ _ h
          simp only [pure, Except.pure, bind, Except.bind] at h
          exact key o1.q (finAxis_q _ _ _ _ h)
        | filter i c hi hc =>
          simp only [] at h
          obtain ⟨o1, ho1, h⟩ := except_bind_ok _ _ _ h
          simp only [pure, Except.pure, bind, Except.bind] at h
          exact key o1.q (finAxis_q _ _ _ _ h)
        | gfilter i c hi hc =>
          simp only [] at h
          obtain ⟨o1, ho1, h⟩ := except_bind_ok _ _ _ h
          simp only [pure, Except.pure, bind, Except.bind] at h
          exact key o1.q (finAxis_q _ _ _ _ h)
      · obtain ⟨o1, ho1, h⟩ := except_bind_ok _ _ _ h
        obtain ⟨⟨q, props⟩, hq, hfin⟩ := except_bind_ok _ _ _ h
        exact stepShape _ _ _ _ _ _ _ hq hfin

/-- **`compile` on a text that parses into the extended fragment**: whenever the builder succeeds,
`compile` returns the builder's plan (it is never the nil query) -/
theorem compile_of_frag2 (cc : CompileCfg) (ns : Option (List (String × String))) (text : List Char)
    (a : Ast) (o : BOut) (hparse : parse (fuelFor text) (defaultCfg ns) text = .ok a)
    (hfrag : Frag2 true a)
    (hb : build cc.regexOk apiLimit cc.shortcutNeedsNodeTest cc.smartDescThroughFilter a {} {} = .ok o) :
    compile cc ns text = .ok o.q :=
  compile_of_build cc ns text (text_ne_nil_of_parse ns text a hparse) a o hparse hb
    (pathShape_ne_nil _ (build_frag2_pathShape _ _ _ _ hfrag _ _ o hb))

/-- **C02 (extended fragment), the three stages spelled out**: parser result `a` in `Frag2`, builder
result `o` (switches as read off the source) ⇒ `selectAll` of `o.q` from a valid context node
succeeds with exactly the members of the node-set `Spec.evalTop` assigns to `a` -/
theorem C02_api_build2 {d : Doc} (wf : WF d) (cfg : ECfg) (hns : cfg.nsIface = true)
    (hinj : HashInj d cfg) (regexOk : RegexOk) (limit : Nat) (a : Ast) (hfrag : Frag2 true a)
    (o : BOut) (hb : build regexOk limit true false a {} {} = .ok o)
    (c : Ref) (hc : validRef d c = true) :
    ∃ l ns, selectAll (F := F) d cfg o.q c = .ok l ∧
      Spec.evalTop (F := F) d a c = .ok (.nodes ns) ∧ ∀ x, x ∈ l ↔ x ∈ ns := by
  obtain ⟨out, ns, h1, h2, h3⟩ := C02_evalTop2 (F := F) wf cfg hns hinj regexOk limit a hfrag {} o hb c hc
  exact ⟨refs out, ns, selectAll_of_sel d cfg o.q c out h1, h2, h3⟩

/-- **C02 (extended fragment) against `compile` / `selectAll`** -/
theorem C02_compile2 {d : Doc} (wf : WF d) (cfg : ECfg) (hns : cfg.nsIface = true)
    (hinj : HashInj d cfg) (cc : CompileCfg) (hsnt : cc.shortcutNeedsNodeTest = true)
    (hsdf : cc.smartDescThroughFilter = false) (ns : Option (List (String × String)))
    (text : List Char) (a : Ast) (hparse : parse (fuelFor text) (defaultCfg ns) text = .ok a)
    (hfrag : Frag2 true a) (p : Plan) (hcomp : compile cc ns text = .ok p)
    (c : Ref) (hc : validRef d c = true) :
    ∃ l nsl, selectAll (F := F) d cfg p c = .ok l ∧
      Spec.evalTop (F := F) d a c = .ok (.nodes nsl) ∧ ∀ x, x ∈ l ↔ x ∈ nsl := by
  obtain ⟨_, a', o, hp', hb, hq, _⟩ := compile_inv cc ns text p hcomp
  rw [hparse] at hp'; cases hp'
  rw [hsnt, hsdf] at hb
  rw [← hq]
  exact C02_api_build2 wf cfg hns hinj cc.regexOk apiLimit a hfrag o hb c hc

/-- **C02 (extended fragment) against `compile` at the source configuration** -/
theorem C02_compile_source2 {d : Doc} (wf : WF d) (cfg : ECfg) (hns : cfg.nsIface = true)
    (hinj : HashInj d cfg) (regexOk : RegexOk) (ns : Option (List (String × String)))
    (text : List Char) (a : Ast) (hparse : parse (fuelFor text) (defaultCfg ns) text = .ok a)
    (hfrag : Frag2 true a) (p : Plan) (hcomp : compile { regexOk := regexOk } ns text = .ok p)
    (c : Ref) (hc : validRef d c = true) :
    ∃ l nsl, selectAll (F := F) d cfg p c = .ok l ∧
      Spec.evalTop (F := F) d a c = .ok (.nodes nsl) ∧ ∀ x, x ∈ l ↔ x ∈ nsl :=
  C02_compile2 wf cfg hns hinj { regexOk := regexOk } (srcCfg_snt regexOk) (srcCfg_sdf regexOk)
    ns text a hparse hfrag p hcomp c hc

/-- **C02 (extended fragment) against `compile` / `evaluate`**: `Expr.Evaluate` of the compiled path
returns a node-set with exactly the oracle's members — the same list `selectAll` returns -/
theorem C02_compile_evaluate2 {d : Doc} (wf : WF d) (cfg : ECfg) (hns : cfg.nsIface = true)
    (hinj : HashInj d cfg) (cc : CompileCfg) (hsnt : cc.shortcutNeedsNodeTest = true)
    (hsdf : cc.smartDescThroughFilter = false) (ns : Option (List (String × String)))
    (text : List Char) (a : Ast) (hparse : parse (fuelFor text) (defaultCfg ns) text = .ok a)
    (hfrag : Frag2 true a) (p : Plan) (hcomp : compile cc ns text = .ok p)
    (c : Ref) (hc : validRef d c = true) :
    ∃ l nsl, evaluate (F := F) d cfg p c = .ok (.nodes l) ∧ selectAll (F := F) d cfg p c = .ok l ∧
      Spec.evalTop (F := F) d a c = .ok (.nodes nsl) ∧ ∀ x, x ∈ l ↔ x ∈ nsl := by
  obtain ⟨_, a', o, hp', hb, hq, _⟩ := compile_inv cc ns text p hcomp
  rw [hparse] at hp'; cases hp'
  have hsh := build_frag2_pathShape _ _ _ _ hfrag _ _ o hb
  rw [hsnt, hsdf] at hb
  rw [← hq]
  obtain ⟨out, nsl, h1, h2, h3⟩ :=
    C02_evalTop2 (F := F) wf cfg hns hinj cc.regexOk apiLimit a hfrag {} o hb c hc
  exact ⟨refs out, nsl, evaluate_of_sel d cfg o.q hsh c out h1, selectAll_of_sel d cfg o.q c out h1,
    h2, h3⟩

/-- **the whole pipeline on a text of the extended fragment**: `compile` (source configuration)
either reports a *builder* error (never "empty", a parse error, lack of fuel or the nil query), or
returns a path-shaped plan on which `selectAll` and `evaluate` agree with the oracle at every valid
context node of every well-formed document -/
theorem C02_compile_total2 (regexOk : RegexOk) (ns : Option (List (String × String)))
    (text : List Char) (a : Ast) (hparse : parse (fuelFor text) (defaultCfg ns) text = .ok a)
    (hfrag : Frag2 true a) :
    (∃ e, compile { regexOk := regexOk } ns text = .error (.build e)) ∨
    (∃ p, compile { regexOk := regexOk } ns text = .ok p ∧ PathShape p ∧
      ∀ (F : Type) [NumAlg F] (d : Doc), WF d → ∀ cfg : ECfg, cfg.nsIface = true → HashInj d cfg →
        ∀ c, validRef d c = true →
          ∃ l nsl, selectAll (F := F) d cfg p c = .ok l ∧ evaluate (F := F) d cfg p c = .ok (.nodes l) ∧
            Spec.evalTop (F := F) d a c = .ok (.nodes nsl) ∧ ∀ x, x ∈ l ↔ x ∈ nsl) := by
  let cc : CompileCfg := { regexOk := regexOk }
  cases hb : build cc.regexOk apiLimit cc.shortcutNeedsNodeTest cc.smartDescThroughFilter a {} {} with
  | error e => exact .inl ⟨e, compile_of_build_error cc ns text a e hparse hb⟩
  | ok o =>
    have hcomp := compile_of_frag2 cc ns text a o hparse hfrag hb
    refine .inr ⟨o.q, hcomp, build_frag2_pathShape _ _ _ _ hfrag _ _ o hb, ?_⟩
    intro F _ d wf cfg hns hinj c hc
    obtain ⟨l, nsl, h1, h2, h3, h4⟩ := C02_compile_evaluate2 (F := F) wf cfg hns hinj cc
      (srcCfg_snt regexOk) (srcCfg_sdf regexOk) ns text a hparse hfrag o.q hcomp c hc
    exact ⟨l, nsl, h2, h1, h3, h4⟩

/-- on the old fragment the new total statement is the old one -/
theorem C02_compile_total_of_total2 (regexOk : RegexOk) (ns : Option (List (String × String)))
    (text : List Char) (a : Ast) (hparse : parse (fuelFor text) (defaultCfg ns) text = .ok a)
    (hfrag : Frag true a) :
    (∃ e, compile { regexOk := regexOk } ns text = .error (.build e)) ∨
    (∃ p, compile { regexOk := regexOk } ns text = .ok p ∧ PathShape p ∧
      ∀ (F : Type) [NumAlg F] (d : Doc), WF d → ∀ cfg : ECfg, cfg.nsIface = true → HashInj d cfg →
        ∀ c, validRef d c = true →
          ∃ l nsl, selectAll (F := F) d cfg p c = .ok l ∧ evaluate (F := F) d cfg p c = .ok (.nodes l) ∧
            Spec.evalTop (F := F) d a c = .ok (.nodes nsl) ∧ ∀ x, x ∈ l ↔ x ∈ nsl) :=
  C02_compile_total2 regexOk ns text a hparse (frag2_of_frag true a hfrag)

end XPathV.ApiSem

/-! ## Axiom audit -/
section AxiomAudit
open XPathV.ApiSem
end AxiomAudit
