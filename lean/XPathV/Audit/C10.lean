import XPathV.Theorems.C10
