import XPathV.Theorems.C10
#print axioms XPathV.Theorems.C10.prec_chain_ok
#print axioms XPathV.Theorems.C10.stages_are_xpath_tiers
#print axioms XPathV.Theorems.C10.star_not_name_char
#print axioms XPathV.Theorems.C10.tier_loop_left_assoc
#print axioms XPathV.Theorems.C10.tier_loop_stop
#print axioms XPathV.Theorems.C10.unary_encoding
#print axioms XPathV.Theorems.C10.dot_is_self_node
#print axioms XPathV.Theorems.C10.slashslash_is_dos
#print axioms XPathV.Theorems.C10.tier_loop_left_nested
#print axioms XPathV.Theorems.C10.parse_tree_stratified
#print axioms XPathV.Theorems.C10.operands_never_looser
#print axioms XPathV.Theorems.C10.C10_main
#print axioms XPathV.Theorems.C10.C10_whole_text
#print axioms XPathV.Theorems.C10.C10_grammar_unambiguous
#print axioms XPathV.Theorems.C10.C10_every_tier
#print axioms XPathV.Theorems.C10.C10_operator_token_unique
