import XPathV.Theorems.C09
