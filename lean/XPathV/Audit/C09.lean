import XPathV.Theorems.C09
#print axioms XPathV.Theorems.C09.string_function_arities
#print axioms XPathV.Theorems.C09.substring3_spec
#print axioms XPathV.Theorems.C09.substring2_spec
#print axioms XPathV.Theorems.C09.substring_never_fails
#print axioms XPathV.Theorems.C09.substring_is_sublist
#print axioms XPathV.Theorems.C09.contains_spec
#print axioms XPathV.Theorems.C09.starts_with_spec
#print axioms XPathV.Theorems.C09.substring_after_spec
#print axioms XPathV.Theorems.C09.substring_before_spec
#print axioms XPathV.Theorems.C09.translate_spec
#print axioms XPathV.Theorems.C09.string_length_spec
#print axioms XPathV.Theorems.C09.nodeset_argument_first
#print axioms XPathV.Theorems.C09.nodeset_argument_empty
#print axioms XPathV.Theorems.C09.substring_bounds_source_ok
