import XPathV.Theorems.C04
#print axioms XPathV.Theorems.C04.api_clones
#print axioms XPathV.Theorems.C04.clone_table_ok
#print axioms XPathV.Theorems.C04.C04_history_independent
#print axioms XPathV.Theorems.C04.clone_is_fresh_and_state_independent
#print axioms XPathV.Theorems.C04.clone_is_fresh_all_iterators
#print axioms XPathV.Theorems.C04.function_arguments_cloned_per_call
#print axioms XPathV.Theorems.C04.clone_is_fresh_all_iterators_any_predicate
