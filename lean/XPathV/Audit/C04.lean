import XPathV.Theorems.C04
