import XPathV.Theorems.C16
