import XPathV.Theorems.C16
#print axioms XPathV.Theorems.C16.init_inv
#print axioms XPathV.Theorems.C16.cache_exact
#print axioms XPathV.Theorems.C16.cache_bounded
#print axioms XPathV.Theorems.C16.cache_returns_loaded
#print axioms XPathV.Theorems.C16.cache_no_error_memo
#print axioms XPathV.Theorems.C16.cache_hit
#print axioms XPathV.Theorems.C16.cache_miss_loads
#print axioms XPathV.Theorems.C16.cache_unbounded_when_zero
#print axioms XPathV.Theorems.C16.get_skeleton_ok
#print axioms XPathV.Theorems.C16.evict_cond_ok
#print axioms XPathV.Theorems.C16.C16_replace_template
#print axioms XPathV.Theorems.C16.C16_replace_literal
#print axioms XPathV.Theorems.C16.C16_replace_group_ref
#print axioms XPathV.Theorems.C16.C16_replace_dollar_dollar
#print axioms XPathV.Theorems.C16.C16_template_fuel
#print axioms XPathV.Theorems.C16.C16_constant_bad_pattern_rejected
#print axioms XPathV.Theorems.C16.replace_uses_rewritten_template
