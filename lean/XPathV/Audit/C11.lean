import XPathV.Theorems.C11
#print axioms XPathV.Theorems.C11.dedup_subset
#print axioms XPathV.Theorems.C11.dedup_keys_fresh
#print axioms XPathV.Theorems.C11.dedup_complete
#print axioms XPathV.Theorems.C11.nodup_of_map
#print axioms XPathV.Theorems.C11.C11_union
#print axioms XPathV.Theorems.C11.sequence_is_union
#print axioms XPathV.Theorems.C11.key_injective
#print axioms XPathV.Theorems.C11.rendered_key_from_struct
#print axioms XPathV.Theorems.C11.C11_main
#print axioms XPathV.Theorems.C11.C11_main_unconditional
#print axioms XPathV.Theorems.C11.C11_nary
#print axioms XPathV.Theorems.C11.C11_nary_unconditional
#print axioms XPathV.Theorems.C11.C11_sequence
#print axioms XPathV.Theorems.C11.C11_sequence_unconditional
#print axioms XPathV.Theorems.C11.seqLoop_is_seqForm
#print axioms XPathV.Theorems.C11.identity_key_recipe_ok
#print axioms XPathV.Theorems.C11.identity_is_the_key_string
