import XPathV.Theorems.C11
