import XPathV.Theorems.C08
