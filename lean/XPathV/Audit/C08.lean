import XPathV.Theorems.C08
#print axioms XPathV.Theorems.C08.asNumber_spec
#print axioms XPathV.Theorems.C08.arith_operands_spec
#print axioms XPathV.Theorems.C08.arith_literals_spec
#print axioms XPathV.Theorems.C08.literal_is_lexeme
#print axioms XPathV.Theorems.C08.number_to_string_spec
#print axioms XPathV.Theorems.C08.count_spec
#print axioms XPathV.Theorems.C08.C08_arith_trees
#print axioms XPathV.Theorems.C08.C08_main
#print axioms XPathV.Theorems.C08.C08_evaluate
#print axioms XPathV.Theorems.C08.C08_sum
#print axioms XPathV.Theorems.C08.C08_sum_evaluate
#print axioms XPathV.Theorems.C08.C08_sum_model
#print axioms XPathV.Theorems.C08.C08_same_operation
#print axioms XPathV.Theorems.C08.C08_string_of_number
#print axioms XPathV.Theorems.C08.numeric_ops_ok
#print axioms XPathV.Theorems.C08.numeric_sources_ok
