import XPathV.Theorems.C15
#print axioms XPathV.Theorems.C15.dispatch_total
#print axioms XPathV.Theorems.C15.conversions_total
#print axioms XPathV.Theorems.C15.unsupported_constructs_rejected
#print axioms XPathV.Theorems.C15.round_returns_int
#print axioms XPathV.Theorems.C15.variables_rejected
#print axioms XPathV.Theorems.C15.comparison_never_crashes
#print axioms XPathV.Theorems.C15.mod_never_crashes
#print axioms XPathV.Theorems.C15.logical_select_finite
#print axioms XPathV.Theorems.C15.C15_main_without_round
#print axioms XPathV.Theorems.C15.round_finding_witness
#print axioms XPathV.Theorems.C15.clean_plans_never_crash
