import XPathV.Theorems.C15
