import XPathV.Theorems.C07
#print axioms XPathV.Theorems.C07.cmp_table_ok
#print axioms XPathV.Theorems.C07.leaf_comparators_ok
#print axioms XPathV.Theorems.C07.cells_do_not_panic
#print axioms XPathV.Theorems.C07.cell_numNum
#print axioms XPathV.Theorems.C07.cell_setNum
#print axioms XPathV.Theorems.C07.cell_numSet
#print axioms XPathV.Theorems.C07.cell_strStr_eq
#print axioms XPathV.Theorems.C07.cell_strStr_ne
#print axioms XPathV.Theorems.C07.cell_setSet_eq
#print axioms XPathV.Theorems.C07.cell_setSet_ne
#print axioms XPathV.Theorems.C07.asBool_spec
#print axioms XPathV.Theorems.C07.asBool_float_arm_ok
