import XPathV.Theorems.C07
