import XPathV.Theorems.C05
#print axioms XPathV.Theorems.C05.no_shared_closure_writes
#print axioms XPathV.Theorems.C05.globals_not_written
#print axioms XPathV.Theorems.C05.cache_writes_locked
#print axioms XPathV.Theorems.C05.evaluations_share_no_state
#print axioms XPathV.Theorems.C05.concurrent_equals_sequential
#print axioms XPathV.Theorems.C05.function_arguments_cloned_per_call
