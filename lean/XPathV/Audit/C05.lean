import XPathV.Theorems.C05
