import XPathV.Theorems.C01
