import XPathV.Theorems.C01
#print axioms XPathV.Theorems.C01.axis_table_ok
#print axioms XPathV.Theorems.C01.shortcut_condition_ok
#print axioms XPathV.Theorems.C01.shortcut_guard_from_source
