import XPathV.Theorems.C01
#print axioms XPathV.Theorems.C01.axis_table_ok
#print axioms XPathV.Theorems.C01.shortcut_condition_ok
#print axioms XPathV.Theorems.C01.shortcut_guard_from_source
#print axioms XPathV.Theorems.C01.child_walk
#print axioms XPathV.Theorems.C01.descendant_walk
#print axioms XPathV.Theorems.C01.ancestor_walk
#print axioms XPathV.Theorems.C01.sibling_walks
#print axioms XPathV.Theorems.C01.following_walk
#print axioms XPathV.Theorems.C01.preceding_walk
#print axioms XPathV.Theorems.C01.C01_main
#print axioms XPathV.Theorems.C01.C01_main_unconditional
#print axioms XPathV.Theorems.C01.C01_single_step
#print axioms XPathV.Theorems.C01.C01_from_text
#print axioms XPathV.Theorems.C01.C01_from_text_unconditional
#print axioms XPathV.Theorems.C01.identity_is_the_key_string
