import XPathV.Theorems.C13
