import XPathV.Theorems.C13
#print axioms XPathV.Theorems.C13.abs_start_indep
#print axioms XPathV.Theorems.C13.group_preserves_sequence
#print axioms XPathV.Theorems.C13.rel_compose_child
