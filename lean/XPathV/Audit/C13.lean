import XPathV.Theorems.C13
#print axioms XPathV.Theorems.C13.abs_start_indep
#print axioms XPathV.Theorems.C13.group_preserves_sequence
#print axioms XPathV.Theorems.C13.rel_compose_child
#print axioms XPathV.Theorems.C13.C13_absolute_spec
#print axioms XPathV.Theorems.C13.C13_absolute_build
#print axioms XPathV.Theorems.C13.C13_compose_spec
#print axioms XPathV.Theorems.C13.C13_relative_compose
#print axioms XPathV.Theorems.C13.C13_relative_compose_spec
#print axioms XPathV.Theorems.C13.C13_absolute_after_anything
#print axioms XPathV.Theorems.C13.C13_wrap_true
#print axioms XPathV.Theorems.C13.C13_wrap_group
#print axioms XPathV.Theorems.C13.C13_wrap_union_self
#print axioms XPathV.Theorems.C13.C13_wrap_not_not
#print axioms XPathV.Theorems.C13.C13_absolute_build_with_predicates
#print axioms XPathV.Theorems.C13.C13_relative_compose_with_predicates
#print axioms XPathV.Theorems.C13.C13_compose_spec_with_predicates
