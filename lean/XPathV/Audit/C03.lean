import XPathV.Theorems.C03
#print axioms XPathV.Theorems.C03.child_positions_restart
#print axioms XPathV.Theorems.C03.numeric_predicate_is_position
#print axioms XPathV.Theorems.C03.merge_is_per_parent
#print axioms XPathV.Theorems.C03.group_positions_global
#print axioms XPathV.Theorems.C03.child_pos_is_proximity
#print axioms XPathV.Theorems.C03.nth_child
#print axioms XPathV.Theorems.C03.C03_main
#print axioms XPathV.Theorems.C03.C03_on_naturals
#print axioms XPathV.Theorems.C03.C03_then_boolean_predicates
#print axioms XPathV.Theorems.C03.C03_flat_input_exact
#print axioms XPathV.Theorems.C03.C03_parenthesised_nth
#print axioms XPathV.Theorems.C03.C03_position_last
#print axioms XPathV.Theorems.C03.C03_side_conditions_satisfiable
