import XPathV.Theorems.C03
