import XPathV.Theorems.C03
#print axioms XPathV.Theorems.C03.child_positions_restart
#print axioms XPathV.Theorems.C03.numeric_predicate_is_position
#print axioms XPathV.Theorems.C03.merge_is_per_parent
#print axioms XPathV.Theorems.C03.group_positions_global
#print axioms XPathV.Theorems.C03.child_pos_is_proximity
#print axioms XPathV.Theorems.C03.nth_child
