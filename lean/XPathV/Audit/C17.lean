import XPathV.Theorems.C17
