import XPathV.Theorems.C17
#print axioms XPathV.Theorems.C17.structural_rejections
#print axioms XPathV.Theorems.C17.min_arities
#print axioms XPathV.Theorems.C17.skipItem_mismatch
#print axioms XPathV.Theorems.C17.operand_missing
#print axioms XPathV.Theorems.C17.unclosed_string
#print axioms XPathV.Theorems.C17.unclosed_predicate
#print axioms XPathV.Theorems.C17.unknown_function
#print axioms XPathV.Theorems.C17.trailing_text_rejected
