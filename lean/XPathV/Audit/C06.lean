import XPathV.Theorems.C06
