import XPathV.Theorems.C06
#print axioms XPathV.Theorems.C06.cycles_guarded
#print axioms XPathV.Theorems.C06.guards_present
#print axioms XPathV.Theorems.C06.panics_become_errors
#print axioms XPathV.Theorems.C06.nil_query_checked
#print axioms XPathV.Theorems.C06.C06_exactly_one
#print axioms XPathV.Theorems.C06.sequence_depth_guarded
#print axioms XPathV.Theorems.C06.expression_depth_guarded
#print axioms XPathV.Theorems.C06.C06_total
#print axioms XPathV.Theorems.C06.scanner_progress
#print axioms XPathV.Theorems.C06.entry_points_cannot_panic_outside_recover
