import XPathV.Theorems.C14
#print axioms XPathV.Theorems.C14.nametest_noNS
#print axioms XPathV.Theorems.C14.unprefixed_matches_unprefixed
#print axioms XPathV.Theorems.C14.nametest_NS
#print axioms XPathV.Theorems.C14.nodeTest_spec
#print axioms XPathV.Theorems.C14.unbound_prefix_error
#print axioms XPathV.Theorems.C14.local_name_context
#print axioms XPathV.Theorems.C14.name_context
#print axioms XPathV.Theorems.C14.namespace_uri_first
#print axioms XPathV.Theorems.C14.name_fn_empty
