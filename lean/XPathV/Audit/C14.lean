import XPathV.Theorems.C14
