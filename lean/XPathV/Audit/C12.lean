import XPathV.Theorems.C12
#print axioms XPathV.Theorems.C12.evaluate_iter_eq_select
#print axioms XPathV.Theorems.C12.count_eq_length
#print axioms XPathV.Theorems.C12.reverse_eq_reverse
#print axioms XPathV.Theorems.C12.child_from_context
