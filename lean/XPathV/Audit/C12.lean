import XPathV.Theorems.C12
