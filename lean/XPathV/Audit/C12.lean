import XPathV.Theorems.C12
#print axioms XPathV.Theorems.C12.evaluate_iter_eq_select
#print axioms XPathV.Theorems.C12.count_eq_length
#print axioms XPathV.Theorems.C12.reverse_eq_reverse
#print axioms XPathV.Theorems.C12.child_from_context
#print axioms XPathV.Theorems.C12.pull_refines_sequence
#print axioms XPathV.Theorems.C12.exhausted_stays_exhausted
#print axioms XPathV.Theorems.C12.reported_node_and_counters
#print axioms XPathV.Theorems.C12.flat_paths_sorted
#print axioms XPathV.Theorems.C12.single_descendant_sorted
#print axioms XPathV.Theorems.C12.C12_flat_with_predicates_sorted
#print axioms XPathV.Theorems.C12.C12_flat_filtered_is_oracle_list
#print axioms XPathV.Theorems.C12.C12_flat_filtered_is_oracle_list_unconditional
#print axioms XPathV.Theorems.C12.C12_slashslash_sorted
#print axioms XPathV.Theorems.C12.C12_all_iterators_refine_sequence
#print axioms XPathV.Theorems.C12.C12_exhausted_for_ever
#print axioms XPathV.Theorems.C12.C12_moveNext_current
#print axioms XPathV.Theorems.C12.C12_all_iterators_refine_sequence_any_predicate
