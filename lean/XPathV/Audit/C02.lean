import XPathV.Theorems.C02
#print axioms XPathV.Theorems.C02.reset_table_ok
#print axioms XPathV.Theorems.C02.reset_forwarded
#print axioms XPathV.Theorems.C02.verdict_is_local
