import XPathV.Theorems.C02
