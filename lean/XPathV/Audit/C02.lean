import XPathV.Theorems.C02
#print axioms XPathV.Theorems.C02.reset_table_ok
#print axioms XPathV.Theorems.C02.reset_forwarded
#print axioms XPathV.Theorems.C02.verdict_is_local
#print axioms XPathV.Theorems.C02.smartdesc_stops_at_filters
#print axioms XPathV.Theorems.C02.evaluate_restarts_from_any_state
#print axioms XPathV.Theorems.C02.C02_main
#print axioms XPathV.Theorems.C02.C02_keeps_exactly_the_true_ones
#print axioms XPathV.Theorems.C02.C02_at_source_config
#print axioms XPathV.Theorems.C02.C02_filter_is_list_filter
#print axioms XPathV.Theorems.C02.evaluate_restarts_all_iterators
#print axioms XPathV.Theorems.C02.C02_main_full
#print axioms XPathV.Theorems.C02.C02_keeps_exactly_the_true_ones_full
#print axioms XPathV.Theorems.C02.C02_built_predicate_truth
#print axioms XPathV.Theorems.C02.C02_from_text
#print axioms XPathV.Theorems.C02.compile_never_out_of_fuel
#print axioms XPathV.Theorems.C02.evaluate_restarts_all_iterators_any_predicate
