import XPathV.Theorems.C02
#print axioms XPathV.Theorems.C02.reset_table_ok
#print axioms XPathV.Theorems.C02.reset_forwarded
#print axioms XPathV.Theorems.C02.verdict_is_local
#print axioms XPathV.Theorems.C02.smartdesc_stops_at_filters
#print axioms XPathV.Theorems.C02.evaluate_restarts_from_any_state
