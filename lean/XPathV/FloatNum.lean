import XPathV.Num
/-!
# `NumAlg Float`: the instance the driver runs

`Float` is the C `double`.  Decimal ↔ binary conversions are done here with exact integer
arithmetic (correct rounding, shortest round-tripping digits), because Lean's own
`Float.ofScientific`/`toString` are not the `strconv` algorithms.  None of this is used in proofs
(the theorems are parametric in `NumAlg F`); it only has to agree with Go on the inputs the
correspondence generates, and disagreements would show up there as model/impl differences.
-/
namespace XPathV
open NumAlg

namespace FloatImpl

def nanF : Float := 0.0 / 0.0
def infF : Float := 1.0 / 0.0

/-- decompose a finite float: value = (-1)^neg · m · 2^e with `m < 2^53` -/
def decompose (x : Float) : Bool × Nat × Int :=
  let b := x.toBits.toNat
  let neg := b >>> 63 == 1
  let ex := (b >>> 52) &&& 0x7ff
  let fr := b &&& 0xfffffffffffff
  if ex == 0 then (neg, fr, -1074) else (neg, fr + 2^52, (ex : Int) - 1075)

def isInfF (x : Float) : Bool := x == infF || x == -infF

/-- nearest double (ties to even) to the positive rational `p/q` -/
def ofRat (p q : Nat) : Float :=
  if p == 0 then 0.0 else
  -- choose e with 2^52 ≤ p/q / 2^e < 2^53
  let e0 : Int := (p.log2 : Int) - (q.log2 : Int) - 52
  let scale (e : Int) : Nat × Nat :=   -- numerator, denominator of p/q / 2^e
    if e ≥ 0 then (p, q * 2^e.toNat) else (p * 2^(-e).toNat, q)
  let fix (e : Int) : Int :=
    let (n, dn) := scale e
    if n / dn ≥ 2^53 then e + 1 else if n / dn < 2^52 then e - 1 else e
  let e := fix (fix e0)
  let e := if e < -1074 then -1074 else e
  let (n, dn) := scale e
  let m := n / dn
  let r := n % dn
  let m := if 2 * r > dn || (2 * r == dn && m % 2 == 1) then m + 1 else m
  let (m, e) := if m ≥ 2^53 then (m / 2, e + 1) else (m, e)
  if e + 52 > 1023 then infF
  else (Float.ofNat m).scaleB e

def ofDecimalF (neg : Bool) (mant : Nat) (exp10 : Int) : Float :=
  let v := if exp10 ≥ 0 then ofRat (mant * 10^exp10.toNat) 1 else ofRat mant (10^(-exp10).toNat)
  if neg then -v else v

/-- decimal digits of `n` (most significant first) -/
def natDigits (n : Nat) : List Nat := (Nat.toDigits 10 n).map (fun c => c.toNat - 48)

/-- `k`-digit correctly rounded decimal of the positive rational `p/q`: digits and `dp`
(value ≈ 0.d₁…d_k × 10^dp) -/
def roundDigits (p q : Nat) (k : Nat) : Nat × Int :=
  -- dp: 10^(dp-1) ≤ p/q < 10^dp
  let est : Int := (((p.log2 : Int) - (q.log2 : Int)) * 30103) / 100000
  let ge10 (dp : Int) : Bool :=   -- p/q ≥ 10^dp ?
    if dp ≥ 0 then p ≥ q * 10^dp.toNat else p * 10^(-dp).toNat ≥ q
  let rec adj (fuel : Nat) (dp : Int) : Int :=
    match fuel with
    | 0 => dp
    | f+1 => if ge10 dp then adj f (dp + 1) else if !ge10 (dp - 1) then adj f (dp - 1) else dp
  let dp := adj 8 (est + 1)
  -- digits = round(p/q × 10^(k-dp))
  let s : Int := (k : Int) - dp
  let (n, dn) := if s ≥ 0 then (p * 10^s.toNat, q) else (p, q * 10^(-s).toNat)
  let m := n / dn
  let r := n % dn
  let m := if 2 * r > dn || (2 * r == dn && m % 2 == 1) then m + 1 else m
  if m ≥ 10^k then (m / 10, dp + 1) else (m, dp)

/-- shortest digits that round-trip -/
def shortest (x : Float) : Digits :=
  let (neg, m, e) := decompose x
  let (p, q) : Nat × Nat := if e ≥ 0 then (m * 2^e.toNat, 1) else (m, 2^(-e).toNat)
  let ax := if neg then -x else x
  let rec go (fuel k : Nat) : Digits :=
    match fuel with
    | 0 => ⟨neg, natDigits m, 0⟩
    | f+1 =>
      let (ds, dp) := roundDigits p q k
      if ofDecimalF false ds (dp - k) == ax then
        -- strip trailing zeros
        let l := (natDigits ds).reverse.dropWhile (· == 0) |>.reverse
        ⟨neg, l, dp⟩
      else go f (k + 1)
  go 17 1

def toIntF (x : Float) : Option Int :=
  if x.isNaN || isInfF x then none else
  let (neg, m, e) := decompose x
  let a : Nat := if e ≥ 0 then m * 2^e.toNat else m / 2^(-e).toNat
  if a ≥ 2^63 then none else some (if neg then -(a : Int) else a)

/-- exact `fmod` -/
def fmodF (a b : Float) : Float :=
  if a.isNaN || b.isNaN || isInfF a || b == 0.0 then nanF
  else if isInfF b then a
  else
    let (na, ma, ea) := decompose a
    let (_, mb, eb) := decompose b
    let e := if ea < eb then ea else eb
    let A := ma * 2^(ea - e).toNat
    let B := mb * 2^(eb - e).toNat
    let R := A % B
    let r := (ofRat R 1).scaleB e
    if R == 0 then (if na then -0.0 else 0.0) else if na then -r else r

end FloatImpl

open FloatImpl in
instance : NumAlg Float where
  add := (· + ·)
  sub := (· - ·)
  mul := (· * ·)
  div := (· / ·)
  fmod := fmodF
  floor := Float.floor
  ceil := Float.ceil
  roundGo := Float.round
  nan := nanF
  ofNat := fun n => ofRat n 1
  ofInt := fun i => if i < 0 then -(ofRat i.natAbs 1) else ofRat i.natAbs 1
  lt := fun a b => a < b
  le := fun a b => a ≤ b
  eq := fun a b => a == b
  isNaN := Float.isNaN
  toInt := toIntF
  ofDecimal := ofDecimalF
  classify := fun x =>
    if x.isNaN then .nan
    else if x == infF then .posInf
    else if x == -infF then .negInf
    else if x == 0.0 then .zero (x.toBits >>> 63 == 1)
    else .finite (shortest x)
  posInf := infF
  negInf := -infF

/-- canonical rendering of a float for the line protocol -/
def floatBits (x : Float) : String :=
  if x.isNaN then "nan" else
  let s := (Nat.toDigits 16 x.toBits.toNat)
  String.ofList (List.replicate (16 - s.length) '0' ++ s)

end XPathV
