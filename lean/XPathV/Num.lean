/-!
# Numbers as an abstract IEEE-754 algebra

Both the specification and the model of the engine are parametric in a type `F` of "doubles"
with the operations Go's `float64`, `math` and `strconv` provide.  What those operations compute
is the Go runtime's / the hardware's business (trusted base); the theorems show that the engine
applies *the same operation to the same converted operands in the same order* as XPath 1.0 asks.

The driver instantiates `F := Float` (C `double`, bit-compatible with Go's `float64` on amd64).
-/
namespace XPathV

/-- shortest decimal digits of a finite non-zero double, as `strconv` computes them:
`value = 0.d₁d₂…dₙ × 10^dp`, `d₁ ≠ 0` -/
structure Digits where
  neg : Bool
  ds : List Nat
  dp : Int
  deriving Repr, DecidableEq

inductive NumClass | nan | posInf | negInf | zero (neg : Bool) | finite (d : Digits)
  deriving Repr, DecidableEq

class NumAlg (F : Type) where
  add : F → F → F
  sub : F → F → F
  mul : F → F → F
  div : F → F → F
  /-- C `fmod` / Go `math.Mod`: remainder of truncating division, sign of the dividend -/
  fmod : F → F → F
  floor : F → F
  ceil : F → F
  /-- Go `math.Round`: half away from zero -/
  roundGo : F → F
  nan : F
  ofNat : Nat → F
  ofInt : Int → F
  /-- IEEE comparisons (false on NaN except `ne`) -/
  lt : F → F → Bool
  le : F → F → Bool
  eq : F → F → Bool
  isNaN : F → Bool
  /-- Go `int(x)` for a finite `x` within range: truncation toward zero; `none` when the
  conversion is implementation-specific (NaN, ±Inf, out of `int64`) -/
  toInt : F → Option Int
  /-- correctly rounded value of the decimal numeral `mant × 10^exp10` (what `strconv.ParseFloat`
  yields on a plain decimal lexeme) -/
  ofDecimal : (neg : Bool) → (mant : Nat) → (exp10 : Int) → F
  classify : F → NumClass
  posInf : F
  negInf : F

export NumAlg (nan)

namespace NumAlg
variable {F : Type} [NumAlg F]
def gt (a b : F) : Bool := lt b a
def ge (a b : F) : Bool := le b a
def ne (a b : F) : Bool := !(eq a b)
def neg (a : F) : F := mul a (ofInt (-1))
def zero : F := ofNat 0
end NumAlg

end XPathV
