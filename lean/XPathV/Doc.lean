/-!
# Documents, node references and the navigator cursor

A document is the list of its non-attribute nodes in document order, each with its depth
(pre-order/depth encoding).  Attributes hang off their element record.  Every finite ordered
tree has exactly one such encoding satisfying `WF`, and every `WF` list is the encoding of a tree.

The navigator moves below are the model of the `NodeNavigator` the harness hands to the engine
(`/verif/harness/nav.go`); the *navigator differential* compares every move and accessor of the
two on every node of every generated document.
-/
namespace XPathV

inductive Kind | root | elem | text | comment
  deriving DecidableEq, Repr, Inhabited

structure Attr where
  pfx : String
  name : String
  ns : String
  value : String
  deriving DecidableEq, Repr, Inhabited

structure Rec where
  depth : Nat
  kind : Kind
  pfx : String
  name : String
  ns : String
  data : String
  attrs : List Attr
  deriving DecidableEq, Repr, Inhabited

abbrev Doc := List Rec

/-- Node identity.  Document order: `node i < attr i k < node (i+1)`. -/
inductive Ref
  | node (i : Nat)
  | attr (i k : Nat)
  deriving DecidableEq, Repr, Inhabited

namespace Ref
def idx : Ref → Nat
  | node i => i
  | attr i _ => i
def isAttr : Ref → Bool
  | node _ => false
  | attr _ _ => true
/-- position in document order as a pair compared lexicographically -/
def ord : Ref → Nat × Nat
  | node i => (i, 0)
  | attr i k => (i, k + 1)
def lt (a b : Ref) : Bool :=
  a.ord.1 < b.ord.1 || (a.ord.1 == b.ord.1 && a.ord.2 < b.ord.2)
def le (a b : Ref) : Bool := a == b || lt a b
end Ref

def dep (d : Doc) (i : Nat) : Nat := (d.getD i default).depth
def recAt (d : Doc) (i : Nat) : Rec := d.getD i default
def kindAt (d : Doc) (i : Nat) : Kind := (recAt d i).kind

/-- Well-formed encodings: node 0 is the only root and has depth 0; depth grows by at most one;
text and comment nodes are leaves; only elements carry attributes. -/
structure WF (d : Doc) : Prop where
  pos  : 0 < d.length
  root : dep d 0 = 0 ∧ kindAt d 0 = .root
  step : ∀ i, i + 1 < d.length → 1 ≤ dep d (i+1) ∧ dep d (i+1) ≤ dep d i + 1
  nonroot : ∀ i, 0 < i → i < d.length → kindAt d i ≠ .root
  leaf : ∀ i, i + 1 < d.length → (kindAt d i = .text ∨ kindAt d i = .comment) → dep d (i+1) ≤ dep d i
  attrs : ∀ i, i < d.length → kindAt d i ≠ .elem → (recAt d i).attrs = []

/-- executable well-formedness check (used by the driver to reject malformed case lines) -/
def wfb (d : Doc) : Bool :=
  0 < d.length && dep d 0 == 0 && kindAt d 0 == .root &&
  (List.range (d.length - 1)).all (fun i =>
    1 ≤ dep d (i+1) && dep d (i+1) ≤ dep d i + 1 &&
    kindAt d (i+1) != .root &&
    (!(kindAt d i == .text || kindAt d i == .comment) || dep d (i+1) ≤ dep d i)) &&
  (List.range d.length).all (fun i => kindAt d i == .elem || (recAt d i).attrs.isEmpty)

/-- first index `j ≥ j0` (scanning `xs = d.drop j0`) whose depth is `≤ di`; the length if none -/
def endFrom (di : Nat) : List Rec → Nat → Nat
  | [], j => j
  | x :: xs, j => if x.depth ≤ di then j else endFrom di xs (j+1)

/-- one past the last descendant of node `i` -/
def endOf (d : Doc) (i : Nat) : Nat := endFrom (dep d i) (d.drop (i+1)) (i+1)

/-- greatest `j < i` with depth `< di` -/
def parentFrom (d : Doc) (di : Nat) : Nat → Option Nat
  | 0 => none
  | j+1 => if dep d j < di then some j else parentFrom d di j

/-- previous sibling: scanning backwards from `j`, stop at depth `< di` (none) or `= di` (found) -/
def prevFrom (d : Doc) (di : Nat) : Nat → Option Nat
  | 0 => none
  | j+1 => if dep d j < di then none else if dep d j = di then some j else prevFrom d di j

/-! ## Navigator moves (model of the harness `NodeNavigator`) -/
namespace Nav

def moveChild (d : Doc) : Ref → Option Ref
  | .node i => if i + 1 < d.length ∧ dep d (i+1) = dep d i + 1 then some (.node (i+1)) else none
  | .attr _ _ => none

def moveNext (d : Doc) : Ref → Option Ref
  | .node i =>
    let j := endOf d i
    if i < d.length ∧ j < d.length ∧ dep d j = dep d i then some (.node j) else none
  | .attr _ _ => none

def movePrev (d : Doc) : Ref → Option Ref
  | .node i => (prevFrom d (dep d i) i).map .node
  | .attr _ _ => none

def moveParent (d : Doc) : Ref → Option Ref
  | .node i => (parentFrom d (dep d i) i).map .node
  | .attr i _ => some (.node i)

/-- `MoveToFirst`: fails on attributes and on a node without previous sibling -/
def firstFrom (d : Doc) : Nat → Ref → Ref
  | 0, r => r
  | f+1, r => match movePrev d r with
    | some p => firstFrom d f p
    | none => r

def moveFirst (d : Doc) (r : Ref) : Option Ref :=
  match movePrev d r with
  | none => none
  | some p => some (firstFrom d d.length p)

def moveNextAttr (d : Doc) : Ref → Option Ref
  | .node i => if (recAt d i).attrs.length > 0 then some (.attr i 0) else none
  | .attr i k => if k + 1 < (recAt d i).attrs.length then some (.attr i (k+1)) else none

def root (_d : Doc) : Ref := .node 0

end Nav

/-! ## Accessors -/

inductive NType | root | elem | attr | text | comment | all
  deriving DecidableEq, Repr, Inhabited

def attrAt (d : Doc) (i k : Nat) : Attr := (recAt d i).attrs.getD k default

def nodeType (d : Doc) : Ref → NType
  | .node i => match kindAt d i with
    | .root => .root | .elem => .elem | .text => .text | .comment => .comment
  | .attr _ _ => .attr

def localName (d : Doc) : Ref → String
  | .node i => match kindAt d i with
    | .elem => (recAt d i).name
    | _ => ""
  | .attr i k => (attrAt d i k).name

def prefixOf (d : Doc) : Ref → String
  | .node i => match kindAt d i with
    | .elem => (recAt d i).pfx
    | _ => ""
  | .attr i k => (attrAt d i k).pfx

def nsURL (d : Doc) : Ref → String
  | .node i => match kindAt d i with
    | .elem => (recAt d i).ns
    | _ => ""
  | .attr i k => (attrAt d i k).ns

/-- concatenation of the data of the text nodes with index in `[i, j)` -/
def textOf (d : Doc) (i j : Nat) : String :=
  ((List.range' i (j - i)).filter (fun k => kindAt d k == .text)).foldl
    (fun s k => s ++ (recAt d k).data) ""

/-- XPath string-value (§5): text content of the subtree for root/element, data for text/comment,
value for attributes -/
def stringValue (d : Doc) : Ref → String
  | .node i => match kindAt d i with
    | .text | .comment => (recAt d i).data
    | _ => textOf d (i+1) (endOf d i)
  | .attr i k => (attrAt d i k).value

/-- all non-attribute nodes, in document order -/
def allNodes (d : Doc) : List Ref := (List.range d.length).map .node

def attrsOf (d : Doc) (i : Nat) : List Ref :=
  (List.range (recAt d i).attrs.length).map (.attr i)

/-- every node of the document including attributes, in document order -/
def allRefs (d : Doc) : List Ref :=
  (List.range d.length).flatMap (fun i => .node i :: attrsOf d i)

def validRef (d : Doc) : Ref → Bool
  | .node i => i < d.length
  | .attr i k => i < d.length && k < (recAt d i).attrs.length

end XPathV
