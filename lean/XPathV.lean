import XPathV.Doc
import XPathV.Num
import XPathV.Ast
import XPathV.Spec.Axes
import XPathV.Spec.Values
import XPathV.Spec.Eval
