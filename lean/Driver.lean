import XPathV.FloatNum
import XPathV.Model.Api
import XPathV.Model.Cache
import XPathV.Spec.Eval
import XPathV.Spec.Grammar
import XPathV.Spec.FullGrammar
import XPathV.Spec.FullBridge
import XPathV.Spec.Template
/-!
# Line-protocol driver (`xdriver`)

Reads the case lines the Go harness writes (see `/verif/harness/proto.go`), runs the **model** of
the implementation and the **specification** on each, and prints one line per case:

    id \t model-result \t spec-result

Core-only (no Mathlib, no `Lean.Data.Json`) so that it links as a small native executable.
-/
open XPathV XPathV.Model XPathV.Bridge

def hexVal (c : Char) : Nat :=
  if '0' ≤ c && c ≤ '9' then c.toNat - 48
  else if 'a' ≤ c && c ≤ 'f' then c.toNat - 87
  else if 'A' ≤ c && c ≤ 'F' then c.toNat - 55 else 0

def unhexBytes (s : String) : ByteArray :=
  let rec go : List Char → ByteArray → ByteArray
    | a :: b :: rest, acc => go rest (acc.push (UInt8.ofNat (hexVal a * 16 + hexVal b)))
    | _, acc => acc
  go s.toList ByteArray.empty

/-- `utf8.DecodeRune` semantics: an invalid byte decodes to U+FFFD and advances by one -/
partial def decodeGo (b : ByteArray) (i : Nat) (acc : List Char) : List Char :=
  if i ≥ b.size then acc.reverse else
  let b0 := b[i]!.toNat
  let cont (k : Nat) : Option Nat :=
    if i + k < b.size then
      let x := b[i+k]!.toNat
      if x &&& 0xC0 == 0x80 then some (x &&& 0x3F) else none
    else none
  -- (a thunk: evaluated only on the invalid branches — as a strict `let` it doubled the work at every non-ASCII byte)
  let bad (_ : Unit) : List Char := decodeGo b (i+1) ('�' :: acc)
  if b0 < 0x80 then decodeGo b (i+1) (Char.ofNat b0 :: acc)
  else if b0 &&& 0xE0 == 0xC0 then
    match cont 1 with
    | some c1 =>
      let v := ((b0 &&& 0x1F) <<< 6) ||| c1
      if v < 0x80 then bad () else decodeGo b (i+2) (Char.ofNat v :: acc)
    | none => bad ()
  else if b0 &&& 0xF0 == 0xE0 then
    match cont 1, cont 2 with
    | some c1, some c2 =>
      let v := ((b0 &&& 0x0F) <<< 12) ||| (c1 <<< 6) ||| c2
      if v < 0x800 || (0xD800 ≤ v && v ≤ 0xDFFF) then bad () else decodeGo b (i+3) (Char.ofNat v :: acc)
    | _, _ => bad ()
  else if b0 &&& 0xF8 == 0xF0 then
    match cont 1, cont 2, cont 3 with
    | some c1, some c2, some c3 =>
      let v := ((b0 &&& 0x07) <<< 18) ||| (c1 <<< 12) ||| (c2 <<< 6) ||| c3
      if v < 0x10000 || v > 0x10FFFF then bad () else decodeGo b (i+4) (Char.ofNat v :: acc)
    | _, _, _ => bad ()
  else bad ()

def unhexChars (s : String) : List Char := decodeGo (unhexBytes s) 0 []
def unhexStr (s : String) : String := String.ofList (unhexChars s)

def parseKind (c : String) : Kind :=
  match c with
  | "r" => .root | "e" => .elem | "t" => .text | _ => .comment

def parseAttr (s : String) : Attr :=
  match s.splitOn ":" with
  | [p, n, ns, v] => ⟨unhexStr p, unhexStr n, unhexStr ns, unhexStr v⟩
  | _ => default

def parseRec (s : String) : Rec :=
  match s.splitOn "," with
  | [dp, k, p, n, ns, data, attrs] =>
    { depth := dp.toNat!, kind := parseKind k, pfx := unhexStr p, name := unhexStr n, ns := unhexStr ns,
      data := unhexStr data, attrs := if attrs == "" then [] else (attrs.splitOn "|").map parseAttr }
  | _ => default

def parseDoc (s : String) : Doc :=
  if s == "-" || s == "" then [] else (s.splitOn ";").map parseRec

def parseRef (s : String) : Ref :=
  match s.splitOn "." with
  | [i] => .node i.toNat!
  | [i, k] => .attr i.toNat! k.toNat!
  | _ => .node 0

def parseNS (s : String) : Option (List (String × String)) :=
  if s == "-" then none
  else if s == "+" then some []
  else some ((s.splitOn ",").map (fun kv => match kv.splitOn "=" with
    | [k, v] => (unhexStr k, unhexStr v)
    | _ => ("", "")))

def refStr : Ref → String
  | .node i => toString i
  | .attr i k => toString i ++ "." ++ toString k

def refsStr (l : List Ref) : String := ",".intercalate (l.map refStr)

def numLexBits (l : String) : String := floatBits (Spec.strToNum (F := Float) l)

def crashName : Crash → String
  | .nilDeref => "nil" | .index => "index" | .divZero => "div" | .typeAssert => "assert"
  | .numError => "numerror" | .unknownType => "type"

def errStr : EErr → String
  | .crash k => "panic:crash:" ++ crashName k
  | .raised _ => "panic:raised"
  | .diverge => "diverge"
  | .unmodelled w => "unmodelled:" ++ w

def mvalStr : MVal Float → String
  | .nodes l => "seq:" ++ refsStr l
  | .bool b => if b then "bool:1" else "bool:0"
  | .num x => "num:" ++ floatBits x
  | .str s => "str:" ++ hexOfString s
  | .int i => "badtype:int:" ++ toString i
  | .nilv => "nil"

def svalStr (d : Doc) : Spec.Value Float → String
  | .nodes l => "seq:" ++ refsStr (Spec.docOrder d l)
  | .bool b => if b then "bool:1" else "bool:0"
  | .num x => "num:" ++ floatBits x
  | .str s => "str:" ++ hexOfString s

structure Case where
  id : String
  kind : String
  doc : Doc
  ctx : Ref
  ns : Option (List (String × String))
  expr : List Char
  extra : String
  nons : Bool

def parseCase (line : String) : Option Case :=
  match line.splitOn "\t" with
  | [id, kind, doc, ctx, ns, expr, extra] =>
    let nons := extra.startsWith "nons;"
    let extra := if nons then (extra.drop 5).toString else extra
    some ⟨id, kind, parseDoc doc, parseRef ctx, parseNS ns, unhexChars expr, if extra == "-" then "" else extra, nons⟩
  | _ => none

/-- facts read off the Go source by the extractor, set at start-up from the environment -/
structure RunCfg where
  cc : CompileCfg := {}
  keySep : Bool := true
  setSemantics : Bool := false

def ecfg (rc : RunCfg) (c : Case) : ECfg := { nsIface := !c.nons, keySep := rc.keySep, setSemantics := rc.setSemantics }

def compileCase (rc : RunCfg) (c : Case) (text : List Char) : Except CompileErr Plan :=
  compile rc.cc c.ns text

def modelSel (rc : RunCfg) (c : Case) (text : List Char) (ctx : Ref) : String :=
  match compileCase rc c text with
  | .error _ => "cerr"
  | .ok p =>
    match selectAll (F := Float) c.doc (ecfg rc c) p ctx with
    | .ok l => "seq:" ++ refsStr l
    | .error e => errStr e

def modelEval (rc : RunCfg) (c : Case) (text : List Char) (ctx : Ref) : String :=
  match compileCase rc c text with
  | .error _ => "cerr"
  | .ok p =>
    match evaluate (F := Float) c.doc (ecfg rc c) p ctx with
    | .ok v => mvalStr v
    | .error e => errStr e

def parseOnly (c : Case) (text : List Char) : Except PErr Ast :=
  parse (fuelFor text) (defaultCfg c.ns) text

/-- the tree the *full reference grammar* (written from the Recommendation alone, `Spec/FullGrammar.lean`)
assigns to the text: `none` when the scanner fails or the text is not an expression of the grammar -/
def fullRefAst (c : Case) (text : List Char) : Option Ast :=
  match tokVs text with
  | some ts => Spec.Full.refParseFull c.ns ts
  | none => none

/-- model parser vs full reference grammar on one text -/
def fullCompare (c : Case) (text : List Char) : String :=
  match parseOnly c text, fullRefAst c text with
  | .ok a, some b => if normConv a == normConv b then "full:same" else "full:differs:" ++ (normConv b).dump numLexBits
  | .ok _, none => "full:none"
  | .error _, some b => "full:only:" ++ (normConv b).dump numLexBits
  | .error _, none => "full:both-reject"

def specEval (c : Case) (text : List Char) (ctx : Ref) : String :=
  match parseOnly c text with
  | .error _ => "cerr"
  | .ok ast =>
    match Spec.evalTop (F := Float) c.doc ast ctx with
    | .ok v => svalStr c.doc v
    | .error (.typeErr w) => "typeerr:" ++ w
    | .error (.unsupported w) => "unsupported:" ++ w

def sortedSet (d : Doc) (s : String) : String :=
  if s.startsWith "seq:" then
    let body := (s.drop 4).toString
    if body == "" then s else "seq:" ++ refsStr (Spec.docOrder d ((body.splitOn ",").map parseRef))
  else s

def modelMetaOne (rc : RunCfg) (c : Case) (mode : String) (text : List Char) (ctx : Ref) : String :=
  match mode with
  | "ast" => match parseOnly c text with
    | .ok a => a.dump numLexBits
    | .error _ => "cerr"
  | "plan" => match compileCase rc c text with
    | .ok p => p.dump numLexBits
    | .error (.nilQuery) => "_"
    | .error _ => "cerr"
  | "val" => modelEval rc c text ctx
  | "seq" | "rev" => modelSel rc c text ctx
  | "cnt" => if text == c.expr then modelEval rc c text ctx else modelSel rc c text ctx
  | "set" => sortedSet c.doc (modelSel rc c text ctx)
  | _ => "badmode"

def navDump (d : Doc) : String :=
  let mv (o : Option Ref) : String := match o with | some r => refStr r | none => "-"
  let ntNum : NType → Nat
    | .root => 0 | .elem => 1 | .attr => 2 | .text => 3 | .comment => 4 | .all => 5
  String.join ((allRefs d).map (fun r =>
    refStr r ++ ":" ++ toString (ntNum (nodeType d r)) ++ "," ++ hexOfString (localName d r) ++ "," ++ hexOfString (prefixOf d r) ++ ","
      ++ hexOfString (nsURL d r) ++ "," ++ hexOfString (stringValue d r) ++ ";" ++
      mv (Nav.moveChild d r) ++ "," ++ mv (Nav.moveNext d r) ++ "," ++ mv (Nav.movePrev d r) ++ "," ++ mv (Nav.moveParent d r) ++ "," ++
      mv (Nav.moveFirst d r) ++ "," ++ mv (Nav.moveNextAttr d r) ++ "," ++ refStr (Nav.root d) ++ "|"))

def cacheRun (extra : String) : String :=
  match extra.splitOn ";" with
  | [capS, keysS] =>
    let cap := capS.toNat!
    let load (k : String) : Option String := if k.startsWith "f" then none else some ("V" ++ k)
    let keys := if keysS == "" then [] else keysS.splitOn ","
    let step (acc : Cache.Cache × Nat × List String) (k : String) : Cache.Cache × Nat × List String :=
      let (c, loads, outs) := acc
      let hit := (c.lookup k).isSome
      let (c', r) := Cache.get cap load c k
      let loads := if hit then loads else loads + 1
      let vs := match r with | some v => v | none => "err"
      (c', loads, outs ++ [vs ++ "/" ++ toString c'.m.length ++ "/" ++ toString c'.resets ++ "/" ++ toString loads])
    let (_, _, outs) := keys.foldl step (⟨[], 0⟩, 0, [])
    "cache:" ++ ",".intercalate outs
  | _ => "badcache"

/-- the glue around the cache model: `getRegexp` on the (replaceable) package-level pattern cache.  Ops as in
the harness (`runRxCache`); the loader is the identity on valid patterns and fails on invalid ones.  A
run-time pattern costs one `get`; a literal pattern one `get` at compile time and, if that succeeded, one at
evaluation. -/
def rxCacheRun (extra : String) : String :=
  let ops := (extra.splitOn ";").filter (· != "")
  let step (acc : Nat × Cache.Cache × Nat × List String) (op : String) : Nat × Cache.Cache × Nat × List String :=
    let (cap, c, loads, outs) := acc
    let f := ((op.drop 1).toString).splitOn ","
    if op.startsWith "W" then (f.head!.toNat!, ⟨[], 0⟩, loads, outs)
    else
      let valid := f.head! == "1"
      let p := (f.getD 1 "")
      let load (_ : String) : Option String := if valid then some p else none
      let one (st : Cache.Cache × Nat) : Cache.Cache × Nat :=
        let hit := (st.1.lookup p).isSome
        ((Cache.get cap load st.1 p).1, if hit then st.2 else st.2 + 1)
      let st := one (c, loads)
      let st := if op.startsWith "L" && valid then one st else st
      (cap, st.1, st.2, outs ++ [(if valid then "ok" else "err") ++ "/" ++ toString st.2 ++ "/" ++ toString st.1.m.length])
  let (_, _, _, outs) := ops.foldl step (0, ⟨[], 0⟩, 0, [])
  "rx:" ++ ",".intercalate outs

/-- the model's answer for one history op: by clone-per-call (F15) every op equals the fresh result -/
def histOp (rc : RunCfg) (c0 : Case) (doc2 : Option Doc) (op0 : String) : String :=
  -- `S@…` / `E@…`: the op runs on the second document of the history
  let onSecond := ((op0.drop 1).toString).startsWith "@"
  let op := if onSecond then (op0.take 1).toString ++ (op0.drop 2).toString else op0
  let c : Case := if onSecond then { c0 with doc := doc2.getD [] } else c0
  if onSecond && doc2.isNone then "badop" else
  if op.startsWith "S" then
    match ((op.drop 1).toString).splitOn ":" with
    | [ctx, k] =>
      let full := modelSel rc c c.expr (parseRef ctx)
      if k == "-1" || !full.startsWith "seq:" then full
      else
        let body := (full.drop 4).toString
        let l := if body == "" then [] else body.splitOn ","
        "seq:" ++ ",".intercalate (l.take k.toNat!)
    | _ => "badop"
  else if op.startsWith "E" then modelEval rc c c.expr (parseRef (op.drop 1).toString)
  else "badop"

/-- `tmpl` kind: extra = `hex(template);groups;t0|t1|…;n0|n1|…` (`ti` = `-` if group i did not participate, else
`x` ++ hex of its text; `ni` = `x` ++ hex of its name): the text `replace()` substitutes for a match with these
groups — model (package rewriting + Go `expand`) and specification ("`$n` read as group n") -/
def tmplRun (extra : String) : String × String :=
  match extra.splitOn ";" with
  | [r, k, ts, ns] =>
    let r := unhexChars r
    let k := k.toNat!
    let dec (x : String) : Option (List Char) := if x == "-" then none else some (unhexChars (x.drop 1).toString)
    let g : Model.Template.Groups := ⟨(ts.splitOn "|").map dec, (ns.splitOn "|").map (fun x => (dec x).getD [])⟩
    ("tmpl:" ++ hexOfString (String.ofList (Model.Template.replaceOne g k r)),
     "tmpl:" ++ hexOfString (String.ofList (Spec.Template.replaceOneSpec g k r)))
  | _ => ("badtmpl", "-")

/-- `wide` kind: extra = `N;i;j` — the union of the i-th and the j-th of N like children (and of their attributes,
and the sequence form): two different nodes are two nodes, whatever their distance (`C11_main`, `hashInj_holds`) -/
def wideRun (extra : String) : String :=
  match (extra.splitOn ";").map String.toNat! with
  | [n, i, j] =>
    let ok (k : Nat) : Bool := 1 ≤ k && k ≤ n
    let c : Nat := if ok i && ok j then (if i == j then 1 else 2) else if ok i || ok j then 1 else 0
    s!"wide:{c},{c},{c}"
  | _ => "badwide"

def runCase (rc : RunCfg) (c : Case) : String × String :=
  match c.kind with
  | "sel" => (modelSel rc c c.expr c.ctx, sortedSet c.doc (specEval c c.expr c.ctx))
  | "eval" => (modelEval rc c c.expr c.ctx, specEval c c.expr c.ctx)
  | "compile" =>
    (match compileCase rc c c.expr with
      | .ok _ => "ok"
      | .error _ => "cerr", "-")
  | "ast" =>
    (match parseOnly c c.expr with
      | .ok a => "ast:" ++ a.dump numLexBits
      | .error _ => "cerr",
     if c.extra == "chain" then
       match Spec.Grammar.refParse c.expr with
       | some a => "ast:" ++ a.dump numLexBits
       | none => "noref"
     else
       -- every other parse-tree case is compared with the full reference grammar
       fullCompare c c.expr)
  | "plan" =>
    (match compileCase rc c c.expr with
      | .ok p =>
        if (match parseOnly c c.expr with | .ok a => a.staleFirstInputRisk | .error _ => false)
        then "plan:unmodelled:stale-firstInput" else "plan:" ++ p.dump numLexBits
      | .error _ => "cerr", "-")
  | "meta" =>
    match c.extra.splitOn ";" with
    | [mode, ctx2, e2] =>
      let a := modelMetaOne rc c mode c.expr c.ctx
      let b := modelMetaOne rc c mode (unhexChars e2) (parseRef ctx2)
      let sp :=
        if mode == "seq" || mode == "set" || mode == "rev" then sortedSet c.doc (specEval c c.expr c.ctx) ++ "~" ++ sortedSet c.doc (specEval c (unhexChars e2) (parseRef ctx2))
        else if mode == "val" then specEval c c.expr c.ctx ++ "~" ++ specEval c (unhexChars e2) (parseRef ctx2)
        else "-"
      ("meta:" ++ a ++ "~" ++ b, sp)
    | _ => ("badmeta", "-")
  | "hist" =>
    let all := (c.extra.splitOn ";").filter (· != "")
    let doc2 : Option Doc := (all.find? (·.startsWith "D")).map (fun s => parseDoc (unhexStr (s.drop 1).toString))
    let ops := all.filter (fun s => !s.startsWith "D")
    match compileCase rc c c.expr with
    | .error _ => ("cerr", "-")
    | .ok _ =>
      let outs := ops.map (fun op => let r := histOp rc c doc2 op; r ++ "~" ++ r)
      ("hist:" ++ ";".intercalate outs, "-")
  | "iter" =>
    let s := modelSel rc c c.expr c.ctx
    if s == "cerr" then ("cerr", "-") else
    let after := String.ofList (List.replicate ((c.extra.splitOn ";").head!.toNat!) '0')   -- "N" or "N;flat"
    let body := if s.startsWith "seq:" then (s.drop 4).toString else s
    ("iter:" ++ body ++ "/" ++ after ++ "/" ++ modelEval rc c c.expr c.ctx, specEval c c.expr c.ctx)
  | "nav" => ("nav:" ++ navDump c.doc, "-")
  -- the node key STRING (`getNodeKey`), as the hex of its UTF-8 bytes, per node in the order of `allRefs`
  | "key" => ("keys:" ++ ",".intercalate ((allRefs c.doc).map (fun r => hexOfString (identityKey c.doc (ecfg rc c) r))), "-")
  | "cache" => (cacheRun c.extra, "-")
  | "rxcache" => (rxCacheRun c.extra, "-")
  | "tmpl" => tmplRun c.extra
  | "wide" => (wideRun c.extra, wideRun c.extra)
  | "cgrowth" => ("cgrowth:ok", "cgrowth:ok")   -- the cost of Compile grows polynomially with the number of repetitions of a construct
  | "growth" => ("growth:ok", "growth:ok")   -- the cost of drawing the nodes of *P…P grows polynomially with the number of predicates
  | "ctx" =>
    -- the context node after every `Select` is where it was (`C13_select_leaves_context_node`); the number of
    -- nodes drawn is the length of the model's sequence
    let s := modelSel rc c c.expr c.ctx
    if s == "cerr" then ("cerr", "-") else
    if s.startsWith "seq:" then
      let body := (s.drop 4).toString
      let n := if body == "" then 0 else (body.splitOn ",").length
      (s!"ctx:-1/{n}", s!"ctx:-1/{n}")
    else ("ctx:" ++ s, "-")
  | _ => ("-", "-")

partial def loop (rc : RunCfg) (hin : IO.FS.Stream) (hout : IO.FS.Stream) : IO Unit := do
  let line ← hin.getLine
  if line.isEmpty then return ()
  let line := (line.dropEndWhile (· == '\n')).toString
  match parseCase line with
  | none => hout.putStrLn ("?\tbadline\t-")
  | some c =>
    if c.doc != [] && !wfb c.doc then hout.putStrLn (c.id ++ "\tbaddoc\t-")
    else if c.expr.length > 20000 then hout.putStrLn (c.id ++ "\tskipped:long\t-")
    else
      let (m, s) := runCase rc c
      hout.putStrLn (c.id ++ "\t" ++ m ++ "\t" ++ s)
  loop rc hin hout

def envFlag (name : String) (dflt : Bool) : IO Bool := do
  match ← IO.getEnv name with
  | some "1" => pure true
  | some "0" => pure false
  | _ => pure dflt

def main : IO Unit := do
  let rc : RunCfg := {
    cc := { regexOk := fun _ => true,
            shortcutNeedsNodeTest := ← envFlag "XV_SHORTCUT_NODETEST" shortcutNeedsNodeTestFromSource,
            smartDescThroughFilter := ← envFlag "XV_SMARTDESC_THROUGH_FILTER" smartDescThroughFilterFromSource },
    keySep := ← envFlag "XV_KEYSEP" true,
    setSemantics := ← envFlag "XV_SET_SEMANTICS" false }
  loop rc (← IO.getStdin) (← IO.getStdout)
