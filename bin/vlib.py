#!/usr/bin/env python3
"""Shared machinery for /verif/bin/check and /verif/bin/setup (stdlib only)."""
import hashlib
import json
import os
import re
import shutil
import subprocess
import sys
import time
from concurrent.futures import ThreadPoolExecutor

VERIF = os.path.dirname(os.path.dirname(os.path.abspath(__file__)))
REPO = os.environ.get("VERIF_REPO", "/repo")
LEAN = os.path.join(VERIF, "lean")
WORK = os.path.join(VERIF, "work")
GOENV = dict(os.environ, GOFLAGS="-mod=mod", GOPROXY="off", GOSUMDB="off", GOTOOLCHAIN="local",
             CGO_ENABLED=os.environ.get("CGO_ENABLED", "1"))
NCPU = max(1, min(16, os.cpu_count() or 4))

ALLOWED_AXIOMS = {"propext", "Classical.choice", "Quot.sound"}
FORBIDDEN = re.compile(r"\b(sorry|admit|native_decide|bv_decide|implemented_by|unsafe)\b|^\s*axiom\s", re.M)


def sh(cmd, cwd=None, env=None, timeout=None, check=False, stdin=None):
    p = subprocess.run(cmd, cwd=cwd, env=env or os.environ, stdout=subprocess.PIPE, stderr=subprocess.PIPE,
                       timeout=timeout, text=True, stdin=stdin)
    if check and p.returncode != 0:
        raise RuntimeError("command failed: %s\n%s\n%s" % (cmd, p.stdout[-4000:], p.stderr[-4000:]))
    return p


def file_digest(paths):
    h = hashlib.sha256()
    for p in sorted(paths):
        h.update(p.encode())
        try:
            with open(p, "rb") as f:
                h.update(f.read())
        except OSError:
            h.update(b"<missing>")
    return h.hexdigest()[:16]


def repo_sources():
    out = []
    for n in sorted(os.listdir(REPO)):
        if n.endswith(".go") and not n.endswith("_test.go"):
            out.append(os.path.join(REPO, n))
    return out


def log(*a):
    print(*a, file=sys.stderr, flush=True)


# ---------------------------------------------------------------------------------------------
# build steps: every check invocation rebuilds what it needs from /repo's current working tree
# ---------------------------------------------------------------------------------------------

def build_extractor():
    os.makedirs(WORK, exist_ok=True)
    exe = os.path.join(WORK, "xextract")
    srcs = [os.path.join(VERIF, "extract", n) for n in os.listdir(os.path.join(VERIF, "extract")) if n.endswith(".go") or n == "go.mod"]
    stamp = os.path.join(WORK, "xextract.digest")
    dg = file_digest(srcs)
    if os.path.exists(exe) and os.path.exists(stamp) and open(stamp).read() == dg:
        return exe
    sh(["go", "build", "-o", exe, "."], cwd=os.path.join(VERIF, "extract"), env=GOENV, check=True)
    open(stamp, "w").write(dg)
    return exe


def regenerate_facts():
    """Run the translator on the current tree; Generated/*.lean are rewritten only when they change."""
    exe = build_extractor()
    gen = os.path.join(LEAN, "XPathV", "Generated")
    p = sh([exe, REPO, gen, os.path.join(VERIF, "facts.json")], env=GOENV)
    if p.returncode != 0:
        return False, p.stderr[-2000:]
    return True, ""


def build_harness(race=False):
    os.makedirs(WORK, exist_ok=True)
    exe = os.path.join(WORK, "xh-race" if race else "xh")
    hdir = os.path.join(VERIF, "harness")
    # go.sum of the replaced module (no dependencies, may not exist)
    cmd = ["go", "build", "-tags", "verif"] + (["-race"] if race else []) + ["-o", exe, "."]
    p = sh(cmd, cwd=hdir, env=GOENV)
    if p.returncode != 0:
        return None, (p.stdout + p.stderr)[-4000:]
    return exe, ""


def lake_build(targets, timeout=3000):
    p = sh(["lake", "build"] + targets, cwd=LEAN, timeout=timeout)
    return p.returncode == 0, (p.stdout + p.stderr)


def driver_path():
    return os.path.join(LEAN, ".lake", "build", "bin", "xdriver")


# ---------------------------------------------------------------------------------------------
# proof stage
# ---------------------------------------------------------------------------------------------

def strip_comments(src):
    # remove /- ... -/ (nested) and -- line comments
    out = []
    i, depth = 0, 0
    while i < len(src):
        if src.startswith("/-", i):
            depth += 1
            i += 2
        elif src.startswith("-/", i) and depth > 0:
            depth -= 1
            i += 2
        elif depth > 0:
            i += 1
        elif src.startswith("--", i):
            j = src.find("\n", i)
            i = len(src) if j < 0 else j
        else:
            out.append(src[i])
            i += 1
    return "".join(out)


def strip_strings(src):
    return re.sub(r'"(\\.|[^"\\])*"', '""', src)


def lean_sources():
    out = []
    for root, _, files in os.walk(os.path.join(LEAN, "XPathV")):
        for f in files:
            if f.endswith(".lean"):
                out.append(os.path.join(root, f))
    out.append(os.path.join(LEAN, "Driver.lean"))
    return sorted(out)


def forbidden_tokens():
    hits = []
    for p in lean_sources():
        s = strip_strings(strip_comments(open(p, encoding="utf-8").read()))
        for m in FORBIDDEN.finditer(s):
            hits.append("%s: %s" % (os.path.relpath(p, LEAN), m.group(0).strip()))
    return hits


def audit_axioms(prop):
    """`#print axioms` every theorem listed in XPathV/Audit/<prop>.lean; returns {theorem: [axioms]} and errors."""
    path = os.path.join(LEAN, "XPathV", "Audit", prop + ".lean")
    if not os.path.exists(path):
        return {}, ["no audit file for " + prop]
    p = sh(["lake", "env", "lean", path], cwd=LEAN, timeout=1800)
    res, errs = {}, []
    if p.returncode != 0:
        errs.append("audit file does not check: " + (p.stdout + p.stderr)[-1500:])
    txt = p.stdout
    for m in re.finditer(r"'([^']+)' depends on axioms: \[([^\]]*)\]", txt, re.S):
        res[m.group(1)] = [a.strip() for a in m.group(2).replace("\n", " ").split(",") if a.strip()]
    for m in re.finditer(r"'([^']+)' does not depend on any axioms", txt):
        res[m.group(1)] = []
    for t, axs in res.items():
        bad = [a for a in axs if a not in ALLOWED_AXIOMS]
        if bad:
            errs.append("theorem %s depends on non-admitted axioms %s" % (t, bad))
    return res, errs


def theorem_statements(prop, names):
    """first line of each theorem statement (for the evidence samples)"""
    out = {}
    src = ""
    for path in (os.path.join(LEAN, "XPathV", "Lemmas", prop + "Base.lean"),
                 os.path.join(LEAN, "XPathV", "Theorems", prop + ".lean")):
        if os.path.exists(path):
            src += open(path, encoding="utf-8").read() + "\n"
    if not src:
        return out
    for n in names:
        short = n.split(".")[-1]
        m = re.search(r"theorem\s+" + re.escape(short) + r"\b(.*?):=", src, re.S)
        if m:
            out[n] = " ".join(m.group(1).split())[:400]
    return out


# ---------------------------------------------------------------------------------------------
# correspondence stage
# ---------------------------------------------------------------------------------------------

def count_lines(path):
    if not os.path.exists(path):
        return 0
    n = 0
    with open(path, "rb") as f:
        for _ in f:
            n += 1
    return n


def run_impl(xh, cases, out, timeout_ms=4000):
    """Run the real package over `cases`, restarting after timeouts and fatal crashes."""
    if os.path.exists(out):
        os.remove(out)
    total = count_lines(cases)
    ids = None
    guard = 0
    while True:
        guard += 1
        if guard > 400:
            raise RuntimeError("impl runner restarted too often")
        done = count_lines(out)
        if done >= total:
            return
        env = dict(GOENV, GOMEMLIMIT="3GiB")
        p = subprocess.run([xh, "run", cases, out, str(done), str(timeout_ms), "0"], env=env, stdout=subprocess.PIPE, stderr=subprocess.PIPE)
        if p.returncode == 0:
            return
        if p.returncode == 3:
            continue  # the watchdog wrote the timeout line
        # fatal (stack overflow, out of memory ...): find the culprit with per-line flushing
        done = count_lines(out)
        subprocess.run([xh, "run", cases, out, str(done), str(timeout_ms), "1"], env=env, stdout=subprocess.PIPE, stderr=subprocess.PIPE)
        done2 = count_lines(out)
        if done2 >= total:
            return
        if ids is None:
            ids = [l.split("\t", 1)[0] for l in open(cases, encoding="utf-8", errors="surrogateescape")]
        with open(out, "a") as f:
            f.write("%s\tfatal\n" % ids[done2])


def run_driver(cases, out, env_extra=None):
    env = dict(os.environ)
    if env_extra:
        env.update(env_extra)
    # the model driver is total (fuel everywhere) and linear in practice; a part that takes this long is a defect of
    # the machinery (2026-09-27: an eagerly evaluated branch in the input decoder), reported instead of waited for
    limit = int(os.environ.get("VERIF_DRIVER_TIMEOUT", "1500"))
    with open(cases, "rb") as fi, open(out, "wb") as fo:
        try:
            p = subprocess.run([driver_path()], stdin=fi, stdout=fo, stderr=subprocess.PIPE, env=env, timeout=limit)
        except subprocess.TimeoutExpired:
            raise RuntimeError("model driver did not finish %s within %d s" % (cases, limit))
    if p.returncode != 0:
        raise RuntimeError("driver failed: " + p.stderr.decode(errors="replace")[-2000:])


def split_file(path, k):
    lines = open(path, "rb").read().splitlines(keepends=True)
    k = max(1, min(k, len(lines) // 500 + 1))
    parts = []
    n = len(lines)
    for i in range(k):
        part = "%s.part%d" % (path, i)
        with open(part, "wb") as f:
            f.writelines(lines[i * n // k:(i + 1) * n // k])
        parts.append(part)
    return parts


def run_both(xh, cases, workdir, env_extra=None, timeout_ms=4000):
    """impl and model/spec over the case file, in parallel chunks; returns {id: (fields, impl, model, spec)}"""
    parts = split_file(cases, NCPU)

    def one(part):
        run_impl(xh, part, part + ".impl", timeout_ms)
        run_driver(part, part + ".drv", env_extra)
        return part

    with ThreadPoolExecutor(max_workers=NCPU) as ex:
        list(ex.map(one, parts))
    res = {}
    order = []
    for part in parts:
        impl = {}
        for l in open(part + ".impl", encoding="utf-8", errors="replace"):
            f = l.rstrip("\n").split("\t")
            if len(f) >= 2:
                impl[f[0]] = f[1]
        drv = {}
        for l in open(part + ".drv", encoding="utf-8", errors="replace"):
            f = l.rstrip("\n").split("\t")
            if len(f) >= 3:
                drv[f[0]] = (f[1], f[2])
        for l in open(part, encoding="utf-8", errors="replace"):
            f = l.rstrip("\n").split("\t")
            if len(f) != 7:
                continue
            m, s = drv.get(f[0], ("missing", "-"))
            res[f[0]] = (f, impl.get(f[0], "missing"), m, s)
            order.append(f[0])
        for suffix in ("", ".impl", ".drv"):
            try:
                os.remove(part + suffix)
            except OSError:
                pass
    return res, order


def unhex(s):
    try:
        return bytes.fromhex(s).decode("utf-8", errors="replace")
    except ValueError:
        return "?" + s


def ref_key(t):
    a = t.split(".")
    return (int(a[0]), int(a[1]) if len(a) > 1 else -1)


def as_set(x):
    """canonical sorted, duplicate-free form of a seq: result"""
    if x.startswith("seq:"):
        b = x[4:]
        if not b:
            return x
        return "seq:" + ",".join(sorted(set(b.split(",")), key=ref_key))
    return x


def seq_items(x):
    b = x[4:]
    return b.split(",") if b else []


def describe_doc(docs):
    """tree notation a(b,c('x')) for replays and samples"""
    if docs in ("-", ""):
        return None
    recs = []
    for r in docs.split(";"):
        f = r.split(",")
        recs.append((int(f[0]), f[1], unhex(f[2]), unhex(f[3]), unhex(f[4]), unhex(f[5]), f[6]))
    out = []

    def render(i):
        d, k, pfx, name, ns, data, attrs = recs[i]
        j = i + 1
        kids = []
        while j < len(recs) and recs[j][0] > d:
            if recs[j][0] == d + 1:
                kids.append(j)
            j += 1
        if k == "t":
            return repr(data)
        if k == "c":
            return "<!--%s-->" % data
        label = "#root" if k == "r" else ((pfx + ":" if pfx else "") + name + ("{%s}" % ns if ns else ""))
        parts = []
        if attrs:
            for a in attrs.split("|"):
                g = a.split(":")
                parts.append("@%s%s=%r" % ((unhex(g[0]) + ":") if g[0] else "", unhex(g[1]), unhex(g[3])))
        parts += [render(c) for c in kids]
        return label + ("(" + ",".join(parts) + ")" if parts else "")

    return render(0)


def case_json(f):
    return {"id": f[0], "kind": f[1], "doc": describe_doc(f[2]), "doc_encoded": f[2], "ctx": f[3], "ns": f[4],
            "expr": unhex(f[5]), "extra": f[6]}


def skeleton(expr):
    """abstract literals and names: used to match known findings"""
    s = re.sub(r"'[^']*'|\"[^\"]*\"", "S", expr)
    s = re.sub(r"\d+(\.\d*)?|\.\d+", "N", s)
    s = re.sub(r"\s+", "", s)
    return s
