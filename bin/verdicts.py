"""Per-property judges, known-finding matching, shrinking and the correspondence driver loop."""
import fnmatch
import json
import os
import re
import struct
import subprocess

from vlib import *  # noqa

# theorem names per property (must appear in XPathV/Audit/<prop>.lean); filled in as theorems land
OBLIGATIONS = json.load(open(os.path.join(VERIF, "lean", "obligations.json"))) if os.path.exists(os.path.join(VERIF, "lean", "obligations.json")) else {}

ASSUMPTIONS = {
    "C05": ["Go memory model, sync.RWMutex, sync.Pool and the race detector are not modelled; the footprint extraction (F8) is a syntactic over-approximation"],
    "C08": ["IEEE-754 operations and strconv digit conversion are parameters (NumAlg); compared bit for bit with Go on the generated inputs"],
    "C11": ["NoFnvCollision: distinct identity keys of a document have distinct FNV-64a images (checked on every generated document)"],
    "C16": ["Go's regexp package is the oracle for matches()/replace(); sync.RWMutex provides mutual exclusion"],
}


def load_known():
    p = os.path.join(VERIF, "KNOWN_FINDINGS.json")
    if not os.path.exists(p):
        return []
    return [f for f in json.load(open(p)).get("findings", []) if f.get("status") == "known"]


def impl_class(impl):
    for p in ("panic:crash:nil", "panic:crash:index", "panic:crash:div", "panic:crash:assert", "panic:crash:numerror", "panic:crash:type", "panic:crash:other",
              "panic:raised", "timeout", "fatal", "diverge", "badtype", "cerr", "missing", "both", "neither", "mustnil", "mustpanic", "mustunusable"):
        if impl.startswith(p):
            return p
    return impl.split(":", 1)[0]


def is_crash(impl):
    c = impl_class(impl)
    return c.startswith("panic:crash") or c in ("timeout", "fatal", "diverge", "badtype", "missing")


def spec_applicable(spec):
    return not (spec in ("-", "") or spec.startswith(("typeerr", "unsupported", "cerr", "noref")))


def num_of(valstr):
    if valstr == "num:nan":
        return float("nan")
    return struct.unpack(">d", bytes.fromhex(valstr[4:]))[0]


class Judge:
    """result of judging one case"""

    def __init__(self):
        self.viol = None       # reason string: failing input for the property
        self.mismatch = None   # impl != model inside the fragment
        self.obs = None        # out-of-fragment difference
        self.nontrivial = False


def cmp_model(j, impl, model, in_fragment=True):
    if "unmodelled" in model or model.startswith("skipped") or model == "-":
        return
    if impl != model:
        if in_fragment:
            j.mismatch = "impl=%s model=%s" % (impl[:200], model[:200])
        else:
            j.obs = "impl=%s model=%s (outside the fragment)" % (impl[:120], model[:120])


def judge_nodeset(j, f, impl, model, spec, dup_free=False):
    if spec_applicable(spec) and spec.startswith("seq:"):
        if impl.startswith("seq:"):
            if as_set(impl) != spec:
                j.viol = "node set differs from the XPath 1.0 denotation: impl=%s spec=%s" % (impl, spec)
            elif dup_free and len(seq_items(impl)) != len(set(seq_items(impl))):
                j.viol = "a node is returned more than once: impl=%s" % impl
            j.nontrivial = len(seq_items(spec)) > 0
        else:
            j.viol = "no node set: impl=%s spec=%s" % (impl, spec)
        cmp_model(j, impl, model)
    else:
        cmp_model(j, impl, model, in_fragment=False)


def judge_value(j, f, impl, model, spec):
    if spec_applicable(spec):
        a = impl
        if a.startswith("seq:"):
            a = as_set(a)
        if a != spec:
            j.viol = "value differs from XPath 1.0: impl=%s spec=%s" % (impl, spec)
        j.nontrivial = True
        cmp_model(j, impl, model)
    else:
        cmp_model(j, impl, model, in_fragment=False)


def judge(prop, f, impl, model, spec):
    j = Judge()
    kind, extra, expr = f[1], f[6], unhex(f[5])
    if kind == "nav":
        if impl != model:
            j.mismatch = "navigator differential: harness navigator != XPathV.Nav"
        return j
    if kind == "key":
        if impl != model:
            j.mismatch = "identity hash differs from the model: impl=%s model=%s" % (impl[:120], model[:120])
        else:
            ks = impl[5:].split(",")
            if len(ks) != len(set(ks)):
                j.viol = "two different nodes of the document have the same identity hash"
            j.nontrivial = True
        return j
    if kind == "plan":
        # builder correspondence: the model's plan must be the plan the real builder produces
        if impl != model and "unmodelled" not in model:
            j.mismatch = "built query plan differs: impl=%s model=%s" % (impl[:300], model[:300])
        j.nontrivial = impl.startswith("plan:")
        return j
    if kind == "meta" and prop not in ("C10", "C12", "C13"):
        # a metamorphic pair inside another property's check (the two sides must agree on the package itself)
        judge_meta(j, f, impl, model, spec)
        return j
    if kind == "hist" and prop != "C04":
        # a history run inside another property's check: the result of every evaluation of the shared
        # expression must be the fresh result (and the model's)
        if impl.startswith("hist:"):
            for i, pair in enumerate(impl[5:].split(";")):
                if "~" in pair:
                    got, want = pair.split("~", 1)
                    if got != want:
                        j.viol = "evaluation %d of the same compiled expression gives %s, a fresh compile gives %s" % (i, got, want)
                        break
            j.nontrivial = True
        cmp_model(j, impl, model, in_fragment=not re.search(r"\]\s*\[\s*last\(\)", expr))
        return j
    if prop in ("C01", "C02", "C03"):
        judge_nodeset(j, f, impl, model, spec)
    elif prop == "C11" and kind == "wide":
        if impl != spec:
            j.viol = "union over a very wide document (extra = N;i;j: i-th and j-th of N like children; elements, attributes, sequence form): the package counts %s nodes, XPath %s" % (impl, spec)
        j.nontrivial = True
    elif prop == "C11":
        judge_nodeset(j, f, impl, model, spec, dup_free=True)
    elif prop == "C04":
        if impl.startswith("hist:"):
            for i, pair in enumerate(impl[5:].split(";")):
                if "~" not in pair:
                    continue
                got, want = pair.split("~", 1)
                if got != want:
                    j.viol = "op %d on the shared expression gives %s, a fresh compile gives %s" % (i, got, want)
                    break
            j.nontrivial = True
            # `x[p][last()]` is compiled to lastFuncQuery, whose one-time count per clone is not modelled
            # (outside C03's fragment): the history property is still judged, the model comparison is an observation
            cmp_model(j, impl, model, in_fragment=not re.search(r"\]\s*\[\s*last\(\)", expr))
        elif impl != "cerr":
            j.viol = "history run failed: " + impl
        else:
            cmp_model(j, impl, model)
    elif prop == "C06" and kind == "rxcache":
        if not impl.startswith("rx:"):
            j.viol = "a Compile in a history of compilations over a small pattern cache did not return (or crashed): " + impl[:200]
        elif impl != model:
            j.mismatch = "pattern-cache history differs from the verified cache model: impl=%s model=%s" % (impl[:300], model[:300])
        j.nontrivial = True
    elif prop == "C06" and kind == "cgrowth":
        if impl.startswith("cgrowth:exponential"):
            j.viol = "Compile costs exponentially more with every repetition of a construct (expr = the construct, extra = hex(head);n1;n2): %s — for a few dozen repetitions Compile does not return in practice" % impl[8:]
        elif impl not in ("cgrowth:ok", "cerr"):
            j.viol = "compile growth measurement failed: " + impl
        j.nontrivial = True
    elif prop == "C06":
        if impl not in ("ok", "cerr"):
            j.viol = "Compile/MustCompile did not return exactly one of (expr, error): " + impl
        j.nontrivial = True
        cmp_model(j, impl, model)
    elif prop in ("C07", "C08", "C09"):
        if kind == "sel":
            judge_nodeset(j, f, impl, model, spec)
        else:
            if prop == "C08" and expr.startswith("string(") and spec.startswith("str:"):
                # the property speaks about finite numbers of magnitude < 10^6 only
                try:
                    v = float(unhex(spec[4:]))
                    if not (abs(v) < 1e6):
                        spec = "unsupported:magnitude"
                except ValueError:
                    spec = "unsupported:non-finite"
            judge_value(j, f, impl, model, spec)
            if is_crash(impl) and not j.viol and spec_applicable(spec):
                j.viol = "evaluation aborted: " + impl
    elif prop == "C10":
        if kind == "ast":
            if spec.startswith("ast:"):
                if impl != spec:
                    j.viol = "parse tree differs from the XPath 1.0 grouping: impl=%s ref=%s" % (impl, spec)
                j.nontrivial = True
            elif spec.startswith("full:differs:") and impl == model:
                # the model's tree (= the package's) against the tree the full reference grammar assigns
                # (Spec/FullGrammar.lean, written from the Recommendation alone; compared modulo normConv)
                j.viol = "parse tree differs from the tree of the XPath 1.0 grammar: impl=%s grammar=%s" % (impl, spec[len("full:differs:"):])
            elif spec == "full:same":
                j.nontrivial = True
                if impl.startswith("ast:") and model.startswith("ast:") and impl != model:
                    # the model's tree is the grammar's tree; the package's tree is a different one
                    j.viol = "parse tree differs from the tree of the XPath 1.0 grammar: impl=%s grammar(=model)=%s" % (impl, model)
            elif spec.startswith("full:none") and impl.startswith("ast:"):
                j.obs = "accepted by the package, not derivable in the XPath 1.0 grammar (predicate on '.'/'..', sequence form, unknown axis name rejected later …)"
            cmp_model(j, impl, model)
        elif kind == "meta":
            judge_meta(j, f, impl, model, spec)
    elif prop == "C12":
        if kind == "meta":
            judge_meta(j, f, impl, model, spec)
        else:
            judge_iter(j, f, impl, model, spec)
    elif prop == "C13" and kind == "ctx":
        if impl.startswith("ctx:") and model.startswith("ctx:"):
            if not impl.startswith("ctx:-1/"):
                j.viol = "the context node of the evaluation was moved while the nodes of the expression were drawn (after %s results): whatever is evaluated next sees another context node" % impl[4:].split("/")[0]
            elif impl != model:
                j.mismatch = "number of nodes drawn differs from the model's sequence: impl=%s model=%s" % (impl, model)
            j.nontrivial = True
        else:
            cmp_model(j, impl, model)
    elif prop == "C13":
        judge_meta(j, f, impl, model, spec)
    elif prop == "C14":
        if kind == "compile":
            ns = f[4]
            if ns != "-":
                bound = set() if ns == "+" else {unhex(kv.split("=")[0]) for kv in ns.split(",")}
                used = set(re.findall(r"(?<![\w:.-])([A-Za-z_][\w.-]*):(?=[A-Za-z_*])", expr))
                if used - bound and impl != "cerr":
                    j.viol = "unbound prefix %s accepted: %s" % (sorted(used - bound), impl)
            j.nontrivial = True
            cmp_model(j, impl, model)
        elif f[6].startswith("nons;") and "namespace-uri" in expr:
            # a navigator without NamespaceURL() cannot report URIs (the code falls back to the prefix)
            cmp_model(j, impl, model)
        elif kind == "sel":
            judge_nodeset(j, f, impl, model, spec)
        else:
            judge_value(j, f, impl, model, spec)
    elif prop == "C15" and kind == "growth":
        if impl.startswith("growth:exponential"):
            j.viol = "drawing the nodes of *P…P costs exponentially more with every predicate P (expr = P, extra = n1;n2): %s — Select does not terminate in practice (out of memory) for a few dozen predicates" % impl[7:]
        elif impl not in ("growth:ok", "cerr"):
            j.viol = "growth measurement failed: " + impl
        j.nontrivial = True
    elif prop == "C15":
        if is_crash(impl):
            j.viol = "Select/Evaluate failed with a Go runtime error / did not terminate / undocumented type: " + impl
        j.nontrivial = impl != "cerr"
        cmp_model(j, impl, model, in_fragment=False)
    elif prop == "C16":
        if kind == "cache":
            # the property itself, checked on the real cache's answers
            capv, keys = extra.split(";", 1)
            capv = int(capv)
            keys = keys.split(",") if keys else []
            outs = impl[6:].split(",") if impl.startswith("cache:") and len(impl) > 6 else []
            if not impl.startswith("cache:") or len(outs) != len(keys):
                j.viol = "cache run failed: " + impl[:200]
            else:
                loads_before = 0
                held = set()
                for k, o in zip(keys, outs):
                    v, size, resets, loads = o.split("/")
                    size, loads = int(size), int(loads)
                    if k.startswith("f"):
                        if v != "err" or loads != loads_before + 1:
                            j.viol = "failed load was remembered or did not fail: key %s -> %s (loads %d -> %d)" % (k, v, loads_before, loads)
                    elif v != "V" + k:
                        j.viol = "get(%s) returned %s" % (k, v)
                    elif k in held and loads != loads_before and int(resets) == prev_resets:
                        pass  # a reload after an eviction is fine; a reload while held is checked through the model
                    if capv > 0 and size > capv:
                        j.viol = "cache holds %d entries, capacity is %d" % (size, capv)
                    loads_before = loads
                    prev_resets = int(resets)
                    if j.viol:
                        break
            if not j.viol and impl != model:
                j.mismatch = "cache trace differs from the verified model: impl=%s model=%s" % (impl[:300], model[:300])
            j.nontrivial = True
        elif kind == "cachec":
            capv = int(extra.split(";")[0])
            if not impl.startswith("cachec:"):
                j.viol = "concurrent cache run failed: " + impl[:200]
            else:
                for o in impl[7:].split(","):
                    size, bad = o.split("/")
                    if int(bad) != 0:
                        j.viol = "a concurrent get returned a value that is not load(key)"
                    elif capv > 0 and int(size) > capv:
                        j.viol = "after concurrent misses the cache holds %s entries, capacity is %d" % (size, capv)
            j.nontrivial = True
        elif kind == "rxcache":
            if not impl.startswith("rx:"):
                j.viol = "pattern-cache history failed: " + impl[:200]
            else:
                for i, o in enumerate(impl[3:].split(",")):
                    if o.startswith("bad:"):
                        j.viol = "op %d: the regex function did not use the compilation of the requested pattern by the current cache's loader (or failed with a runtime error): %s" % (i, o[:200])
                        break
                if not j.viol and impl != model:
                    j.mismatch = "pattern-cache history differs from the verified cache model (loader calls / entries): impl=%s model=%s" % (impl[:300], model[:300])
            j.nontrivial = True
        elif kind == "rxsel":
            if impl.startswith("rxsel:"):
                got, want = impl[6:].split("~", 1)
                if got != want:
                    j.viol = "rows selected by a per-row pattern (extra m: matches, r: replace changes the value) differ from Go regexp applied row by row: got=[%s] want=[%s]" % (got, want)
                j.nontrivial = True
            elif impl != "skip":
                j.viol = "rxsel case failed: " + impl
        elif kind == "tmpl":
            if not impl.startswith("tmpl:"):
                j.viol = "replace() on a single whole-subject match failed: " + impl[:200]
            elif impl != spec:
                j.viol = "replace(): the replacement string is not expanded as ReplaceAllString with $n read as group n: got=%s spec=%s" % (impl, spec)
            elif impl != model:
                j.mismatch = "replacement-template model differs from the package: impl=%s model=%s" % (impl, model)
            j.nontrivial = True
        elif kind == "regex":
            if impl.startswith("regex:"):
                got, want = impl[6:].split("~", 1)
                if got != want:
                    j.viol = "regex function differs from Go regexp: got=%s want=%s" % (got, want)
                j.nontrivial = True
            elif impl != "skip":
                j.viol = "regex case failed: " + impl
    elif prop == "C17":
        if extra.startswith("damaged:"):
            if impl != "cerr":
                j.viol = "damaged expression (%s) accepted: %s" % (extra[8:], impl)
            j.nontrivial = True
        elif extra == "valid" and impl != "ok":
            j.obs = "generator produced an expression Compile rejects: " + expr
        cmp_model(j, impl, model)
    return j


def judge_meta(j, f, impl, model, spec):
    if not impl.startswith("meta:"):
        j.viol = "metamorphic pair failed: " + impl
        return
    a, b = impl[5:].split("~", 1)
    mode = f[6].split(";")[0]
    if mode == "rev":
        ok = a.startswith("seq:") and b.startswith("seq:") and seq_items(a) == list(reversed(seq_items(b)))
    elif mode == "cnt":
        ok = a.startswith("num:") and b.startswith("seq:") and num_of(a) == len(seq_items(b))
    else:
        ok = a == b
    if is_crash(a) or is_crash(b):
        ok = False
    if not ok:
        # both sides must be inside the spec's domain for the identity to be claimed
        if "~" in spec:
            sa, sb = spec.split("~", 1)
            if not (spec_applicable(sa) and spec_applicable(sb)):
                j.obs = "pair differs outside the fragment: %s vs %s" % (a[:100], b[:100])
                return
        j.viol = "the two sides differ (%s): %s vs %s" % (mode, a, b)
    j.nontrivial = a not in ("seq:", "cerr")
    # the whitespace/abbreviation pairs range over arbitrary generated expressions: the model is
    # only claimed for their parse trees and plans; value differences are observations
    cmp_model(j, impl, model, in_fragment=(mode in ("ast", "plan") or f[0].startswith("C13") or f[0].startswith("C12")))


def judge_iter(j, f, impl, model, spec):
    if not impl.startswith("iter:"):
        if impl == "cerr":
            cmp_model(j, impl, model)
            return
        j.viol = "iterator protocol run failed: " + impl
        return
    seq, after, ev = impl[5:].split("/", 2)
    items = seq.split(",") if seq else []
    flat = ";flat" in f[6] or f[6].endswith("flat")
    if "1" in after:
        j.viol = "MoveNext returned true again after it had returned false (%s)" % after
    elif ev.startswith("seq:") and ev != "seq:" + seq:
        j.viol = "Evaluate's iterator yields %s but Select yields seq:%s" % (ev, seq)
    elif flat:
        keys = [ref_key(t) for t in items]
        if any(keys[i] >= keys[i + 1] for i in range(len(keys) - 1)):
            j.viol = "flat path not in document order / repeats a node: " + seq
        elif spec_applicable(spec) and spec.startswith("seq:") and as_set("seq:" + seq) != spec:
            j.viol = "node set differs: impl=%s spec=%s" % (seq, spec)
    j.nontrivial = len(items) > 1
    cmp_model(j, impl, model)


# ---------------------------------------------------------------------------------------------

def known_match(prop, f, impl, findings, model=None):
    expr = unhex(f[5])
    sk = skeleton(expr)
    ic = impl_class(impl)
    for k in findings:
        # mechanism-identified findings are recognised by re-running the model (run_property), never by pattern;
        # an entry without a signature matches nothing
        if (k.get("property") != prop and prop not in k.get("properties", [])) or k.get("mechanism") or not k.get("signature"):
            continue
        sig = k.get("signature", {})
        # the input has to contain one of the listed characters (in the expression text or in a document value) …
        nc = sig.get("needs_chars")
        if nc:
            text = expr + "".join(unhex(x) for x in re.findall(r"[0-9a-f]{2,}", f[2] if f[2] != "-" else ""))
            if not any(chr(int(c, 16)) in text for c in nc):
                continue
        # … and the package has to do what the model (a transcription of the package) does
        if sig.get("impl_equals_model") and (model is None or impl != model):
            continue
        pat = sig.get("expr_skeleton")
        if pat and not any(fnmatch.fnmatchcase(sk, p1) for p1 in (pat if isinstance(pat, list) else [pat])):
            continue
        io = sig.get("impl_outcome")
        if io and not fnmatch.fnmatchcase(ic, io) and not fnmatch.fnmatchcase(impl, io):
            continue
        kd = sig.get("kind")
        if kd and kd != f[1]:
            continue
        return k
    return None


def gen_cases(xh, prop, tier, seed, out):
    p = subprocess.run([xh, "gen", prop, tier, str(seed), out], stdout=subprocess.PIPE, stderr=subprocess.PIPE, text=True, env=GOENV)
    if p.returncode != 0:
        raise RuntimeError("generator failed: " + p.stderr)
    try:
        return json.loads(p.stdout.strip().splitlines()[-1])
    except Exception:
        return {}


def corpus_lines(prop):
    d = os.path.join(VERIF, "corpus")
    out = []
    if os.path.isdir(d):
        for n in sorted(os.listdir(d)):
            if n.startswith(prop) and n.endswith(".txt"):
                for l in open(os.path.join(d, n), encoding="utf-8"):
                    if l.strip() and not l.startswith("#"):
                        out.append(l if l.endswith("\n") else l + "\n")
    return out


def driver_env(facts):
    return {}


def run_property(prop, tier, seed, xh, workdir, findings, facts, search=False):
    if prop == "C05":
        return run_race(prop, tier, seed, xh, workdir, findings, facts)
    cases = os.path.join(workdir, "cases.txt")
    dist = gen_cases(xh, prop, tier, seed, cases)
    corp = corpus_lines(prop)
    if corp:
        body = open(cases, encoding="utf-8", errors="surrogateescape").read()
        with open(cases, "w", encoding="utf-8", errors="surrogateescape") as fo:
            for i, l in enumerate(corp):
                parts = l.split("\t")
                parts[0] = "%s-corpus%03d" % (prop, i)
                fo.write("\t".join(parts))
            fo.write(body)
    timeout_ms = 20000 if prop == "C06" else 4000
    res, order = run_both(xh, cases, workdir, driver_env(facts), timeout_ms)
    viol, obs, known_hit, samples = [], [], [], []
    mism = []
    seen_nontrivial = set()
    classes = {}
    for cid in order:
        f, impl, model, spec = res[cid]
        j = judge(prop, f, impl, model, spec)
        key = (f[1], f[2], f[3], f[5], f[6])
        if j.nontrivial:
            seen_nontrivial.add(key)
        ic = impl_class(impl)
        classes[ic] = classes.get(ic, 0) + 1
        if j.viol:
            k = known_match(prop, f, impl, findings, model)
            if k is not None:
                msg = k.get("what", "known finding")
                if msg not in known_hit:
                    known_hit.append(msg)
                continue
            viol.append({"case": case_json(f), "impl": impl, "model": model, "spec": spec, "why": j.viol,
                         "first_difference": "result"})
        elif j.mismatch:
            mism.append({"case": case_json(f), "impl": impl, "model": model, "spec": spec, "why": j.mismatch})
        elif j.obs:
            if len(obs) < 200:
                obs.append({"expr": unhex(f[5]), "what": j.obs})
        if len(samples) < 12 and j.nontrivial and (len(order) < 50 or hash(cid) % 97 == 0):
            samples.append({"case": case_json(f), "impl": impl[:300], "model": model[:300], "spec": spec[:300]})
    # mechanism-identified known findings: re-run the model with a diagnostic switch on the violating
    # cases where impl = model; if the switched model equals the spec the case is exactly that finding
    for k in findings:
        mech = k.get("mechanism")
        if not mech or prop not in k.get("properties", [k.get("property")]) or not viol:
            continue
        cand = [v for v in viol if v["impl"] == v["model"]]
        if not cand:
            continue
        cf = os.path.join(workdir, "mech.txt")
        with open(cf, "w", encoding="utf-8") as fo:
            for v in cand:
                c = v["case"]
                fo.write("\t".join([c["id"], c["kind"], c["doc_encoded"], c["ctx"], c["ns"], c["expr"].encode().hex(), c["extra"] or "-"]) + "\n")
        run_driver(cf, cf + ".drv", {k["env"]: "1"})
        alt = {}
        for l in open(cf + ".drv", encoding="utf-8", errors="replace"):
            f = l.rstrip("\n").split("\t")
            if len(f) >= 3:
                alt[f[0]] = f[1]
        explained = set()
        for v in cand:
            m2 = alt.get(v["case"]["id"])
            if m2 is None:
                continue
            fake = [v["case"]["id"], v["case"]["kind"], v["case"]["doc_encoded"], v["case"]["ctx"], v["case"]["ns"], v["case"]["expr"].encode().hex(), v["case"]["extra"] or "-"]
            j2 = judge(prop, fake, m2, m2, v["spec"])
            if not j2.viol:
                explained.add(v["case"]["id"])
        if explained:
            msg = k.get("what", "known finding")
            if msg not in known_hit:
                known_hit.append(msg)
            viol = [v for v in viol if v["case"]["id"] not in explained]
    # de-duplicate violations by skeleton + outcome, shrink the representatives
    viol = distinct_by_skeleton(viol)
    viol = [shrink(prop, v, xh, workdir, findings, facts) for v in viol[:5]] + viol[5:]
    # after shrinking a violation may turn out to be a known finding
    still = []
    for v in viol:
        c = v["case"]
        f = [c["id"], c["kind"], c["doc_encoded"], c["ctx"], c["ns"], c["expr"].encode().hex(), c["extra"] or "-"]
        k = known_match(prop, f, v["impl"], findings, v.get("model"))
        if k is not None:
            msg = k.get("what", "known finding")
            if msg not in known_hit:
                known_hit.append(msg)
        else:
            still.append(v)
    viol = still
    if mism and not viol:
        # the model no longer describes the code on in-fragment inputs: a broken correspondence
        m0 = distinct_by_skeleton(mism)[:3]
        for m in m0:
            m["first_difference"] = "correspondence"
        viol_out = []
        stats_extra = {"mismatches": len(mism), "mismatch_examples": [{"expr": m["case"]["expr"], "why": m["why"]} for m in m0]}
    else:
        stats_extra = {"mismatches": len(mism)}
    stats = {
        "evaluations": len(order),
        "distinct_nontrivial": len(seen_nontrivial),
        "rule": RULES.get(prop, "generated by /verif/harness (see DESIGN §4.2); non-trivial = distinct (kind, document, context, expression) whose result is not empty/error"),
        "exhaustive": prop in ("C10", "C16"),
        "correspondence": dict(stats_extra, impl_outcome_classes=classes),
    }
    if mism and not viol and not search:
        # report through the caller's `broken` path: encode as a pseudo-violation list entry handled below
        stats["correspondence"]["broken"] = True
        viol = [{"case": m["case"], "impl": m["impl"], "model": m["model"], "spec": m["spec"], "why": "correspondence: " + m["why"],
                 "first_difference": "correspondence", "no_failing_input": True} for m in distinct_by_skeleton(mism)[:3]]
    return stats, viol, obs, known_hit, samples, dist


RULES = {
    "C01": "all ordered pairs of (axis,test) steps x heads x joints (strided in the quick tier) + all single steps + random longer paths, on every tree shape up to 5/6 nodes under random labelings and random larger documents; non-trivial = distinct case whose XPath denotation is non-empty",
    "C10": "every operator chain up to length 3 (quick) / 4 (thorough) over 14 operators, exhaustively; whitespace and abbreviation metamorphic pairs; non-trivial = distinct case with a reference parse or a non-empty result",
    "C16": "every key sequence of length 5 (quick) / 7 (thorough) over 4/5 keys incl. a failing key, for capacities 0..4, exhaustively; random long sequences; regex triples against Go regexp; replacement templates (random over $ digits braces names) on single whole-subject matches of 20 group structures: package = template model = specification",
}


def distinct_by_skeleton(vs):
    seen, out = set(), []
    for v in vs:
        k = (skeleton(v["case"]["expr"]), impl_class(v["impl"]), v["case"]["kind"])
        if k in seen:
            continue
        seen.add(k)
        out.append(v)
    return out


# ---------------------------------------------------------------------------------------------
# shrinking: delete subtrees / attributes, move the context to the root, drop predicates and steps,
# as long as the judge still reports a violation of the same outcome class
# ---------------------------------------------------------------------------------------------

def doc_records(enc):
    return [] if enc in ("-", "") else enc.split(";")


def shrink_candidates(c):
    out = []
    recs = doc_records(c["doc_encoded"])
    ctxi = int(c["ctx"].split(".")[0]) if c["ctx"] else 0
    depth = [int(r.split(",")[0]) for r in recs]
    # delete a subtree not containing the context node
    for i in range(1, len(recs)):
        j = i + 1
        while j < len(recs) and depth[j] > depth[i]:
            j += 1
        if i <= ctxi < j:
            continue
        nrecs = recs[:i] + recs[j:]
        nctx = c["ctx"]
        if ctxi >= j:
            parts = c["ctx"].split(".")
            parts[0] = str(ctxi - (j - i))
            nctx = ".".join(parts)
        out.append(dict(c, doc_encoded=";".join(nrecs), ctx=nctx))
    # drop attributes
    for i, r in enumerate(recs):
        f = r.split(",")
        if f[6] and not (i == ctxi and "." in c["ctx"]):
            f2 = f[:6] + [""]
            out.append(dict(c, doc_encoded=";".join(recs[:i] + [",".join(f2)] + recs[i + 1:])))
    if c["ctx"] != "0":
        out.append(dict(c, ctx="0"))
    e = c["expr"]
    # drop a bracketed predicate without nested brackets
    for m in re.finditer(r"\[[^\[\]]*\]", e):
        out.append(dict(c, expr=e[:m.start()] + e[m.end():]))
    # drop a trailing or leading step
    for m in re.finditer(r"/+[^/\[\]()|]+$", e):
        out.append(dict(c, expr=e[:m.start()]))
    for op in (" or ", " and ", " | "):
        if op in e:
            a, b = e.split(op, 1)
            out.append(dict(c, expr=a))
            out.append(dict(c, expr=b))
    return [o for o in out if o["expr"]]


def shrink(prop, v, xh, workdir, findings, facts, rounds=12):
    if v["case"]["kind"] not in ("sel", "eval") or v.get("no_failing_input"):
        return v
    cls = impl_class(v["impl"])
    cur = v
    for _ in range(rounds):
        cands = shrink_candidates(cur["case"])[:120]
        if not cands:
            break
        cf = os.path.join(workdir, "shrink.txt")
        with open(cf, "w", encoding="utf-8") as fo:
            for i, c in enumerate(cands):
                fo.write("\t".join(["S%04d" % i, c["kind"], c["doc_encoded"], c["ctx"], c["ns"], c["expr"].encode().hex(), c["extra"] or "-"]) + "\n")
        try:
            res, order = run_both(xh, cf, workdir, driver_env(facts))
        except Exception:
            break
        better = None
        for cid in order:
            f, impl, model, spec = res[cid]
            j = judge(prop, f, impl, model, spec)
            if j.viol and impl_class(impl) == cls:
                cj = case_json(f)
                cj["id"] = cur["case"]["id"]
                size = len(cj["doc_encoded"]) + 4 * len(cj["expr"])
                if better is None or size < better[0]:
                    better = (size, {"case": cj, "impl": impl, "model": model, "spec": spec, "why": j.viol, "first_difference": "result"})
        cursize = len(cur["case"]["doc_encoded"]) + 4 * len(cur["case"]["expr"])
        if better is None or better[0] >= cursize:
            break
        cur = better[1]
    cur["shrunk_from"] = v["case"]["expr"] if cur is not v else None
    return cur


# ---------------------------------------------------------------------------------------------
# C05: race runner
# ---------------------------------------------------------------------------------------------

def run_race(prop, tier, seed, xh, workdir, findings, facts):
    cases = os.path.join(workdir, "cases.txt")
    dist = gen_cases(xh, prop, tier, seed, cases)
    xr, err = build_harness(race=True)
    viol, obs, known_hit, samples = [], [], [], []
    stats = {"evaluations": 0, "distinct_nontrivial": 0,
             "rule": "g goroutines share one *Expr per case (Select, Evaluate, concurrent Compile); -race build; each result compared with the sequential one",
             "correspondence": {}}
    if xr is None:
        stats["correspondence"]["race_build_error"] = err[-500:]
        obs.append({"expr": "", "what": "race-instrumented harness could not be built (cgo/tsan unavailable?): " + err[-300:]})
        return stats, viol, obs, known_hit, samples, dist
    out = os.path.join(workdir, "race.out")
    gor = "8" if tier != "thorough" else "32"
    env = dict(GOENV, GORACE="halt_on_error=0 exitcode=66 log_path=" + os.path.join(workdir, "racelog"))
    p = subprocess.run([xr, "race", cases, out, gor], env=env, stdout=subprocess.PIPE, stderr=subprocess.PIPE, text=True)
    lines = {}
    for l in open(cases, encoding="utf-8"):
        f = l.rstrip("\n").split("\t")
        lines[f[0]] = f
    n = 0
    if os.path.exists(out):
        for l in open(out, encoding="utf-8"):
            cid, r = l.rstrip("\n").split("\t", 1)
            n += 1
            if r.startswith("mismatch"):
                viol.append({"case": case_json(lines[cid]), "impl": r, "model": "-", "spec": "-", "why": "concurrent result differs from the sequential one: " + r, "first_difference": "result"})
            if len(samples) < 8:
                samples.append({"case": case_json(lines[cid]), "impl": r})
    # race reports
    reports = []
    for fn in os.listdir(workdir):
        if fn.startswith("racelog"):
            txt = open(os.path.join(workdir, fn), errors="replace").read()
            for blk in txt.split("=================="):
                if "DATA RACE" in blk:
                    reports.append(blk.strip()[:1500])
    sites = {}
    for r in reports:
        m = re.findall(r"github.com/antchfx/xpath\.([\w.()*]+)", r)
        key = ",".join(sorted(set(m))[:4]) or "unknown"
        sites.setdefault(key, r)
    for key, r in sites.items():
        pseudo = ["race", "race", "-", "0", "-", key.encode().hex(), "-"]
        k = known_match(prop, pseudo, "race", findings)
        if k is not None:
            if k.get("what") not in known_hit:
                known_hit.append(k.get("what"))
            continue
        viol.append({"case": {"id": "race", "kind": "race", "doc": None, "doc_encoded": "-", "ctx": "0", "ns": "-", "expr": key, "extra": ""},
                     "impl": "race", "model": "-", "spec": "-", "why": "data race reported by the race detector:\n" + r, "first_difference": "race"})
    if p.returncode not in (0, 66) and not viol:
        obs.append({"expr": "", "what": "race runner exited with %d: %s" % (p.returncode, p.stderr[-300:])})
    stats["evaluations"] = n
    stats["distinct_nontrivial"] = n
    stats["correspondence"] = {"race_reports": len(reports), "goroutines": int(gor)}
    return stats, distinct_by_skeleton(viol), obs, known_hit, samples, dist
