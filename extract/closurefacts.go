package main

import (
	"go/ast"
	"go/token"
	"go/types"
	"sort"
)

// ---------------------------------------------------------------- ClosureFacts.lean

type closureWrite struct {
	Func   string `json:"func"`
	Target string `json:"target"`
}

type globalVar struct {
	Name    string   `json:"name"`
	Type    string   `json:"type"`
	Writers []string `json:"writers"`
}

type lockedWrite struct {
	Method string `json:"method"`
	Target string `json:"target"`
	Locked bool   `json:"locked"`
}

// topLevel enumerates (name, node) for every function declaration body and every package-level
// variable initialiser.
func (c *ctx) topLevel(f func(name string, file string, n ast.Node)) {
	for _, file := range c.files {
		for _, d := range file.Decls {
			switch x := d.(type) {
			case *ast.FuncDecl:
				if x.Body != nil {
					f(declName(x), c.fileOf(x), x.Body)
				}
			case *ast.GenDecl:
				if x.Tok != token.VAR {
					continue
				}
				for _, s := range x.Specs {
					vs, ok := s.(*ast.ValueSpec)
					if !ok {
						continue
					}
					for i, v := range vs.Values {
						name := "?"
						if i < len(vs.Names) {
							name = vs.Names[i].Name
						} else if len(vs.Names) > 0 {
							name = vs.Names[0].Name
						}
						f(name, c.fileOf(v), v)
					}
				}
			}
		}
	}
}

func (c *ctx) closureFacts() *leanFile {
	l := newLean("ClosureFacts", "func.go, build.go (function literals), all files (package variables), cache.go (locking)", true)

	// ---- closureWrites
	var writes []closureWrite
	c.topLevel(func(name, file string, root ast.Node) {
		if file != "func.go" && file != "build.go" {
			return
		}
		walkStack(root, func(n ast.Node, stack []ast.Node) bool {
			targets := c.writeTargets(n)
			if len(targets) == 0 {
				return true
			}
			var lit *ast.FuncLit // innermost enclosing literal
			for i := len(stack) - 1; i >= 0 && lit == nil; i-- {
				lit, _ = stack[i].(*ast.FuncLit)
			}
			if lit == nil {
				return true
			}
			for _, t := range targets {
				id := rootIdent(t)
				if id == nil || id.Name == "_" {
					continue
				}
				o := c.obj(id)
				if o == nil {
					// no type information: cannot tell where it is declared; report it (over-approximation)
					writes = append(writes, closureWrite{name, id.Name})
					continue
				}
				v, ok := o.(*types.Var)
				if !ok || v.IsField() {
					continue
				}
				if o.Pos() >= lit.Pos() && o.Pos() < lit.End() {
					continue // declared inside the literal
				}
				writes = append(writes, closureWrite{name, id.Name})
			}
			return true
		})
	})
	// a method that writes its receiver's fields, called inside a literal on a variable the
	// literal captured, is a write to shared state as well (e.g. a memo object created next to the closure)
	mutators := map[string]bool{} // "Type.Method" whose body assigns receiver fields
	for _, file := range c.files {
		for _, d := range file.Decls {
			fd, ok := d.(*ast.FuncDecl)
			if !ok || fd.Recv == nil || fd.Body == nil || len(fd.Recv.List) != 1 || len(fd.Recv.List[0].Names) != 1 {
				continue
			}
			if len(c.recvFieldWrites(fd.Body, fd.Recv.List[0].Names[0])) > 0 {
				mutators[recvName(fd.Recv.List[0].Type)+"."+fd.Name.Name] = true
			}
		}
	}
	c.topLevel(func(name, file string, root ast.Node) {
		if file != "func.go" && file != "build.go" {
			return
		}
		walkStack(root, func(n ast.Node, stack []ast.Node) bool {
			call, ok := n.(*ast.CallExpr)
			if !ok {
				return true
			}
			sel, ok := call.Fun.(*ast.SelectorExpr)
			if !ok {
				return true
			}
			id, ok := sel.X.(*ast.Ident)
			if !ok {
				return true
			}
			var lit *ast.FuncLit
			for i := len(stack) - 1; i >= 0 && lit == nil; i-- {
				lit, _ = stack[i].(*ast.FuncLit)
			}
			if lit == nil {
				return true
			}
			o := c.obj(id)
			v, isVar := o.(*types.Var)
			if o == nil || !isVar || v.IsField() || (o.Pos() >= lit.Pos() && o.Pos() < lit.End()) {
				return true
			}
			if v.Parent() == c.pkg.Scope() {
				return true // package-level objects are covered by `globals` / `lockedWrites`
			}
			t := v.Type()
			if p, ok := t.(*types.Pointer); ok {
				t = p.Elem()
			}
			if nt, ok := t.(*types.Named); ok {
				if nt.Obj().Pkg() == c.pkg {
					if mutators[nt.Obj().Name()+"."+sel.Sel.Name] {
						writes = append(writes, closureWrite{name, id.Name + "." + sel.Sel.Name + "()"})
					}
				} else if _, isStruct := nt.Underlying().(*types.Struct); isStruct {
					// a struct type of another package (sync.Map, strings.Builder, …): a method with a pointer
					// receiver may mutate it; we cannot look inside, so it counts as a write
					if m, _, _ := types.LookupFieldOrMethod(types.NewPointer(nt), true, nt.Obj().Pkg(), sel.Sel.Name); m != nil {
						if fn, ok := m.(*types.Func); ok {
							if sig, ok := fn.Type().(*types.Signature); ok && sig.Recv() != nil {
								if _, ptr := sig.Recv().Type().(*types.Pointer); ptr {
									writes = append(writes, closureWrite{name, id.Name + "." + sel.Sel.Name + "()"})
								}
							}
						}
					}
				}
			}
			return true
		})
	})
	sort.Slice(writes, func(i, j int) bool {
		if writes[i].Func != writes[j].Func {
			return writes[i].Func < writes[j].Func
		}
		return writes[i].Target < writes[j].Target
	})
	uniq := []closureWrite{}
	for i, w := range writes {
		if i == 0 || w != writes[i-1] {
			uniq = append(uniq, w)
		}
	}
	writes = uniq

	// ---- globals
	globals := []globalVar{}
	index := map[types.Object]int{}
	byName := map[string]int{}
	for _, file := range c.files {
		for _, d := range file.Decls {
			gd, ok := d.(*ast.GenDecl)
			if !ok || gd.Tok != token.VAR {
				continue
			}
			for _, s := range gd.Specs {
				vs, ok := s.(*ast.ValueSpec)
				if !ok {
					continue
				}
				for _, n := range vs.Names {
					if n.Name == "_" {
						continue
					}
					t := "?"
					if o := c.info.Defs[n]; o != nil {
						t = c.typeString(o.Type())
					}
					globals = append(globals, globalVar{n.Name, onesp(t), []string{}})
				}
			}
		}
	}
	sort.Slice(globals, func(i, j int) bool { return globals[i].Name < globals[j].Name })
	for i, g := range globals {
		byName[g.Name] = i
		if o := c.scope().Lookup(g.Name); o != nil {
			index[o] = i
		}
	}
	c.topLevel(func(name, file string, root ast.Node) {
		ast.Inspect(root, func(n ast.Node) bool {
			for _, t := range c.writeTargets(n) {
				id := rootIdent(t)
				if id == nil {
					continue
				}
				if o := c.obj(id); o != nil {
					if i, ok := index[o]; ok && globals[i].Name != name {
						globals[i].Writers = append(globals[i].Writers, name)
					}
				} else if i, ok := byName[id.Name]; ok && globals[i].Name != name {
					globals[i].Writers = append(globals[i].Writers, name)
				}
			}
			return true
		})
	})
	for i := range globals {
		globals[i].Writers = sortedSet(globals[i].Writers)
	}

	// ---- lockedWrites: methods of loadingCache
	locked := []lockedWrite{}
	for _, fd := range c.allFuncDecls() {
		if fd.Recv == nil || fd.Body == nil || len(fd.Recv.List) != 1 || recvName(fd.Recv.List[0].Type) != "loadingCache" {
			continue
		}
		recv := recvIdent(fd)
		if recv == nil {
			continue
		}
		type event struct {
			pos  token.Pos
			lock bool
		}
		var events []event
		deferred := map[*ast.CallExpr]bool{}
		ast.Inspect(fd.Body, func(n ast.Node) bool {
			if ds, ok := n.(*ast.DeferStmt); ok && ds.Call != nil {
				deferred[ds.Call] = true
			}
			if x, m, call, ok := methodCall2(n); ok && c.sameIdent(x, recv) {
				switch m {
				case "Lock":
					events = append(events, event{call.Pos(), true})
				case "Unlock":
					if deferred[call] {
						events = append(events, event{fd.Body.End(), false}) // runs at function exit
					} else {
						events = append(events, event{call.Pos(), false})
					}
				}
			}
			return true
		})
		sort.Slice(events, func(i, j int) bool { return events[i].pos < events[j].pos })
		between := func(p token.Pos) bool {
			held := false
			for i, e := range events {
				if e.pos > p {
					// some Unlock must follow
					for _, f := range events[i:] {
						if !f.lock {
							return held
						}
					}
					return false
				}
				held = e.lock
			}
			return false
		}
		ast.Inspect(fd.Body, func(n ast.Node) bool {
			for _, t := range c.writeTargets(n) {
				if f, ok := c.fieldUnderRecv(t, recv); ok {
					locked = append(locked, lockedWrite{fd.Name.Name, recv.Name + "." + f, between(n.Pos())})
				}
			}
			return true
		})
	}
	sort.Slice(locked, func(i, j int) bool {
		a, b := locked[i], locked[j]
		if a.Method != b.Method {
			return a.Method < b.Method
		}
		if a.Target != b.Target {
			return a.Target < b.Target
		}
		return !a.Locked && b.Locked
	})
	uniqL := []lockedWrite{}
	for i, w := range locked {
		if i == 0 || w != locked[i-1] {
			uniqL = append(uniqL, w)
		}
	}
	locked = uniqL

	var q []string
	for _, w := range writes {
		q = append(q, leanRec(leanStr(w.Func), leanStr(w.Target)))
	}
	l.p("/-- assignments inside function literals of func.go / build.go whose target is declared outside the literal:\n    ⟨enclosing top-level function, root identifier⟩ -/\ndef closureWrites : List ClosureWrite := %s\n\n", leanLines(q))
	q = nil
	for _, g := range globals {
		q = append(q, leanRec(leanStr(g.Name), leanStr(g.Type), leanStrList(g.Writers)))
	}
	l.p("/-- every package-level `var`: ⟨name, type, functions assigning it outside its declaration⟩ -/\ndef globals : List GlobalVar := %s\n\n", leanLines(q))
	q = nil
	for _, w := range locked {
		q = append(q, leanTuple(leanStr(w.Method), leanStr(w.Target), leanBool(w.Locked)))
	}
	l.p("/-- writes to receiver fields in methods of loadingCache: (method, target, between Lock() and Unlock()) -/\ndef lockedWrites : List (String × String × Bool) := %s\n", leanList(q))
	c.facts["closureFacts"] = map[string]interface{}{"closureWrites": writes, "globals": globals, "lockedWrites": locked}
	return l
}
