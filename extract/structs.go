package main

import (
	"go/ast"
	"go/token"
	"sort"
	"strings"
)

// ---------------------------------------------------------------- StructFacts.lean

type structFact struct {
	Name           string   `json:"name"`
	Fields         []string `json:"fields"`
	CloneType      string   `json:"cloneType"`
	CloneFields    []string `json:"cloneFields"`
	CloneRecursive []string `json:"cloneRecursive"`
	EvalAssigns    []string `json:"evalAssigns"`
	EvalForwards   []string `json:"evalForwards"`
	SelectAssigns  []string `json:"selectAssigns"`
}

// structTypes: name -> struct type of every `type T struct{…}` of the package.
func (c *ctx) structTypes() map[string]*ast.StructType {
	out := map[string]*ast.StructType{}
	for _, f := range c.files {
		for _, d := range f.Decls {
			gd, ok := d.(*ast.GenDecl)
			if !ok || gd.Tok != token.TYPE {
				continue
			}
			for _, s := range gd.Specs {
				if ts, ok := s.(*ast.TypeSpec); ok {
					if st, ok := ts.Type.(*ast.StructType); ok {
						out[ts.Name.Name] = st
					}
				}
			}
		}
	}
	return out
}

func fieldNames(st *ast.StructType) []string {
	out := []string{}
	if st == nil || st.Fields == nil {
		return out
	}
	for _, f := range st.Fields.List {
		if len(f.Names) == 0 { // embedded
			t := f.Type
			if s, ok := t.(*ast.StarExpr); ok {
				t = s.X
			}
			if _, name, ok := sel(t); ok {
				out = append(out, name)
			} else {
				out = append(out, identName(t))
			}
			continue
		}
		for _, n := range f.Names {
			out = append(out, n.Name)
		}
	}
	return out
}

// compositeOf: e is `&T{…}` or `T{…}`; returns the literal and T.
func compositeOf(e ast.Expr) (*ast.CompositeLit, string, bool) {
	e = unparen(e)
	if u, ok := e.(*ast.UnaryExpr); ok && u.Op == token.AND {
		e = unparen(u.X)
	}
	lit, ok := e.(*ast.CompositeLit)
	if !ok || lit.Type == nil {
		return nil, "", false
	}
	name := identName(lit.Type)
	return lit, name, name != ""
}

// isCloneOf: e is `<x>.Clone()`; returns x.
func cloneArg(e ast.Expr) (ast.Expr, bool) {
	x, m, call, ok := methodCall(e)
	if !ok || m != "Clone" || len(call.Args) != 0 {
		return nil, false
	}
	return x, true
}

func (c *ctx) structFacts() *leanFile {
	l := newLean("StructFacts", "query.go (query structs: fields, Clone, Evaluate, Select)", true)
	sts := c.structTypes()
	methods := map[string]map[string]*ast.FuncDecl{}
	for _, fd := range c.allFuncDecls() {
		if fd.Recv == nil || len(fd.Recv.List) != 1 {
			continue
		}
		r := recvName(fd.Recv.List[0].Type)
		if methods[r] == nil {
			methods[r] = map[string]*ast.FuncDecl{}
		}
		methods[r][fd.Name.Name] = fd
	}
	var names []string
	for name := range sts {
		m := methods[name]
		if m != nil && m["Select"] != nil && m["Evaluate"] != nil && m["Clone"] != nil {
			names = append(names, name)
		}
	}
	sort.Strings(names)

	facts := []structFact{}
	for _, name := range names {
		m := methods[name]
		sf := structFact{Name: name, Fields: fieldNames(sts[name]), CloneType: "unknown",
			CloneFields: []string{}, CloneRecursive: []string{}}

		// Clone
		if fd := m["Clone"]; fd.Body != nil {
			recv := recvIdent(fd)
			types := map[string]bool{}
			recOK := map[string]bool{} // key -> every occurrence is <recv>.<key>.Clone()
			ast.Inspect(fd.Body, func(n ast.Node) bool {
				if _, ok := n.(*ast.FuncLit); ok {
					return false
				}
				ret, ok := n.(*ast.ReturnStmt)
				if !ok {
					return true
				}
				if len(ret.Results) != 1 {
					types["unknown"] = true
					return true
				}
				if recv != nil && c.sameIdent(ret.Results[0], recv) {
					types["self"] = true
					return true
				}
				lit, tname, ok := compositeOf(ret.Results[0])
				if !ok {
					types["unknown"] = true
					return true
				}
				types[tname] = true
				litFields := fieldNames(sts[tname])
				for i, el := range lit.Elts {
					key, val := "", el
					if kv, ok := el.(*ast.KeyValueExpr); ok {
						key, val = identName(kv.Key), kv.Value
					} else if i < len(litFields) {
						key = litFields[i] // positional literal
					}
					if key == "" {
						types["unknown"] = true
						continue
					}
					// `done: false`, `posit: 0`, `iterator: nil`, `name: ""`: the zero value written out is the
					// same as leaving the field out of the literal
					if isZeroLiteral(val) {
						continue
					}
					sf.CloneFields = append(sf.CloneFields, key)
					rec := false
					if x, ok := cloneArg(val); ok && recv != nil {
						if f, ok := c.recvField(x, recv); ok && f == key {
							rec = true
						}
					}
					if old, seen := recOK[key]; seen {
						recOK[key] = old && rec
					} else {
						recOK[key] = rec
					}
				}
				return true
			})
			if len(types) == 1 {
				for t := range types {
					sf.CloneType = t
				}
			}
			sf.CloneFields = orderedSet(sf.CloneFields)
			for _, k := range sf.CloneFields {
				if recOK[k] {
					sf.CloneRecursive = append(sf.CloneRecursive, k)
				}
			}
		}

		// Evaluate
		fd := m["Evaluate"]
		recv := recvIdent(fd)
		sf.EvalAssigns = sortedSet(c.recvFieldWrites(fd.Body, recv))
		var fw []string
		if fd.Body != nil && recv != nil {
			ast.Inspect(fd.Body, func(n ast.Node) bool {
				if x, mth, _, ok := methodCall2(n); ok && mth == "Evaluate" {
					if f, ok := c.recvField(x, recv); ok {
						fw = append(fw, f)
					}
				}
				return true
			})
		}
		sf.EvalForwards = sortedSet(fw)

		// Select (+ one level of helper methods of the same receiver)
		fd = m["Select"]
		recv = recvIdent(fd)
		sa := c.recvFieldWrites(fd.Body, recv)
		if fd.Body != nil && recv != nil {
			helpers := map[string]bool{}
			ast.Inspect(fd.Body, func(n ast.Node) bool {
				if x, mth, _, ok := methodCall2(n); ok && c.sameIdent(x, recv) && m[mth] != nil && mth != "Select" {
					helpers[mth] = true
				}
				return true
			})
			for h := range helpers {
				sa = append(sa, c.recvFieldWrites(m[h].Body, recvIdent(m[h]))...)
			}
		}
		sf.SelectAssigns = sortedSet(sa)
		facts = append(facts, sf)
	}

	var q []string
	for _, s := range facts {
		q = append(q, leanRec(leanStr(s.Name), leanStrList(s.Fields), leanStr(s.CloneType), leanStrList(s.CloneFields),
			leanStrList(s.CloneRecursive), leanStrList(s.EvalAssigns), leanStrList(s.EvalForwards), leanStrList(s.SelectAssigns)))
	}
	l.p("/-- ⟨name, fields, cloneType, cloneFields, cloneRecursive, evalAssigns, evalForwards, selectAssigns⟩ for every struct\n    with methods Select, Evaluate and Clone -/\ndef structs : List StructFact := %s\n", leanLines(q))
	c.facts["structFacts"] = map[string]interface{}{"structs": facts}
	return l
}

// ---------------------------------------------------------------- ApiFacts.lean

// exprQ: e is `<recv>.q`.
func (c *ctx) isExprQ(e ast.Expr, recv *ast.Ident) bool {
	f, ok := c.recvField(e, recv)
	return ok && f == "q"
}

// assignedValues: every right-hand side assigned to the variable id inside body (nil entry
// for an assignment whose value cannot be paired).
func (c *ctx) assignedValues(body ast.Node, id *ast.Ident) []ast.Expr {
	var out []ast.Expr
	if body == nil || id == nil {
		return nil
	}
	ast.Inspect(body, func(n ast.Node) bool {
		switch s := n.(type) {
		case *ast.AssignStmt:
			for i, lh := range s.Lhs {
				if c.sameIdent(lh, id) {
					if len(s.Lhs) == len(s.Rhs) {
						out = append(out, s.Rhs[i])
					} else {
						out = append(out, nil)
					}
				}
			}
		case *ast.ValueSpec:
			for i, nm := range s.Names {
				if c.sameIdent(nm, id) && len(s.Values) > 0 {
					if len(s.Values) == len(s.Names) {
						out = append(out, s.Values[i])
					} else {
						out = append(out, nil)
					}
				}
			}
		case *ast.IncDecStmt:
			if c.sameIdent(s.X, id) {
				out = append(out, nil)
			}
		}
		return true
	})
	return out
}

// holdsClone: e is `<x>.Clone()` (x satisfying pred) or a variable all of whose assignments are such calls.
func (c *ctx) holdsClone(body ast.Node, e ast.Expr, pred func(ast.Expr) bool) bool {
	if x, ok := cloneArg(e); ok {
		return pred(x)
	}
	id, ok := unparen(e).(*ast.Ident)
	if !ok {
		return false
	}
	vals := c.assignedValues(body, id)
	if len(vals) == 0 {
		return false
	}
	for _, v := range vals {
		if v == nil {
			return false
		}
		x, ok := cloneArg(v)
		if !ok || !pred(x) {
			return false
		}
	}
	return true
}

func (c *ctx) apiFacts() *leanFile {
	l := newLean("ApiFacts", "xpath.go (Expr.Select, Expr.Evaluate, Compile, CompileWithNS, MustCompile), build.go (build)", false)

	// the `query:` value of every NodeIterator literal below n
	iterQueries := func(n ast.Node) []ast.Expr {
		var out []ast.Expr
		if n == nil {
			return nil
		}
		ast.Inspect(n, func(m ast.Node) bool {
			lit, ok := m.(*ast.CompositeLit)
			if !ok || identName(lit.Type) != "NodeIterator" {
				return true
			}
			var q ast.Expr
			for _, el := range lit.Elts {
				if kv, ok := el.(*ast.KeyValueExpr); ok && identName(kv.Key) == "query" {
					q = kv.Value
				}
			}
			out = append(out, q) // nil when the field is not set by key
			return true
		})
		return out
	}

	selectClones := false
	if fd := c.funcDecl("Expr", "Select"); fd != nil && fd.Body != nil && recvIdent(fd) != nil {
		recv := recvIdent(fd)
		qs := iterQueries(fd.Body)
		selectClones = len(qs) > 0
		for _, q := range qs {
			if q == nil || !c.holdsClone(fd.Body, q, func(x ast.Expr) bool { return c.isExprQ(x, recv) }) {
				selectClones = false
			}
		}
		// and the literal is what is returned
		if len(fd.Body.List) == 0 {
			selectClones = false
		} else if ret, ok := fd.Body.List[len(fd.Body.List)-1].(*ast.ReturnStmt); !ok || len(ret.Results) != 1 {
			selectClones = false
		}
	}

	clonesBefore, iterClones := false, false
	if fd := c.funcDecl("Expr", "Evaluate"); fd != nil && fd.Body != nil && recvIdent(fd) != nil {
		recv := recvIdent(fd)
		var firstRecv ast.Expr
		ast.Inspect(fd.Body, func(n ast.Node) bool {
			if x, m, _, ok := methodCall2(n); ok && m == "Evaluate" && firstRecv == nil {
				firstRecv = x
			}
			return true
		})
		if firstRecv != nil {
			clonesBefore = c.holdsClone(fd.Body, firstRecv, func(x ast.Expr) bool { return c.isExprQ(x, recv) })
		}
		qs := iterQueries(fd.Body)
		iterClones = len(qs) > 0
		for _, q := range qs {
			if q == nil || !c.holdsClone(fd.Body, q, func(ast.Expr) bool { return true }) {
				iterClones = false
			}
		}
	}

	type nilCheck struct {
		Func string `json:"func"`
		Has  bool   `json:"has"`
	}
	var checks []nilCheck
	hasCheck := map[string]bool{}
	delegatesTo := map[string]string{}
	for _, name := range []string{"Compile", "CompileWithNS"} {
		has := false
		if fd := c.funcDecl("", name); fd != nil && fd.Body != nil {
			var qy *ast.Ident
			// the whole body is `return G(…)` with G the other entry point: the check is G's
			if len(fd.Body.List) == 1 {
				if ret, ok := fd.Body.List[0].(*ast.ReturnStmt); ok && len(ret.Results) == 1 {
					if fn, _, ok := funcCall(ret.Results[0]); ok && (fn == "Compile" || fn == "CompileWithNS") && fn != name {
						delegatesTo[name] = fn
					}
				}
			}
			for i, s := range fd.Body.List {
				// the inverted form: `if qy != nil { return <expr>, nil }` and the function ends in `return nil, <error>`
				if ifs, ok := s.(*ast.IfStmt); ok && qy != nil && ifs.Init == nil && ifs.Else == nil && ifs.Body != nil && len(ifs.Body.List) > 0 && i == len(fd.Body.List)-2 {
					if b, ok := unparen(ifs.Cond).(*ast.BinaryExpr); ok && b.Op == token.NEQ && c.sameIdent(b.X, qy) && isNil(b.Y) {
						r1, ok1 := ifs.Body.List[len(ifs.Body.List)-1].(*ast.ReturnStmt)
						r2, ok2 := fd.Body.List[i+1].(*ast.ReturnStmt)
						if ok1 && ok2 && len(r1.Results) == 2 && !isNil(r1.Results[0]) && isNil(r1.Results[1]) && len(r2.Results) == 2 && isNil(r2.Results[0]) && !isNil(r2.Results[1]) {
							has = true
						}
					}
				}
				switch x := s.(type) {
				case *ast.AssignStmt:
					if len(x.Rhs) == 1 && len(x.Lhs) >= 1 {
						if fn, _, ok := funcCall(x.Rhs[0]); ok && fn == "build" {
							qy, _ = x.Lhs[0].(*ast.Ident)
						}
					}
				case *ast.IfStmt:
					if qy == nil || x.Init != nil || x.Body == nil || len(x.Body.List) == 0 {
						continue
					}
					b, ok := unparen(x.Cond).(*ast.BinaryExpr)
					if !ok || b.Op != token.EQL || !c.sameIdent(b.X, qy) || !isNil(b.Y) {
						continue
					}
					if ret, ok := x.Body.List[len(x.Body.List)-1].(*ast.ReturnStmt); ok && len(ret.Results) == 2 && isNil(ret.Results[0]) && !isNil(ret.Results[1]) {
						has = true
					}
				}
			}
		}
		hasCheck[name] = has
	}
	for _, name := range []string{"Compile", "CompileWithNS"} {
		has := hasCheck[name]
		if g, ok := delegatesTo[name]; ok && hasCheck[g] {
			has = true
		}
		checks = append(checks, nilCheck{name, has})
	}

	mustNop := false
	if fd := c.funcDecl("", "MustCompile"); fd != nil && fd.Body != nil {
		for _, s := range fd.Body.List {
			ifs, ok := s.(*ast.IfStmt)
			if !ok || ifs.Body == nil || len(ifs.Body.List) != 1 {
				continue
			}
			b, ok := unparen(ifs.Cond).(*ast.BinaryExpr)
			if !ok || b.Op != token.NEQ || !isNil(b.Y) {
				continue
			}
			ret, ok := ifs.Body.List[0].(*ast.ReturnStmt)
			if !ok || len(ret.Results) != 1 {
				continue
			}
			lit, tname, ok := compositeOf(ret.Results[0])
			if !ok || tname != "Expr" {
				continue
			}
			for _, el := range lit.Elts {
				if kv, ok := el.(*ast.KeyValueExpr); ok && identName(kv.Key) == "q" {
					if _, vt, ok := compositeOf(kv.Value); ok && vt == "nopQuery" {
						mustNop = true
					}
				}
			}
		}
	}

	arms := []string{}
	if fd := c.funcDecl("", "build"); fd != nil && fd.Body != nil {
		ast.Inspect(fd.Body, func(n ast.Node) bool {
			ds, ok := n.(*ast.DeferStmt)
			if !ok || ds.Call == nil {
				return true
			}
			lit, ok := unparen(ds.Call.Fun).(*ast.FuncLit)
			if !ok {
				return true
			}
			hasRecover := false
			ast.Inspect(lit.Body, func(m ast.Node) bool {
				if call, ok := m.(*ast.CallExpr); ok && c.isBuiltin(call, "recover") {
					hasRecover = true
				}
				return true
			})
			if !hasRecover || len(arms) > 0 {
				return false
			}
			ast.Inspect(lit.Body, func(m ast.Node) bool {
				ts, ok := m.(*ast.TypeSwitchStmt)
				if !ok || len(arms) > 0 {
					return true
				}
				for _, cc := range caseClauses(ts.Body) {
					if cc.List == nil {
						arms = append(arms, "default")
					}
					for _, e := range cc.List {
						arms = append(arms, nosp(c.src(e)))
					}
				}
				return false
			})
			return false
		})
	}

	l.p("/-- (*Expr).Select returns &NodeIterator{query: expr.q.Clone(), …} -/\ndef selectClones : Bool := %s\n", leanBool(selectClones))
	l.p("/-- in (*Expr).Evaluate the receiver of the first `.Evaluate(` call is (a variable assigned from) `expr.q.Clone()` -/\ndef evaluateClonesBeforeEval : Bool := %s\n", leanBool(clonesBefore))
	l.p("/-- the NodeIterator literal built in Evaluate has `query:` a `.Clone()` call or a variable holding a clone -/\ndef evaluateIterClones : Bool := %s\n", leanBool(iterClones))
	var q []string
	for _, ch := range checks {
		q = append(q, leanTuple(leanStr(ch.Func), leanBool(ch.Has)))
	}
	l.p("/-- has `if qy == nil { return nil, <error> }` -/\ndef compileNilCheck : List (String × Bool) := %s\n", leanList(q))
	l.p("/-- MustCompile returns &Expr{…, q: nopQuery{}} on error -/\ndef mustCompileRecoversToNop : Bool := %s\n", leanBool(mustNop))
	l.p("/-- type switch arms inside the deferred recover of func build -/\ndef recoverArms : List String := %s\n", leanStrList(arms))

	// what runs in Compile / CompileWithNS / MustCompile OUTSIDE func build (whose deferred recover turns panics into
	// errors) must not be able to panic: constructs that can (indexing, slicing, unchecked type assertions,
	// division, explicit panic, calls out of a small allowlist), in these functions and in the package functions they
	// call (other than build), three levels deep
	risky := c.unprotectedRisks([]string{"Compile", "CompileWithNS", "MustCompile"})
	l.p("\n/-- constructs that can panic in the compile entry points outside build's recover (function:construct) -/\ndef compileUnprotectedRisks : List String := %s\n", leanStrList(risky))
	c.facts["apiFacts"] = map[string]interface{}{"compileUnprotectedRisks": risky,
		"selectClones": selectClones, "evaluateClonesBeforeEval": clonesBefore, "evaluateIterClones": iterClones,
		"compileNilCheck": checks, "mustCompileRecoversToNop": mustNop, "recoverArms": arms,
	}
	return l
}

// unprotectedRisks: see the call site.  Conservative and syntactic.
func (c *ctx) unprotectedRisks(entries []string) []string {
	allowed := map[string]bool{"errors.New": true, "fmt.Errorf": true, "fmt.Sprintf": true, "build": true, "len": true, "string": true}
	seen := map[string]bool{}
	var out []string
	var visit func(name string, depth int)
	visit = func(name string, depth int) {
		if seen[name] {
			return
		}
		seen[name] = true
		fd := c.funcDecl("", name)
		if fd == nil || fd.Body == nil {
			out = append(out, name+":unknown-function")
			return
		}
		add := func(what string) { out = append(out, name+":"+what) }
		ast.Inspect(fd.Body, func(n ast.Node) bool {
			switch x := n.(type) {
			case *ast.FuncLit:
				add("function-literal")
				return false
			case *ast.IndexExpr:
				add("index")
			case *ast.SliceExpr:
				add("slice")
			case *ast.StarExpr:
				add("dereference")
			case *ast.TypeAssertExpr:
				add("type-assertion")
			case *ast.GoStmt, *ast.DeferStmt:
				add("go/defer")
			case *ast.BinaryExpr:
				if x.Op == token.QUO || x.Op == token.REM || x.Op == token.SHL || x.Op == token.SHR {
					add("division-or-shift")
				}
			case *ast.CallExpr:
				callee := squeeze(c.src(x.Fun))
				if callee == "panic" {
					add("panic")
				} else if allowed[callee] {
					// fine
				} else if id, ok := unparen(x.Fun).(*ast.Ident); ok && c.funcDecl("", id.Name) != nil {
					if depth >= 3 {
						add("call-too-deep:" + id.Name)
					} else {
						visit(id.Name, depth+1)
					}
				} else if _, isLit := unparen(x.Fun).(*ast.Ident); isLit && (callee == "Expr" || callee == "nopQuery") {
					// conversion
				} else {
					add("call:" + callee)
				}
			}
			return true
		})
	}
	for _, e := range entries {
		visit(e, 0)
	}
	sort.Strings(out)
	return out
}

// isZeroLiteral: false, 0, 0.0, "", nil (universe identifiers / basic literals only).
func isZeroLiteral(e ast.Expr) bool {
	switch x := unparen(e).(type) {
	case *ast.Ident:
		return x.Name == "false" || x.Name == "nil"
	case *ast.BasicLit:
		switch x.Kind {
		case token.INT, token.FLOAT:
			return strings.Trim(x.Value, "0.") == "" && x.Value != ""
		case token.STRING:
			return x.Value == `""` || x.Value == "``"
		}
	}
	return false
}
