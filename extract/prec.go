package main

import (
	"go/ast"
	"go/constant"
	"go/token"
)

type tier struct {
	Fn          string   `json:"fn"`
	Operand     string   `json:"operand"`
	Ops         []string `json:"ops"`
	LeftAssoc   bool     `json:"leftAssoc"`
	SameOperand bool     `json:"sameOperand"`
}

type tierTok struct {
	Fn     string      `json:"fn"`
	Tokens [][2]string `json:"tokens"`
}

// parserCall: e is `<recv>.<method>(<param>)`.
func (c *ctx) parserCall(e ast.Expr, recv, param *ast.Ident) (string, bool) {
	x, m, call, ok := methodCall(e)
	if !ok || !c.sameIdent(x, recv) || len(call.Args) != 1 || !c.sameIdent(call.Args[0], param) {
		return "", false
	}
	return m, true
}

// scannerOf: e is `<recv>.r`.
func (c *ctx) isScanner(e ast.Expr, recv *ast.Ident) bool {
	f, ok := c.recvField(e, recv)
	return ok && f == "r"
}

// isTyp: e is `<recv>.r.typ`.
func (c *ctx) isTyp(e ast.Expr, recv *ast.Ident) bool {
	x, f, ok := sel(e)
	return ok && f == "typ" && c.isScanner(x, recv)
}

// testOpCall: e is `testOp(<recv>.r, "name")`.
func (c *ctx) testOpCall(e ast.Expr, recv *ast.Ident) (string, bool) {
	fn, call, ok := funcCall(e)
	if !ok || fn != "testOp" || len(call.Args) != 2 || !c.isScanner(call.Args[0], recv) {
		return "", false
	}
	return strLit(call.Args[1])
}

func onlyBreak(b *ast.BlockStmt) bool {
	if b == nil || len(b.List) != 1 {
		return false
	}
	br, ok := b.List[0].(*ast.BranchStmt)
	return ok && br.Tok == token.BREAK
}

func onlyBreakStmts(ss []ast.Stmt) bool {
	return onlyBreak(&ast.BlockStmt{List: ss})
}

// opAssign: the statements are exactly `<v> = <rhs>`; returns v and rhs.
func opAssign(ss []ast.Stmt) (*ast.Ident, ast.Expr, bool) {
	if len(ss) != 1 {
		return nil, nil, false
	}
	a, ok := ss[0].(*ast.AssignStmt)
	if !ok || a.Tok != token.ASSIGN || len(a.Lhs) != 1 || len(a.Rhs) != 1 {
		return nil, nil, false
	}
	id, ok := a.Lhs[0].(*ast.Ident)
	return id, a.Rhs[0], ok
}

const (
	opFixed  = iota // newOperatorNode must receive the literal ops[0]
	opVar           // newOperatorNode must receive the variable assigned in the arms
	opAnyLit        // ops = [the literal passed to newOperatorNode]
)

type decision struct {
	ops    []string
	tokens [][2]string
	mode   int
	opVar  *ast.Ident
}

// stayCond reads the condition under which a single-operator tier loop goes on — `testOp(p.r, "or")`
// or `p.r.typ == itemUnion` — given either as the loop condition (`for <cond> {`, negated = false) or
// as the negated guard of the leading `if <!cond> { break }` (negated = true, i.e. `!testOp(p.r, "or")`
// or `p.r.typ != itemUnion`).
func (c *ctx) stayCond(e ast.Expr, recv *ast.Ident, negated bool) (d decision, ok bool) {
	switch x := unparen(e).(type) {
	case *ast.UnaryExpr:
		if x.Op == token.NOT {
			return c.stayCond(x.X, recv, !negated)
		}
	case *ast.CallExpr:
		if name, ok := c.testOpCall(x, recv); ok && !negated {
			return decision{ops: []string{name}, mode: opFixed}, true
		}
	case *ast.BinaryExpr:
		want := token.EQL
		if negated {
			want = token.NEQ
		}
		if x.Op == want && c.isTyp(x.X, recv) && identName(x.Y) != "" {
			return decision{tokens: [][2]string{{identName(x.Y), ""}}, mode: opAnyLit}, true
		}
	}
	return d, false
}

// decide reads statement (a) of a tier loop body.
func (c *ctx) decide(s ast.Stmt, recv *ast.Ident) (d decision, ok bool) {
	switch x := s.(type) {
	case *ast.IfStmt:
		if x.Init != nil {
			return d, false
		}
		// if !testOp(p.r, "or") { break }   /   if p.r.typ != itemUnion { break }
		if x.Else == nil && onlyBreak(x.Body) {
			return c.stayCond(x.Cond, recv, true)
		}
		// if p.r.typ == itemStar { op = "*" } else if testOp(..) || testOp(..) { op = p.r.name } else { break }
		d.mode = opVar
		cur := x
		for depth := 0; depth < 32; depth++ {
			if cur.Init != nil || cur.Body == nil {
				return d, false
			}
			v, rhs, ok := opAssign(cur.Body.List)
			if !ok {
				return d, false
			}
			if d.opVar == nil {
				d.opVar = v
			} else if !c.sameIdent(v, d.opVar) {
				return d, false
			}
			if b, isBin := unparen(cur.Cond).(*ast.BinaryExpr); isBin && b.Op == token.EQL && c.isTyp(b.X, recv) && identName(b.Y) != "" {
				lit, ok := strLit(rhs)
				if !ok {
					return d, false
				}
				d.ops = append(d.ops, lit)
				d.tokens = append(d.tokens, [2]string{identName(b.Y), lit})
			} else {
				// a disjunction of testOp calls, the operator being the scanned name
				x, f, ok := sel(rhs)
				if !ok || f != "name" || !c.isScanner(x, recv) {
					return d, false
				}
				for _, alt := range flatten(cur.Cond, token.LOR) {
					name, ok := c.testOpCall(alt, recv)
					if !ok {
						return d, false
					}
					d.ops = append(d.ops, name)
				}
			}
			switch e := cur.Else.(type) {
			case *ast.IfStmt:
				cur = e
				continue
			case *ast.BlockStmt:
				if !onlyBreak(e) {
					return d, false
				}
				return d, true
			default:
				return d, false
			}
		}
		return d, false
	case *ast.SwitchStmt:
		// switch p.r.typ { case itemEq: op = "=" … default: break Loop }
		if x.Init != nil || x.Tag == nil || !c.isTyp(x.Tag, recv) {
			return d, false
		}
		d.mode = opVar
		hasDefault := false
		for _, cc := range caseClauses(x.Body) {
			if cc.List == nil {
				if !onlyBreakStmts(cc.Body) {
					return d, false
				}
				hasDefault = true
				continue
			}
			v, rhs, ok := opAssign(cc.Body)
			if !ok {
				return d, false
			}
			lit, ok := strLit(rhs)
			if !ok {
				return d, false
			}
			if d.opVar == nil {
				d.opVar = v
			} else if !c.sameIdent(v, d.opVar) {
				return d, false
			}
			for _, lab := range cc.List {
				if identName(lab) == "" {
					return d, false
				}
				d.ops = append(d.ops, lit)
				d.tokens = append(d.tokens, [2]string{identName(lab), lit})
			}
		}
		return d, hasDefault
	}
	return d, false
}

// readTier reads `func (p *parser) parseXExpr(n node) node` (see SPEC.md).
// hasFirst tells whether the first statement `opnd := p.<callee>(n)` was recognised.
func (c *ctx) readTier(fd *ast.FuncDecl) (t tier, tokens [][2]string, hasFirst bool) {
	t = tier{Fn: "?", Operand: "?", Ops: []string{}}
	if fd == nil || fd.Body == nil {
		return
	}
	t.Fn = fd.Name.Name
	recv := recvIdent(fd)
	ps := params(fd.Type)
	if recv == nil || len(ps) != 1 || ps[0] == nil || len(fd.Body.List) < 1 {
		return
	}
	first, ok := fd.Body.List[0].(*ast.AssignStmt)
	if !ok || first.Tok != token.DEFINE || len(first.Lhs) != 1 || len(first.Rhs) != 1 {
		return
	}
	acc, ok := first.Lhs[0].(*ast.Ident)
	if !ok {
		return
	}
	callee, ok := c.parserCall(first.Rhs[0], recv, ps[0])
	if !ok {
		return
	}
	t.Operand = callee
	hasFirst = true

	// exactly: first; [Label:] for { … } or for <stay condition> { … }; return acc
	if len(fd.Body.List) != 3 {
		return
	}
	loopStmt := fd.Body.List[1]
	if ls, ok := loopStmt.(*ast.LabeledStmt); ok {
		loopStmt = ls.Stmt
	}
	loop, ok := loopStmt.(*ast.ForStmt)
	if !ok || loop.Init != nil || loop.Post != nil || loop.Body == nil {
		return
	}
	ret, ok := fd.Body.List[2].(*ast.ReturnStmt)
	if !ok || len(ret.Results) != 1 || !c.sameIdent(ret.Results[0], acc) {
		return
	}

	// loop body: [var op string]; [decision;] p.next(); [tmp := p.callee2(n)]; acc = newOperatorNode(..)
	var body []ast.Stmt
	for _, s := range loop.Body.List {
		if ds, ok := s.(*ast.DeclStmt); ok {
			if gd, ok := ds.Decl.(*ast.GenDecl); ok && gd.Tok == token.VAR {
				plain := true
				for _, sp := range gd.Specs {
					if vs, ok := sp.(*ast.ValueSpec); !ok || len(vs.Values) != 0 {
						plain = false
					}
				}
				if plain {
					continue
				}
			}
		}
		body = append(body, s)
	}
	// `for cond { rest }` is read as `for { if !cond { break }; rest }`
	var d decision
	if loop.Cond != nil {
		d, ok = c.stayCond(loop.Cond, recv, false)
	} else if len(body) > 0 {
		d, ok = c.decide(body[0], recv)
		body = body[1:]
	} else {
		ok = false
	}
	if !ok || (len(body) != 2 && len(body) != 3) {
		return
	}
	if es, ok := body[0].(*ast.ExprStmt); !ok {
		return
	} else if x, m, call, ok := methodCall(es.X); !ok || m != "next" || !c.sameIdent(x, recv) || len(call.Args) != 0 {
		return
	}
	var tmp *ast.Ident
	tmpCallee := ""
	if len(body) == 3 {
		a, ok := body[1].(*ast.AssignStmt)
		if !ok || a.Tok != token.DEFINE || len(a.Lhs) != 1 || len(a.Rhs) != 1 {
			return
		}
		tmp, ok = a.Lhs[0].(*ast.Ident)
		if !ok {
			return
		}
		tmpCallee, ok = c.parserCall(a.Rhs[0], recv, ps[0])
		if !ok {
			return
		}
	}
	comb, ok := body[len(body)-1].(*ast.AssignStmt)
	if !ok || comb.Tok != token.ASSIGN || len(comb.Lhs) != 1 || len(comb.Rhs) != 1 || !c.sameIdent(comb.Lhs[0], acc) {
		return
	}
	fn, call, ok := funcCall(comb.Rhs[0])
	if !ok || fn != "newOperatorNode" || len(call.Args) != 3 {
		return
	}
	// operator argument
	switch d.mode {
	case opFixed:
		if lit, ok := strLit(call.Args[0]); !ok || len(d.ops) != 1 || lit != d.ops[0] {
			return
		}
	case opVar:
		if d.opVar == nil || !c.sameIdent(call.Args[0], d.opVar) {
			return
		}
	case opAnyLit:
		lit, ok := strLit(call.Args[0])
		if !ok {
			return
		}
		d.ops = []string{lit}
		for i := range d.tokens {
			d.tokens[i][1] = lit
		}
	}
	// operands
	fresh := func(e ast.Expr) (string, bool) {
		if tmp != nil {
			if c.sameIdent(e, tmp) {
				return tmpCallee, true
			}
			return "", false
		}
		return c.parserCall(e, recv, ps[0])
	}
	callee2 := ""
	left := false
	if c2, ok := fresh(call.Args[2]); ok && c.sameIdent(call.Args[1], acc) {
		callee2, left = c2, true
	} else if c2, ok := fresh(call.Args[1]); ok && c.sameIdent(call.Args[2], acc) {
		callee2, left = c2, false
	} else {
		return
	}
	t.Ops = d.ops
	t.LeftAssoc = left
	t.SameOperand = callee2 == callee
	return t, d.tokens, true
}

func (c *ctx) precChain() *leanFile {
	l := newLean("PrecChain", "parse.go (parseExpression, parseOrExpr … parseUnionExpr)", true)

	// callee of parseExpression / parseUnaryExpr: the single parser method (other than next) called on the receiver
	singleCallee := func(fd *ast.FuncDecl) string {
		if fd == nil || fd.Body == nil || recvIdent(fd) == nil {
			return "?"
		}
		recv := recvIdent(fd)
		var names []string
		ast.Inspect(fd.Body, func(n ast.Node) bool {
			if x, m, _, ok := methodCall2(n); ok && c.sameIdent(x, recv) && m != "next" && c.funcDecl("parser", m) != nil {
				names = append(names, m)
			}
			return true
		})
		names = orderedSet(names)
		if len(names) != 1 {
			return "?"
		}
		return names[0]
	}
	entry := singleCallee(c.funcDecl("parser", "parseExpression"))
	unaryFd := c.funcDecl("parser", "parseUnaryExpr")
	unaryOperand := singleCallee(unaryFd)
	unaryOK, unaryEven := c.unaryShape(unaryFd)

	chain := []tier{}
	toks := []tierTok{}
	seen := map[string]bool{}
	for cur := entry; cur != "?" && cur != "" && !seen[cur] && len(chain) < 64; {
		seen[cur] = true
		if cur == "parseUnaryExpr" {
			cur = unaryOperand
			continue
		}
		fd := c.funcDecl("parser", cur)
		if fd == nil {
			break
		}
		t, tk, hasFirst := c.readTier(fd)
		if !hasFirst {
			break // not of the form `opnd := p.<callee>(n); …`: the end of the tier chain (parsePathExpr)
		}
		chain = append(chain, t)
		if len(tk) > 0 {
			toks = append(toks, tierTok{t.Fn, tk})
		}
		cur = t.Operand
	}

	var q []string
	for _, t := range chain {
		q = append(q, leanRec(leanStr(t.Fn), leanStr(t.Operand), leanStrList(t.Ops), leanBool(t.LeftAssoc), leanBool(t.SameOperand)))
	}
	l.p("/-- the tier functions met when following the operand callees from parseExpression (parseUnaryExpr is\n    stepped over); an unrecognised loop shape gives `ops := []`, `leftAssoc := false` -/\ndef precChain : List Tier := %s\n\n", leanLines(q))
	l.p("/-- callee of parseExpression -/\ndef exprEntry : String := %s\n", leanStr(entry))
	l.p("/-- callee of parseUnaryExpr -/\ndef unaryOperand : String := %s\n", leanStr(unaryOperand))
	l.p("/-- parseUnaryExpr wraps as newOperatorNode(\"*\", opnd, newOperandNode(float64(-1))) iff an odd number of '-' was skipped -/\ndef unaryIsTimesMinusOne : Bool := %s\n", leanBool(unaryOK))
	l.p("/-- … and as (opnd * -1) * -1 when a non-zero even number was skipped (the operand is still converted to a number) -/\ndef unaryEvenIsDoubleNegation : Bool := %s\n\n", leanBool(unaryEven))
	q = nil
	for _, t := range toks {
		q = append(q, leanTuple(leanStr(t.Fn), leanPairs(t.Tokens)))
	}
	l.p("/-- token constant ↦ operator string for the token-driven tiers -/\ndef tierTokens : List (String × List (String × String)) := %s\n", leanLines(q))
	c.facts["precChain"] = map[string]interface{}{
		"precChain": chain, "exprEntry": entry, "unaryOperand": unaryOperand,
		"unaryIsTimesMinusOne": unaryOK, "unaryEvenIsDoubleNegation": unaryEven, "tierTokens": toks,
	}
	return l
}

// unaryShape checks
//
//	minus, signed := false, false
//	for p.r.typ == itemMinus { p.next(); minus = !minus; signed = true }
//	opnd := p.<callee>(n)
//	if minus {
//		opnd = newOperatorNode("*", opnd, newOperandNode(float64(-1)))
//	} else if signed {
//		opnd = newOperatorNode("*", newOperatorNode("*", opnd, newOperandNode(float64(-1))), newOperandNode(float64(-1)))
//	}
//	return opnd
//
// and returns (odd count wraps once as x * -1, even non-zero count wraps twice).
func (c *ctx) unaryShape(fd *ast.FuncDecl) (bool, bool) {
	if fd == nil || fd.Body == nil || len(fd.Body.List) != 5 {
		return false, false
	}
	recv := recvIdent(fd)
	ps := params(fd.Type)
	if recv == nil || len(ps) != 1 || ps[0] == nil {
		return false, false
	}
	ss := fd.Body.List
	// minus, signed := false, false      |   signs := 0
	a, ok := ss[0].(*ast.AssignStmt)
	if !ok || a.Tok != token.DEFINE {
		return false, false
	}
	var minus, signed, count *ast.Ident
	switch {
	case len(a.Lhs) == 2 && len(a.Rhs) == 2 && isIdentNamed(a.Rhs[0], "false") && isIdentNamed(a.Rhs[1], "false"):
		minus, _ = a.Lhs[0].(*ast.Ident)
		signed, _ = a.Lhs[1].(*ast.Ident)
		if minus == nil || signed == nil {
			return false, false
		}
	case len(a.Lhs) == 1 && len(a.Rhs) == 1:
		if z, ok := c.constInt(a.Rhs[0]); !ok || z != 0 {
			return false, false
		}
		count, _ = a.Lhs[0].(*ast.Ident)
		if count == nil {
			return false, false
		}
	default:
		return false, false
	}
	// for p.r.typ == itemMinus { p.next(); minus = !minus; signed = true }   |   { p.next(); signs++ }
	loop, ok := ss[1].(*ast.ForStmt)
	if !ok || loop.Init != nil || loop.Post != nil || loop.Body == nil {
		return false, false
	}
	cond, ok := unparen(loop.Cond).(*ast.BinaryExpr)
	if !ok || cond.Op != token.EQL || !c.isTyp(cond.X, recv) || !isIdentNamed(cond.Y, "itemMinus") {
		return false, false
	}
	sawNext, sawFlip, sawSigned, sawInc, other := false, false, false, false, false
	for _, s := range loop.Body.List {
		switch x := s.(type) {
		case *ast.ExprStmt:
			if r, m, call, ok := methodCall(x.X); ok && m == "next" && c.sameIdent(r, recv) && len(call.Args) == 0 && !sawNext {
				sawNext = true
			} else {
				other = true
			}
		case *ast.IncDecStmt:
			if count != nil && x.Tok == token.INC && c.sameIdent(x.X, count) && !sawInc {
				sawInc = true
			} else {
				other = true
			}
		case *ast.AssignStmt:
			switch {
			case minus != nil && x.Tok == token.ASSIGN && len(x.Lhs) == 1 && len(x.Rhs) == 1 && c.sameIdent(x.Lhs[0], minus):
				if u, ok := unparen(x.Rhs[0]).(*ast.UnaryExpr); ok && u.Op == token.NOT && c.sameIdent(u.X, minus) && !sawFlip {
					sawFlip = true
				} else {
					other = true
				}
			case signed != nil && x.Tok == token.ASSIGN && len(x.Lhs) == 1 && len(x.Rhs) == 1 && c.sameIdent(x.Lhs[0], signed) && isIdentNamed(x.Rhs[0], "true"):
				sawSigned = true
			default:
				other = true
			}
		default:
			other = true
		}
	}
	if other || !sawNext || (count == nil && (!sawFlip || !sawSigned)) || (count != nil && !sawInc) {
		return false, false
	}
	// "an odd number of signs was skipped" / "at least one sign was skipped", in either representation
	isConst := func(e ast.Expr, k int64) bool { v, ok := c.constInt(e); return ok && v == k }
	oddCond := func(e ast.Expr) bool {
		if count == nil {
			return c.sameIdent(e, minus)
		}
		b, ok := unparen(e).(*ast.BinaryExpr)
		if !ok {
			return false
		}
		m, ok := unparen(b.X).(*ast.BinaryExpr)
		if !ok || !c.sameIdent(m.X, count) {
			return false
		}
		parity := (m.Op == token.REM && isConst(m.Y, 2)) || (m.Op == token.AND && isConst(m.Y, 1))
		return parity && ((b.Op == token.EQL && isConst(b.Y, 1)) || (b.Op == token.NEQ && isConst(b.Y, 0)))
	}
	anyCond := func(e ast.Expr) bool {
		if count == nil {
			return c.sameIdent(e, signed)
		}
		b, ok := unparen(e).(*ast.BinaryExpr)
		if !ok || !c.sameIdent(b.X, count) {
			return false
		}
		return (b.Op == token.GTR && isConst(b.Y, 0)) || (b.Op == token.NEQ && isConst(b.Y, 0)) || (b.Op == token.GEQ && isConst(b.Y, 1))
	}
	// opnd := p.<callee>(n)
	o, ok := ss[2].(*ast.AssignStmt)
	if !ok || o.Tok != token.DEFINE || len(o.Lhs) != 1 || len(o.Rhs) != 1 {
		return false, false
	}
	opnd, ok := o.Lhs[0].(*ast.Ident)
	if !ok {
		return false, false
	}
	if _, ok := c.parserCall(o.Rhs[0], recv, ps[0]); !ok {
		return false, false
	}
	// timesMinusOne(e, inner): e is newOperatorNode("*", inner, newOperandNode(float64(-1)))
	var timesMinusOne func(e ast.Expr) (ast.Expr, bool)
	timesMinusOne = func(e ast.Expr) (ast.Expr, bool) {
		fn, call, ok := funcCall(e)
		if ok && fn != "newOperatorNode" && len(call.Args) == 1 {
			// a helper `func negated(x node) node { return newOperatorNode("*", x, newOperandNode(float64(-1))) }`
			if hd := c.funcDecl("", fn); hd != nil && hd.Body != nil && len(hd.Body.List) == 1 {
				hps := params(hd.Type)
				if ret, ok := hd.Body.List[0].(*ast.ReturnStmt); ok && len(ret.Results) == 1 && len(hps) == 1 && hps[0] != nil {
					if inner, ok := timesMinusOne(ret.Results[0]); ok && c.sameIdent(inner, hps[0]) {
						return call.Args[0], true
					}
				}
			}
			return nil, false
		}
		if !ok || fn != "newOperatorNode" || len(call.Args) != 3 {
			return nil, false
		}
		if lit, ok := strLit(call.Args[0]); !ok || lit != "*" {
			return nil, false
		}
		fn2, call2, ok := funcCall(call.Args[2])
		if !ok || fn2 != "newOperandNode" || len(call2.Args) != 1 {
			return nil, false
		}
		tv, ok := c.info.Types[call2.Args[0]]
		if !ok || tv.Value == nil || tv.Type == nil || tv.Type.String() != "float64" {
			return nil, false
		}
		if f, exact := constant.Float64Val(tv.Value); !exact || f != -1 {
			return nil, false
		}
		return call.Args[1], true
	}
	// if minus { opnd = x * -1 } else if signed { opnd = (x * -1) * -1 }
	ifs, ok := ss[3].(*ast.IfStmt)
	if !ok || ifs.Init != nil || !oddCond(ifs.Cond) || ifs.Body == nil {
		return false, false
	}
	v, rhs, ok := opAssign(ifs.Body.List)
	if !ok || !c.sameIdent(v, opnd) {
		return false, false
	}
	inner, ok := timesMinusOne(rhs)
	if !ok || !c.sameIdent(inner, opnd) {
		return false, false
	}
	// return opnd
	ret, ok := ss[4].(*ast.ReturnStmt)
	if !ok || len(ret.Results) != 1 || !c.sameIdent(ret.Results[0], opnd) {
		return false, false
	}
	odd := true
	even := false
	if els, ok := ifs.Else.(*ast.IfStmt); ok && els.Init == nil && els.Else == nil && anyCond(els.Cond) && els.Body != nil {
		if v2, rhs2, ok := opAssign(els.Body.List); ok && c.sameIdent(v2, opnd) {
			if in1, ok := timesMinusOne(rhs2); ok {
				if in2, ok := timesMinusOne(in1); ok && c.sameIdent(in2, opnd) {
					even = true
				}
			}
		}
	} else if ifs.Else != nil {
		return false, false
	}
	return odd, even
}
