package main

import (
	"fmt"
	"go/ast"
	"go/token"
)

// ---------------------------------------------------------------- CacheFacts.lean

// boolForm is a boolean formula in negation normal form: a conjunction / disjunction of
// sub-formulas (op "&&" / "||", kids in source order) or a comparison atom `x cmp y`.
type boolForm struct {
	op   string // "&&", "||" or "" for an atom
	kids []*boolForm
	cmp  token.Token // atom: one of > >= == != (never < <=, see normCmp)
	x, y ast.Expr    // atom operands
}

// negCmp is the comparison equivalent to the negation of the key.
var negCmp = map[token.Token]token.Token{token.GTR: token.LEQ, token.LEQ: token.GTR, token.LSS: token.GEQ,
	token.GEQ: token.LSS, token.EQL: token.NEQ, token.NEQ: token.EQL}

// normCmp removes `<` / `<=` by swapping the operands: `a <= b` ≡ `b >= a`, `a < b` ≡ `b > a`.
func normCmp(op token.Token, x, y ast.Expr) (token.Token, ast.Expr, ast.Expr) {
	switch op {
	case token.LSS:
		return token.GTR, y, x
	case token.LEQ:
		return token.GEQ, y, x
	}
	return op, x, y
}

// boolNNF reads e (built from ! && || parentheses and the six comparisons) as a formula and returns the
// normal form of e — of !e when neg — with negations pushed into the atoms (De Morgan, negCmp) and the
// atoms oriented by normCmp.  The order of conjuncts/disjuncts is the source order.  nil = not understood.
func boolNNF(e ast.Expr, neg bool) *boolForm {
	switch x := unparen(e).(type) {
	case *ast.UnaryExpr:
		if x.Op == token.NOT {
			return boolNNF(x.X, !neg)
		}
	case *ast.BinaryExpr:
		switch x.Op {
		case token.LAND, token.LOR:
			a, b := boolNNF(x.X, neg), boolNNF(x.Y, neg)
			if a == nil || b == nil {
				return nil
			}
			op := x.Op
			if neg { // De Morgan
				op = map[token.Token]token.Token{token.LAND: token.LOR, token.LOR: token.LAND}[op]
			}
			return &boolForm{op: op.String(), kids: []*boolForm{a, b}}
		case token.GTR, token.GEQ, token.LSS, token.LEQ, token.EQL, token.NEQ:
			op := x.Op
			if neg {
				op = negCmp[op]
			}
			f := &boolForm{}
			f.cmp, f.x, f.y = normCmp(op, x.X, x.Y)
			return f
		}
	}
	return nil
}

// evictExpr renders the (normalised) eviction condition as a Lean Bool expression over `cap` and `len`.
func (c *ctx) evictExpr(f *boolForm, recv *ast.Ident) (string, bool) {
	if f == nil {
		return "", false
	}
	if f.op != "" {
		x, ok1 := c.evictExpr(f.kids[0], recv)
		y, ok2 := c.evictExpr(f.kids[1], recv)
		if !ok1 || !ok2 {
			return "", false
		}
		return "(" + x + " " + f.op + " " + y + ")", true
	}
	x, ok1 := c.evictTerm(f.x, recv)
	y, ok2 := c.evictTerm(f.y, recv)
	if !ok1 || !ok2 {
		return "", false
	}
	op := map[token.Token]string{token.GTR: ">", token.GEQ: "≥", token.EQL: "=", token.NEQ: "≠"}[f.cmp]
	return "(decide (" + x + " " + op + " " + y + "))", true
}

// boolFormSrc renders the normalised condition as Go source (operands as written in the source).
func (c *ctx) boolFormSrc(f *boolForm) string {
	if f.op == "" {
		return onesp(c.src(f.x)) + " " + f.cmp.String() + " " + onesp(c.src(f.y))
	}
	parts := []string{}
	for _, k := range f.kids {
		s := c.boolFormSrc(k)
		if k.op == "||" && f.op == "&&" {
			s = "(" + s + ")"
		}
		parts = append(parts, s)
	}
	return parts[0] + " " + f.op + " " + parts[1]
}

func (c *ctx) evictTerm(e ast.Expr, recv *ast.Ident) (string, bool) {
	e = unparen(e)
	if f, ok := c.recvField(e, recv); ok && f == "cap" {
		return "cap", true
	}
	if fn, call, ok := funcCall(e); ok && fn == "len" && c.isBuiltin(call, "len") && len(call.Args) == 1 {
		if f, ok := c.recvField(call.Args[0], recv); ok && f == "m" {
			return "len", true
		}
		return "", false
	}
	if lit, ok := e.(*ast.BasicLit); ok && lit.Kind == token.INT {
		if v, ok := c.constInt(lit); ok && v >= 0 {
			return fmt.Sprint(v), true
		}
	}
	return "", false
}

// isRecvCall: s is `<recv>.<m>()`.
func (c *ctx) recvCallStmt(s ast.Stmt, recv *ast.Ident) (string, bool) {
	es, ok := s.(*ast.ExprStmt)
	if !ok {
		return "", false
	}
	x, m, call, ok := methodCall(es.X)
	if !ok || !c.sameIdent(x, recv) || len(call.Args) != 0 {
		return "", false
	}
	return m, true
}

func (c *ctx) cacheFacts() *leanFile {
	l := newLean("CacheFacts", "cache.go (loadingCache.get, NewLoadingCache, defaultRegexpCache)", false)

	skeleton := []string{}
	evictThen := []string{}
	evictElse := []string{}
	condLean, condKnown, condSrc := "false", false, ""

	fd := c.funcDecl("loadingCache", "get")
	recv := recvIdent(fd)
	if fd != nil && fd.Body != nil && recv != nil {
		ps := params(fd.Type)
		var key *ast.Ident
		if len(ps) == 1 {
			key = ps[0]
		}
		var val, found, errV *ast.Ident // v, found, err as introduced by lookup / load

		unknown := func(s ast.Node) string { return "?:" + onesp(c.src(s)) }
		// the statements of a branch of the eviction `if`
		branch := func(b *ast.BlockStmt) []string {
			out := []string{}
			if b == nil {
				return out
			}
			for _, s := range b.List {
				tok := unknown(s)
				switch x := s.(type) {
				case *ast.AssignStmt:
					if x.Tok == token.ASSIGN && len(x.Lhs) == 1 && len(x.Rhs) == 1 {
						if f, ok := c.recvField(x.Lhs[0], recv); ok && f == "m" {
							if lit, ok := unparen(x.Rhs[0]).(*ast.CompositeLit); ok {
								if _, isMap := lit.Type.(*ast.MapType); isMap {
									switch len(lit.Elts) {
									case 0:
										tok = "m=fresh{}"
									case 1:
										if kv, ok := lit.Elts[0].(*ast.KeyValueExpr); ok && c.sameIdent(kv.Key, key) && c.sameIdent(kv.Value, val) {
											tok = "m=fresh{key:v}"
										}
									}
								}
							}
						} else if ix, ok := unparen(x.Lhs[0]).(*ast.IndexExpr); ok {
							if f, ok := c.recvField(ix.X, recv); ok && f == "m" && c.sameIdent(ix.Index, key) && c.sameIdent(x.Rhs[0], val) {
								tok = "m[key]=v"
							}
						}
					}
				case *ast.IncDecStmt:
					if f, ok := c.recvField(x.X, recv); ok && f == "reset" && x.Tok == token.INC {
						tok = "reset++"
					}
				}
				out = append(out, tok)
			}
			return out
		}
		writesM := func(n ast.Node) bool {
			for _, f := range c.recvFieldWrites(n, recv) {
				if f == "m" {
					return true
				}
			}
			return false
		}

		// resets: the block assigns a map literal to c.m at its top level (the reset branch).
		resets := func(b *ast.BlockStmt) bool {
			for _, s := range b.List {
				if as, ok := s.(*ast.AssignStmt); ok && as.Tok == token.ASSIGN && len(as.Lhs) == 1 && len(as.Rhs) == 1 {
					if f, ok := c.recvField(as.Lhs[0], recv); ok && f == "m" {
						if lit, ok := unparen(as.Rhs[0]).(*ast.CompositeLit); ok {
							if _, isMap := lit.Type.(*ast.MapType); isMap {
								return true
							}
						}
					}
				}
			}
			return false
		}

		depth := 0
		var walk func(stmts []ast.Stmt)
		walk = func(stmts []ast.Stmt) {
			for _, s := range stmts {
				// a statement `c.helper(args…)` calling another method of the cache with plain identifiers: its body is
				// read in place, with the helper's receiver and parameters standing for the caller's (one level of nesting)
				if es, ok := s.(*ast.ExprStmt); ok && depth < 2 {
					if r, m, call, ok := methodCall(es.X); ok && c.sameIdent(r, recv) {
						if hd := c.funcDecl("loadingCache", m); hd != nil && hd.Body != nil && recvIdent(hd) != nil {
							hps := params(hd.Type)
							plain := len(hps) == len(call.Args) && len(hps) > 0
							var nk, nv *ast.Ident
							for i, a := range call.Args {
								if !plain || hps[i] == nil {
									plain = false
									break
								}
								switch {
								case key != nil && c.sameIdent(a, key):
									nk = hps[i]
								case val != nil && c.sameIdent(a, val):
									nv = hps[i]
								default:
									plain = false
								}
							}
							if plain {
								sr, sk, sv := recv, key, val
								recv, key, val = recvIdent(hd), nk, nv
								depth++
								walk(hd.Body.List)
								depth--
								recv, key, val = sr, sk, sv
								continue
							}
						}
					}
				}
				tok := unknown(s)
				switch x := s.(type) {
				case *ast.ExprStmt:
					if m, ok := c.recvCallStmt(s, recv); ok && (m == "RLock" || m == "RUnlock" || m == "Lock" || m == "Unlock") {
						tok = m
					}
				case *ast.AssignStmt:
					if len(x.Lhs) == 2 && len(x.Rhs) == 1 {
						a, okA := x.Lhs[0].(*ast.Ident)
						b, okB := x.Lhs[1].(*ast.Ident)
						if okA && okB {
							if ix, ok := unparen(x.Rhs[0]).(*ast.IndexExpr); ok {
								if f, ok := c.recvField(ix.X, recv); ok && f == "m" && c.sameIdent(ix.Index, key) {
									tok, val, found = "lookup", a, b
								}
							} else if r, m, call, ok := methodCall(x.Rhs[0]); ok && m == "load" && c.sameIdent(r, recv) &&
								len(call.Args) == 1 && c.sameIdent(call.Args[0], key) && (val == nil || c.sameIdent(a, val)) {
								tok, val, errV = "load", a, b
							}
						}
					}
				case *ast.IfStmt:
					if x.Init != nil {
						break
					}
					var ret *ast.ReturnStmt
					if x.Else == nil && x.Body != nil && len(x.Body.List) == 1 {
						ret, _ = x.Body.List[0].(*ast.ReturnStmt)
					}
					switch {
					case ret != nil && found != nil && c.sameIdent(x.Cond, found) && len(ret.Results) == 2 &&
						c.sameIdent(ret.Results[0], val) && isNil(ret.Results[1]):
						tok = "if-found-return"
					case ret != nil && errV != nil && len(ret.Results) == 2 && isNil(ret.Results[0]) && c.sameIdent(ret.Results[1], errV):
						if b, ok := unparen(x.Cond).(*ast.BinaryExpr); ok && b.Op == token.NEQ && c.sameIdent(b.X, errV) && isNil(b.Y) {
							tok = "if-err-return-nil-err"
						}
					case writesM(x):
						tok = "if-evict"
						evictThen = branch(x.Body)
						switch e := x.Else.(type) {
						case *ast.BlockStmt:
							evictElse = branch(e)
						case nil:
						default:
							evictElse = []string{unknown(e)}
						}
						// The condition is stated for the reset branch (the one that replaces c.m by a fresh
						// map): `if !C { insert } else { reset }` is read as `if C { reset } else { insert }`.
						elseBlock, _ := x.Else.(*ast.BlockStmt)
						negate := elseBlock != nil && resets(elseBlock) && !resets(x.Body)
						condSrc = onesp(c.src(x.Cond))
						f := boolNNF(x.Cond, negate)
						if s, ok := c.evictExpr(f, recv); ok {
							condLean, condKnown, condSrc = s, true, c.boolFormSrc(f)
							if len(s) > 2 && s[0] == '(' && s[1] == '(' { // drop the outer parentheses of a conjunction
								condLean = s[1 : len(s)-1]
							}
							if negate {
								evictThen, evictElse = evictElse, evictThen
							}
						}
					}
				case *ast.ReturnStmt:
					if len(x.Results) == 2 && val != nil && c.sameIdent(x.Results[0], val) && isNil(x.Results[1]) {
						tok = "return-v-nil"
					}
				}
				skeleton = append(skeleton, tok)
			}
		}
		walk(fd.Body.List)
		// a `return v, nil` that followed the write block in the same function stands before the helper call's
		// statements are appended; the order of the tokens is normalised: the final return closes the skeleton
		for i, t := range skeleton {
			if t == "return-v-nil" && i != len(skeleton)-1 {
				skeleton = append(append(skeleton[:i:i], skeleton[i+1:]...), t)
				break
			}
		}
	}

	rejectsNeg := false
	if fd := c.funcDecl("", "NewLoadingCache"); fd != nil && fd.Body != nil {
		ps := params(fd.Type)
		for _, s := range fd.Body.List {
			if _, isRet := s.(*ast.ReturnStmt); isRet {
				break
			}
			ifs, ok := s.(*ast.IfStmt)
			if !ok || ifs.Init != nil || len(ps) != 2 {
				continue
			}
			b, ok := unparen(ifs.Cond).(*ast.BinaryExpr)
			if !ok || b.Op != token.LSS || !c.sameIdent(b.X, ps[1]) {
				continue
			}
			if z, ok := c.constInt(b.Y); ok && z == 0 && c.containsPanic(ifs.Body) {
				rejectsNeg = true
			}
		}
	}

	defCap := "?"
	if fd := c.funcDecl("", "defaultRegexpCache"); fd != nil && fd.Body != nil {
		ast.Inspect(fd.Body, func(n ast.Node) bool {
			if fn, call, ok := funcCall2(n); ok && fn == "NewLoadingCache" && len(call.Args) == 2 && defCap == "?" {
				defCap = nosp(c.src(call.Args[1]))
			}
			return true
		})
	}

	l.p("set_option linter.unusedVariables false in\n")
	l.p("/-- the `if` condition guarding the reset branch of (*loadingCache).get; `c.cap` ↦ cap, `len(c.m)` ↦ len -/\n")
	l.p("def evictCond (cap len : Nat) : Bool := %s\n", condLean)
	l.p("def evictCondKnown : Bool := %s\n", leanBool(condKnown))
	l.p("def evictCondSrc : String := %s\n\n", leanStr(condSrc))
	l.p("/-- statement skeleton of get, one token per top-level statement -/\ndef getSkeleton : List String := %s\n", leanStrList(skeleton))
	l.p("/-- statements of the reset branch -/\ndef evictThen : List String := %s\n", leanStrList(evictThen))
	l.p("def evictElse : List String := %s\n", leanStrList(evictElse))
	l.p("/-- NewLoadingCache: `if capacity < 0 { panic(..) }` before the return -/\ndef newCacheRejectsNegative : Bool := %s\n", leanBool(rejectsNeg))
	l.p("/-- second argument of NewLoadingCache in defaultRegexpCache -/\ndef defaultRegexpCacheCap : String := %s\n", leanStr(defCap))
	c.facts["cacheFacts"] = map[string]interface{}{
		"evictCond": condLean, "evictCondKnown": condKnown, "evictCondSrc": condSrc, "getSkeleton": skeleton,
		"evictThen": evictThen, "evictElse": evictElse, "newCacheRejectsNegative": rejectsNeg,
		"defaultRegexpCacheCap": defCap,
	}
	return l
}
