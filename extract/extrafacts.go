package main

import (
	"go/ast"
	"go/token"
	"go/types"
	"sort"
	"strings"
)

func squeeze(s string) string {
	return strings.Join(strings.Fields(s), "")
}

// inlineHelperCall: e is a call `f(a1, …, an)` of an unexported package-level function of this package
// that is not a straight-line writer (its body has a statement other than an expression statement;
// straight-line writers such as writeKeyPart keep their name in the recipe and have their body recorded
// separately).  The call can be read as the helper's body with the parameters replaced by the
// arguments when: f has no results and no `return`, is not variadic, never assigns a parameter, and
// every argument is a pure expression or `&v`.  Returns the body and the substitution (for srcSubst).
func (c *ctx) inlineHelperCall(e ast.Expr) ([]ast.Stmt, map[types.Object]string, bool) {
	name, call, ok := funcCall(e)
	if !ok || ast.IsExported(name) || call.Ellipsis.IsValid() {
		return nil, nil, false
	}
	fn, ok := c.info.Uses[unparen(call.Fun).(*ast.Ident)].(*types.Func)
	if !ok || fn.Pkg() != c.pkg || fn.Parent() != c.scope() {
		return nil, nil, false
	}
	fd := c.funcDecl("", name)
	if fd == nil || fd.Body == nil || fd.Type.Results != nil {
		return nil, nil, false
	}
	ps := params(fd.Type)
	if len(ps) != len(call.Args) || fn.Type().(*types.Signature).Variadic() {
		return nil, nil, false
	}
	sub := map[types.Object]string{}
	for i, p := range ps {
		a := call.Args[i]
		if u, isAddr := a.(*ast.UnaryExpr); isAddr && u.Op == token.AND {
			a = u.X
		}
		if p == nil || c.info.Defs[p] == nil || !c.pureExpr(a) {
			return nil, nil, false
		}
		sub[c.info.Defs[p]] = squeeze(c.src(call.Args[i]))
	}
	straight, bad := true, false
	for _, st := range fd.Body.List {
		if _, ok := st.(*ast.ExprStmt); !ok {
			straight = false
		}
	}
	ast.Inspect(fd.Body, func(n ast.Node) bool {
		if _, ok := n.(*ast.ReturnStmt); ok {
			bad = true
		}
		for _, t := range c.writeTargets(n) {
			if id := rootIdent(t); id != nil {
				if _, isParam := sub[c.obj(id)]; isParam {
					if _, plain := unparen(t).(*ast.Ident); plain {
						bad = true
					}
				}
			}
		}
		return !bad
	})
	if straight || bad {
		return nil, nil, false
	}
	return fd.Body.List, sub, true
}

// extraFacts: small source-text facts that parametrise the hand-written model (each is the
// whitespace-free source of one expression or statement list; "?" when the shape is not found).
func (c *ctx) extraFacts() *leanFile {
	l := newLean("ExtraFacts", "build.go (processFilter), query.go (getHashCode), func.go (asBool, substringFunc), parse.go (nextItem)", false)
	// flags passed to processNode for the filter's input and for its condition
	inFlags, condFlags := "?", "?"
	if fd := c.funcDecl("builder", "processFilter"); fd != nil {
		ast.Inspect(fd.Body, func(n ast.Node) bool {
			call, ok := n.(*ast.CallExpr)
			if !ok || len(call.Args) != 3 {
				return true
			}
			sel, ok := call.Fun.(*ast.SelectorExpr)
			if !ok || sel.Sel.Name != "processNode" {
				return true
			}
			switch squeeze(c.src(call.Args[0])) {
			case "root.Input":
				inFlags = squeeze(c.src(call.Args[1]))
			case "root.Condition":
				condFlags = squeeze(c.src(call.Args[1]))
			}
			return true
		})
	}
	l.p("/-- flags argument of the processNode call for the filter's input in processFilter -/\ndef filterInputFlagsSrc : String := %s\n", leanStr(inFlags))
	l.p("/-- flags argument of the processNode call for the filter's condition -/\ndef filterCondFlagsSrc : String := %s\n\n", leanStr(condFlags))

	// getHashCode: per switch case, the sequence of write calls before the index path
	var keyCases []string
	keyFn := c.funcDecl("", "getNodeKey")
	if keyFn == nil {
		keyFn = c.funcDecl("", "getHashCode")
	}
	// what is written before the switch (the node-type tag), and whether the key itself — a string — is the identity:
	// the function returns the buffer's string, and the tables of ancestor:: and union are keyed by strings
	var keyHead []string
	keyIsString := false
	if fd := keyFn; fd != nil && fd.Body != nil {
		for _, st := range fd.Body.List {
			if _, isSwitch := st.(*ast.SwitchStmt); isSwitch {
				break
			}
			if es, ok := st.(*ast.ExprStmt); ok {
				keyHead = append(keyHead, squeeze(c.src(es.X)))
			}
		}
		if fd.Type.Results != nil && len(fd.Type.Results.List) == 1 && squeeze(c.src(fd.Type.Results.List[0].Type)) == "string" {
			if r, ok := fd.Body.List[len(fd.Body.List)-1].(*ast.ReturnStmt); ok && len(r.Results) == 1 && strings.HasSuffix(squeeze(c.src(r.Results[0])), ".String()") {
				keyIsString = true
			}
		}
		// every map declared or made in query.go that is indexed by the result of this function has string keys
		for _, f := range c.files {
			ast.Inspect(f, func(n ast.Node) bool {
				if mt, ok := n.(*ast.MapType); ok {
					if k := squeeze(c.src(mt.Key)); k == "uint64" {
						pos := c.fset.Position(mt.Pos())
						if strings.HasSuffix(pos.Filename, "query.go") {
							keyIsString = false
						}
					}
				}
				return true
			})
		}
	}
	l.p("/-- getNodeKey: what is written before the switch on the node type -/\ndef nodeKeyHead : List String := %s\n\n", leanStrList(keyHead))
	l.p("/-- node identity is the key string itself (getNodeKey returns the buffer's string; no map keyed by uint64 in query.go) -/\ndef nodeKeyIsString : Bool := %s\n\n", leanBool(keyIsString))
	if fd := keyFn; fd != nil {
		ast.Inspect(fd.Body, func(n ast.Node) bool {
			cc, ok := n.(*ast.CaseClause)
			if !ok {
				return true
			}
			var labels []string
			for _, e := range cc.List {
				labels = append(labels, squeeze(c.src(e)))
			}
			var writes []string
		Body:
			for _, st := range cc.Body {
				es, ok := st.(*ast.ExprStmt)
				if !ok {
					break // the index path starts with `d := 1`
				}
				// a call of a helper that is not a straight-line writer stands for its body
				if body, sub, ok := c.inlineHelperCall(es.X); ok {
					for _, hs := range body {
						hes, ok := hs.(*ast.ExprStmt)
						if !ok {
							break Body // … which here contains the start of the index path
						}
						writes = append(writes, squeeze(c.srcSubst(hes.X, sub)))
					}
					continue
				}
				writes = append(writes, squeeze(c.src(es.X)))
			}
			keyCases = append(keyCases, strings.Join(labels, ",")+": "+strings.Join(writes, "; "))
			return true
		})
	}
	l.p("/-- getHashCode: `case labels: write calls preceding the index path` -/\ndef hashKeyCases : List String := %s\n\n", leanStrList(keyCases))
	partSrc := "?"
	if fd := c.funcDecl("", "writeKeyPart"); fd != nil {
		partSrc = squeeze(c.src(fd.Body))
	}
	l.p("/-- body of writeKeyPart -/\ndef writeKeyPartSrc : String := %s\n\n", leanStr(partSrc))

	// asBool: the float64 arm
	asBoolFloat := "?"
	if fd := c.funcDecl("", "asBool"); fd != nil {
		ast.Inspect(fd.Body, func(n ast.Node) bool {
			cc, ok := n.(*ast.CaseClause)
			if !ok || len(cc.List) != 1 || squeeze(c.src(cc.List[0])) != "float64" || len(cc.Body) != 1 {
				return true
			}
			asBoolFloat = squeeze(c.src(cc.Body[0]))
			return true
		})
	}
	l.p("/-- the float64 arm of asBool -/\ndef asBoolFloatSrc : String := %s\n\n", leanStr(asBoolFloat))

	// substringFunc: the statements computing the bounds; a local that only names a pure expression
	// (`end := float64(len(m) + 1)`) is replaced by that expression
	var sub []string
	if fd := c.funcDecl("", "substringFunc"); fd != nil {
		hoisted := c.hoistedLocals(fd)
		ast.Inspect(fd.Body, func(n ast.Node) bool {
			as, ok := n.(*ast.AssignStmt)
			if !ok || len(as.Lhs) != 1 {
				return true
			}
			if id, ok := as.Lhs[0].(*ast.Ident); ok && (id.Name == "first" || id.Name == "last") {
				sub = append(sub, squeeze(c.srcSubst(as, hoisted)))
			}
			return true
		})
	}
	l.p("/-- substringFunc: assignments to the bounds `first` and `last` -/\ndef substringBoundsSrc : List String := %s\n\n", leanStrList(sub))

	// stringToNumber: which characters it trims and accepts
	s2n := "?"
	if fd := c.funcDecl("", "stringToNumber"); fd != nil {
		s2n = squeeze(c.src(fd.Body))
	}
	l.p("/-- body of stringToNumber -/\ndef stringToNumberSrc : String := %s\n\n", leanStr(s2n))

	// number formatting arm of asString
	asStr := "?"
	if fd := c.funcDecl("", "asString"); fd != nil {
		ast.Inspect(fd.Body, func(n ast.Node) bool {
			cc, ok := n.(*ast.CaseClause)
			if !ok || len(cc.List) != 1 || squeeze(c.src(cc.List[0])) != "float64" {
				return true
			}
			var parts []string
			for _, st := range cc.Body {
				parts = append(parts, squeeze(c.src(st)))
			}
			asStr = strings.Join(parts, ";")
			return true
		})
	}
	l.p("/-- the float64 arm of asString -/\ndef asStringFloatSrc : String := %s\n\n", leanStr(asStr))

	// modFunc callback
	modSrc := "?"
	if body := c.funcNode("modFunc"); body != nil {
		ast.Inspect(body, func(n ast.Node) bool {
			if r, ok := n.(*ast.ReturnStmt); ok && len(r.Results) == 1 {
				if _, isCall := r.Results[0].(*ast.CallExpr); isCall {
					s := squeeze(c.src(r.Results[0]))
					if !strings.HasPrefix(s, "numericExpr") {
						modSrc = s
					}
				}
			}
			return true
		})
	}
	l.p("/-- the value modFunc's callback returns -/\ndef modCallbackSrc : String := %s\n", leanStr(modSrc))

	// replaceFunc: what the callback returns (a local that only names a pure expression is replaced by it)
	replSrc := "?"
	if fd := c.funcDecl("", "replaceFunc"); fd != nil {
		hoisted := c.hoistedLocals(fd)
		ast.Inspect(fd.Body, func(n ast.Node) bool {
			if r, ok := n.(*ast.ReturnStmt); ok && len(r.Results) == 1 {
				if call, isCall := r.Results[0].(*ast.CallExpr); isCall {
					if sel, ok := call.Fun.(*ast.SelectorExpr); ok && sel.Sel.Name == "ReplaceAllString" {
						replSrc = squeeze(c.srcSubst(r.Results[0], hoisted))
					}
				}
			}
			return true
		})
	}
	l.p("\n/-- the value replaceFunc's callback returns -/\ndef replaceResultSrc : String := %s\n", leanStr(replSrc))

	// functionArgs: the argument query of a function is cloned per call, except for the listed dynamic types
	// (type assertion or type switch whose arm returns the parameter itself)
	var exempt []string
	clonesOtherwise := false
	// the function is found by what it is, not by its name: the one top-level function `func(x query) query` whose
	// last statement is `return x.Clone()`
	var argFn *ast.FuncDecl
	nArgFn := 0
	for _, f := range c.files {
		for _, dcl := range f.Decls {
			fd, ok := dcl.(*ast.FuncDecl)
			if !ok || fd.Recv != nil || fd.Body == nil || len(fd.Body.List) == 0 || fd.Type.Params == nil || len(fd.Type.Params.List) != 1 ||
				len(fd.Type.Params.List[0].Names) != 1 || fd.Type.Results == nil || len(fd.Type.Results.List) != 1 {
				continue
			}
			if squeeze(c.src(fd.Type.Params.List[0].Type)) != "query" || squeeze(c.src(fd.Type.Results.List[0].Type)) != "query" {
				continue
			}
			last, ok := fd.Body.List[len(fd.Body.List)-1].(*ast.ReturnStmt)
			if ok && len(last.Results) == 1 && squeeze(c.src(last.Results[0])) == fd.Type.Params.List[0].Names[0].Name+".Clone()" {
				argFn = fd
				nArgFn++
			}
		}
	}
	if fd := argFn; fd != nil && nArgFn == 1 {
		param := fd.Type.Params.List[0].Names[0].Name
		returnsParam := func(body []ast.Stmt) bool {
			for _, st := range body {
				if r, ok := st.(*ast.ReturnStmt); ok && len(r.Results) == 1 {
					if id, ok := r.Results[0].(*ast.Ident); ok && id.Name == param {
						return true
					}
				}
			}
			return false
		}
		typeName := func(e ast.Expr) string { return strings.TrimPrefix(squeeze(c.src(e)), "*") }
		ast.Inspect(fd.Body, func(n ast.Node) bool {
			switch x := n.(type) {
			case *ast.IfStmt:
				// if _, ok := q.(*T); ok { return q }
				if as, ok := x.Init.(*ast.AssignStmt); ok && len(as.Rhs) == 1 {
					if ta, ok := as.Rhs[0].(*ast.TypeAssertExpr); ok && ta.Type != nil && returnsParam(x.Body.List) {
						exempt = append(exempt, typeName(ta.Type))
					}
				}
			case *ast.TypeSwitchStmt:
				for _, cl := range x.Body.List {
					if cc, ok := cl.(*ast.CaseClause); ok && returnsParam(cc.Body) {
						for _, t := range cc.List {
							exempt = append(exempt, typeName(t))
						}
					}
				}
			}
			return true
		})
		if n := len(fd.Body.List); n > 0 {
			if r, ok := fd.Body.List[n-1].(*ast.ReturnStmt); ok && len(r.Results) == 1 && squeeze(c.src(r.Results[0])) == param+".Clone()" {
				clonesOtherwise = true
			}
		}
	}
	sort.Strings(exempt)
	l.p("\n/-- functionArgs: dynamic types of an argument query that are used without cloning -/\ndef functionArgsExempt : List String := %s\n", leanStrList(exempt))
	l.p("\n/-- functionArgs: every other argument query is cloned for the call -/\ndef functionArgsClonesOtherwise : Bool := %s\n", leanBool(clonesOtherwise))

	c.facts["extraFacts"] = map[string]interface{}{"nodeKeyHead": keyHead, "nodeKeyIsString": keyIsString, "replaceResultSrc": replSrc, "functionArgsExempt": exempt, "functionArgsClonesOtherwise": clonesOtherwise, "filterInputFlagsSrc": inFlags, "filterCondFlagsSrc": condFlags, "hashKeyCases": keyCases,
		"writeKeyPartSrc": partSrc, "asBoolFloatSrc": asBoolFloat, "substringBoundsSrc": sub, "stringToNumberSrc": s2n, "asStringFloatSrc": asStr, "modCallbackSrc": modSrc}
	return l
}
