package main

import (
	"go/ast"
	"strings"
)

func squeeze(s string) string {
	return strings.Join(strings.Fields(s), "")
}

// extraFacts: small source-text facts that parametrise the hand-written model (each is the
// whitespace-free source of one expression or statement list; "?" when the shape is not found).
func (c *ctx) extraFacts() *leanFile {
	l := newLean("ExtraFacts", "build.go (processFilter), query.go (getHashCode), func.go (asBool, substringFunc), parse.go (nextItem)", false)
	// flags passed to processNode for the filter's input and for its condition
	inFlags, condFlags := "?", "?"
	if fd := c.funcDecl("builder", "processFilter"); fd != nil {
		ast.Inspect(fd.Body, func(n ast.Node) bool {
			call, ok := n.(*ast.CallExpr)
			if !ok || len(call.Args) != 3 {
				return true
			}
			sel, ok := call.Fun.(*ast.SelectorExpr)
			if !ok || sel.Sel.Name != "processNode" {
				return true
			}
			switch squeeze(c.src(call.Args[0])) {
			case "root.Input":
				inFlags = squeeze(c.src(call.Args[1]))
			case "root.Condition":
				condFlags = squeeze(c.src(call.Args[1]))
			}
			return true
		})
	}
	l.p("/-- flags argument of the processNode call for the filter's input in processFilter -/\ndef filterInputFlagsSrc : String := %s\n", leanStr(inFlags))
	l.p("/-- flags argument of the processNode call for the filter's condition -/\ndef filterCondFlagsSrc : String := %s\n\n", leanStr(condFlags))

	// getHashCode: per switch case, the sequence of write calls before the index path
	var keyCases []string
	if fd := c.funcDecl("", "getHashCode"); fd != nil {
		ast.Inspect(fd.Body, func(n ast.Node) bool {
			cc, ok := n.(*ast.CaseClause)
			if !ok {
				return true
			}
			var labels []string
			for _, e := range cc.List {
				labels = append(labels, squeeze(c.src(e)))
			}
			var writes []string
			for _, st := range cc.Body {
				es, ok := st.(*ast.ExprStmt)
				if !ok {
					break // the index path starts with `d := 1`
				}
				writes = append(writes, squeeze(c.src(es.X)))
			}
			keyCases = append(keyCases, strings.Join(labels, ",")+": "+strings.Join(writes, "; "))
			return true
		})
	}
	l.p("/-- getHashCode: `case labels: write calls preceding the index path` -/\ndef hashKeyCases : List String := %s\n\n", leanStrList(keyCases))
	partSrc := "?"
	if fd := c.funcDecl("", "writeKeyPart"); fd != nil {
		partSrc = squeeze(c.src(fd.Body))
	}
	l.p("/-- body of writeKeyPart -/\ndef writeKeyPartSrc : String := %s\n\n", leanStr(partSrc))

	// asBool: the float64 arm
	asBoolFloat := "?"
	if fd := c.funcDecl("", "asBool"); fd != nil {
		ast.Inspect(fd.Body, func(n ast.Node) bool {
			cc, ok := n.(*ast.CaseClause)
			if !ok || len(cc.List) != 1 || squeeze(c.src(cc.List[0])) != "float64" || len(cc.Body) != 1 {
				return true
			}
			asBoolFloat = squeeze(c.src(cc.Body[0]))
			return true
		})
	}
	l.p("/-- the float64 arm of asBool -/\ndef asBoolFloatSrc : String := %s\n\n", leanStr(asBoolFloat))

	// substringFunc: the statements computing the bounds
	var sub []string
	if fd := c.funcDecl("", "substringFunc"); fd != nil {
		ast.Inspect(fd.Body, func(n ast.Node) bool {
			as, ok := n.(*ast.AssignStmt)
			if !ok || len(as.Lhs) != 1 {
				return true
			}
			if id, ok := as.Lhs[0].(*ast.Ident); ok && (id.Name == "first" || id.Name == "last") {
				sub = append(sub, squeeze(c.src(as)))
			}
			return true
		})
	}
	l.p("/-- substringFunc: assignments to the bounds `first` and `last` -/\ndef substringBoundsSrc : List String := %s\n\n", leanStrList(sub))

	// stringToNumber: which characters it trims and accepts
	s2n := "?"
	if fd := c.funcDecl("", "stringToNumber"); fd != nil {
		s2n = squeeze(c.src(fd.Body))
	}
	l.p("/-- body of stringToNumber -/\ndef stringToNumberSrc : String := %s\n\n", leanStr(s2n))

	// number formatting arm of asString
	asStr := "?"
	if fd := c.funcDecl("", "asString"); fd != nil {
		ast.Inspect(fd.Body, func(n ast.Node) bool {
			cc, ok := n.(*ast.CaseClause)
			if !ok || len(cc.List) != 1 || squeeze(c.src(cc.List[0])) != "float64" {
				return true
			}
			var parts []string
			for _, st := range cc.Body {
				parts = append(parts, squeeze(c.src(st)))
			}
			asStr = strings.Join(parts, ";")
			return true
		})
	}
	l.p("/-- the float64 arm of asString -/\ndef asStringFloatSrc : String := %s\n\n", leanStr(asStr))

	// modFunc callback
	modSrc := "?"
	if vs := c.varDecl("modFunc"); vs != nil && len(vs.Values) == 1 {
		ast.Inspect(vs.Values[0], func(n ast.Node) bool {
			if r, ok := n.(*ast.ReturnStmt); ok && len(r.Results) == 1 {
				if _, isCall := r.Results[0].(*ast.CallExpr); isCall {
					s := squeeze(c.src(r.Results[0]))
					if !strings.HasPrefix(s, "numericExpr") {
						modSrc = s
					}
				}
			}
			return true
		})
	}
	l.p("/-- the value modFunc's callback returns -/\ndef modCallbackSrc : String := %s\n", leanStr(modSrc))

	c.facts["extraFacts"] = map[string]interface{}{"filterInputFlagsSrc": inFlags, "filterCondFlagsSrc": condFlags, "hashKeyCases": keyCases,
		"writeKeyPartSrc": partSrc, "asBoolFloatSrc": asBoolFloat, "substringBoundsSrc": sub, "stringToNumberSrc": s2n, "asStringFloatSrc": asStr, "modCallbackSrc": modSrc}
	return l
}
