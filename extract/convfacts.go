package main

import (
	"fmt"
	"go/ast"
)

// ---------------------------------------------------------------- ConvFacts.lean

type convFact struct {
	Func          string   `json:"func"`
	Arms          []string `json:"arms"`
	DefaultPanics bool     `json:"defaultPanics"`
	HasDefault    bool     `json:"hasDefault"`
}

func (c *ctx) clauseFacts(name string, body *ast.BlockStmt, label func(ast.Expr) string) convFact {
	cf := convFact{Func: name, Arms: []string{}}
	for _, cc := range caseClauses(body) {
		if cc.List == nil {
			cf.HasDefault = true
			for _, s := range cc.Body {
				if c.containsPanic(s) {
					cf.DefaultPanics = true
				}
			}
			continue
		}
		for _, e := range cc.List {
			cf.Arms = append(cf.Arms, label(e))
		}
	}
	return cf
}

// typeSwitchSubject: the x of `switch [v :=] x.(type)`.
func typeSwitchSubject(ts *ast.TypeSwitchStmt) ast.Expr {
	if ts == nil {
		return nil
	}
	var e ast.Expr
	switch a := ts.Assign.(type) {
	case *ast.AssignStmt:
		if len(a.Rhs) == 1 {
			e = a.Rhs[0]
		}
	case *ast.ExprStmt:
		e = a.X
	}
	if ta, ok := unparen(e).(*ast.TypeAssertExpr); ok && ta.Type == nil {
		return ta.X
	}
	return nil
}

func (c *ctx) convFacts() *leanFile {
	l := newLean("ConvFacts", "func.go (asBool, asString, asNumber, type switches on Evaluate results), query.go (getXPathType, filterQuery.do), func_go110.go (round), operator.go (modFunc)", true)
	convs := []convFact{}
	asWritten := func(e ast.Expr) string { return nosp(c.src(e)) }
	kindName := func(e ast.Expr) string {
		if x, name, ok := sel(e); ok && isIdentNamed(x, "reflect") {
			return name
		}
		return "?:" + nosp(c.src(e))
	}

	// the first type switch of asBool / asString / asNumber
	for _, name := range []string{"asBool", "asString", "asNumber"} {
		fd := c.funcDecl("", name)
		if fd == nil || fd.Body == nil {
			continue
		}
		var ts *ast.TypeSwitchStmt
		ast.Inspect(fd.Body, func(n ast.Node) bool {
			if x, ok := n.(*ast.TypeSwitchStmt); ok && ts == nil {
				ts = x
			}
			return ts == nil
		})
		if ts != nil {
			convs = append(convs, c.clauseFacts(name, ts.Body, asWritten))
		}
	}
	// switch v.Kind() of getXPathType / filterQuery.do
	for _, fn := range [][2]string{{"", "getXPathType"}, {"filterQuery", "do"}} {
		fd := c.funcDecl(fn[0], fn[1])
		if fd == nil || fd.Body == nil {
			continue
		}
		sw := findSwitch(fd.Body, false, func(tag ast.Expr) bool {
			_, m, _, ok := methodCall(tag)
			return ok && m == "Kind"
		})
		if sw != nil {
			convs = append(convs, c.clauseFacts(declName(fd), sw.Body, kindName))
		}
	}
	// every type switch on `….Evaluate(t).(type)` in func.go
	for _, fd := range c.allFuncDecls() {
		if fd.Body == nil || c.fileOf(fd) != "func.go" {
			continue
		}
		n := 0
		ast.Inspect(fd.Body, func(m ast.Node) bool {
			ts, ok := m.(*ast.TypeSwitchStmt)
			if !ok {
				return true
			}
			if _, mth, _, ok := methodCall(typeSwitchSubject(ts)); ok && mth == "Evaluate" {
				n++
				convs = append(convs, c.clauseFacts(fmt.Sprintf("%s#%d", declName(fd), n), ts.Body, asWritten))
			}
			return true
		})
	}

	roundType := "?"
	if fd := c.funcDecl("", "round"); fd != nil && fd.Type.Results != nil && len(fd.Type.Results.List) == 1 {
		roundType = nosp(c.src(fd.Type.Results.List[0].Type))
	}

	// modFunc = func(..) { return numericExpr(t, m, n, func(a, b float64) float64 { return float64(int(a) % int(b)) }) }
	modInt := false
	if body := c.funcNode("modFunc"); body != nil {
		ast.Inspect(body, func(n ast.Node) bool {
			fn, call, ok := funcCall2(n)
			if !ok || fn != "numericExpr" || len(call.Args) != 4 {
				return true
			}
			cb, ok := unparen(call.Args[3]).(*ast.FuncLit)
			if !ok || cb.Body == nil || len(cb.Body.List) != 1 {
				return true
			}
			ps := params(cb.Type)
			ret, ok := cb.Body.List[0].(*ast.ReturnStmt)
			if !ok || len(ret.Results) != 1 || len(ps) != 2 {
				return true
			}
			conv := func(e ast.Expr, typ string) (ast.Expr, bool) {
				name, call, ok := funcCall(e)
				if !ok || name != typ || len(call.Args) != 1 {
					return nil, false
				}
				return call.Args[0], true
			}
			inner, ok := conv(ret.Results[0], "float64")
			if !ok {
				return true
			}
			b, ok := unparen(inner).(*ast.BinaryExpr)
			if !ok || b.Op.String() != "%" {
				return true
			}
			x, ok1 := conv(b.X, "int")
			y, ok2 := conv(b.Y, "int")
			if ok1 && ok2 && c.sameIdent(x, ps[0]) && c.sameIdent(y, ps[1]) {
				modInt = true
			}
			return true
		})
	}

	var q []string
	for _, cf := range convs {
		q = append(q, leanRec(leanStr(cf.Func), leanStrList(cf.Arms), leanBool(cf.DefaultPanics), leanBool(cf.HasDefault)))
	}
	l.p("/-- ⟨function (\"f#n\" = the n-th type switch on an Evaluate result in f, n ≥ 1), case types as written,\n    default arm panics, has default arm⟩ -/\ndef convs : List ConvFact := %s\n\n", leanLines(q))
	l.p("/-- result type of func round -/\ndef roundReturnType : String := %s\n", leanStr(roundType))
	l.p("/-- modFunc's callback is `float64(int(a) %% int(b))` -/\ndef modUsesIntConversion : Bool := %s\n", leanBool(modInt))
	c.facts["convFacts"] = map[string]interface{}{"convs": convs, "roundReturnType": roundType, "modUsesIntConversion": modInt}
	return l
}
