package main

import (
	"fmt"
	"go/ast"
	"go/token"
	"go/types"
	"sort"
	"strings"
)

// ---------------------------------------------------------------- BuilderFacts.lean

type funcEntry struct {
	Names    []string `json:"names"`
	MinArgs  int64    `json:"minArgs"`
	MaxArgs  *int64   `json:"maxArgs"`
	UsesArgs []int64  `json:"usesArgs"`
	Variadic bool     `json:"variadic"`
	Ctor     []string `json:"ctor"`
}

type axisBuild struct {
	Type     string   `json:"type"`
	Settings []string `json:"settings"`
}

type axisEntry struct {
	Axis    string      `json:"axis"`
	Builds  []axisBuild `json:"builds"`
	NonFlat bool        `json:"nonFlat"`
}

// isRootField: e is `<root>.<field>`.
func (c *ctx) isRootField(e ast.Expr, root *ast.Ident, field string) bool {
	f, ok := c.recvField(e, root)
	return ok && f == field
}

// opArm is one arm of a case distinction on `<root>.Op`: the values compared with, and the statements.
type opArm struct {
	labels []ast.Expr
	body   []ast.Stmt
}

// opArms reads a case distinction on `<root>.Op` written either as
//
//	switch root.Op { case "a", "b": …  case "c": … [default: …] }
//
// or as the chain
//
//	if root.Op == "a" || root.Op == "b" { … } else if root.Op == "c" { … } [else { … }]
//
// (every condition a disjunction of `root.Op == <value>`; no init statements).  The arms are returned
// in source order; the default / final else has no labels.  ok = false for any other statement.
func (c *ctx) opArms(st ast.Stmt, root *ast.Ident) (arms []opArm, ok bool) {
	switch x := st.(type) {
	case *ast.SwitchStmt:
		if x.Init != nil || x.Tag == nil || !c.isRootField(x.Tag, root, "Op") {
			return nil, false
		}
		for _, cc := range caseClauses(x.Body) {
			arms = append(arms, opArm{cc.List, cc.Body})
		}
		return arms, true
	case *ast.IfStmt:
		for cur := x; cur != nil; {
			if cur.Init != nil || cur.Body == nil {
				return nil, false
			}
			arm := opArm{body: cur.Body.List}
			for _, alt := range flatten(cur.Cond, token.LOR) {
				b, isBin := alt.(*ast.BinaryExpr)
				if !isBin || b.Op != token.EQL || !c.isRootField(b.X, root, "Op") {
					return nil, false
				}
				arm.labels = append(arm.labels, b.Y)
			}
			arms = append(arms, arm)
			switch e := cur.Else.(type) {
			case *ast.IfStmt:
				cur = e
			case *ast.BlockStmt:
				arms = append(arms, opArm{body: e.List})
				cur = nil
			case nil:
				cur = nil
			default:
				return nil, false
			}
		}
		return arms, true
	}
	return nil, false
}

// lenArgs: e is `len(<root>.Args)`.
func (c *ctx) isLenArgs(e ast.Expr, root *ast.Ident) bool {
	fn, call, ok := funcCall(e)
	return ok && fn == "len" && c.isBuiltin(call, "len") && len(call.Args) == 1 && c.isRootField(call.Args[0], root, "Args")
}

// returnsError: the block's last statement returns a non-nil second result.
func returnsError(b *ast.BlockStmt) bool {
	if b == nil || len(b.List) == 0 {
		return false
	}
	return stmtsReturnError(b.List)
}

func stmtsReturnError(ss []ast.Stmt) bool {
	if len(ss) == 0 {
		return false
	}
	ret, ok := ss[len(ss)-1].(*ast.ReturnStmt)
	return ok && len(ret.Results) == 2 && !isNil(ret.Results[1])
}

// argReads walks n and reports every `root.Args[<const>]` with whether it is read conditionally.
func (c *ctx) argReads(ss []ast.Stmt, root *ast.Ident, f func(idx int64, conditional bool)) {
	var walk func(n ast.Node, cond bool)
	walkList := func(ss []ast.Stmt, cond bool) {
		for _, s := range ss {
			walk(s, cond)
		}
	}
	walk = func(n ast.Node, cond bool) {
		switch x := n.(type) {
		case nil:
			return
		case *ast.IfStmt:
			if x.Init != nil {
				walk(x.Init, cond)
			}
			walk(x.Cond, cond)
			walk(x.Body, true)
			if x.Else != nil {
				walk(x.Else, true)
			}
			return
		case *ast.ForStmt:
			if x.Init != nil {
				walk(x.Init, cond)
			}
			if x.Cond != nil {
				walk(x.Cond, cond)
			}
			if x.Post != nil {
				walk(x.Post, true)
			}
			walk(x.Body, true)
			return
		case *ast.RangeStmt:
			walk(x.X, cond)
			walk(x.Body, true)
			return
		case *ast.SwitchStmt:
			if x.Init != nil {
				walk(x.Init, cond)
			}
			if x.Tag != nil {
				walk(x.Tag, cond)
			}
			walk(x.Body, true)
			return
		case *ast.TypeSwitchStmt:
			if x.Init != nil {
				walk(x.Init, cond)
			}
			walk(x.Assign, cond)
			walk(x.Body, true)
			return
		case *ast.SelectStmt:
			walk(x.Body, true)
			return
		case *ast.FuncLit:
			walk(x.Body, true)
			return
		case *ast.BlockStmt:
			if x != nil {
				walkList(x.List, cond)
			}
			return
		case *ast.BinaryExpr:
			if x.Op == token.LAND || x.Op == token.LOR {
				walk(x.X, cond)
				walk(x.Y, true)
				return
			}
		case *ast.IndexExpr:
			if c.isRootField(x.X, root, "Args") {
				if i, ok := c.constInt(x.Index); ok && i >= 0 {
					f(i, cond)
				}
			}
		}
		// generic: visit the direct children with the same flag
		first := true
		ast.Inspect(n, func(m ast.Node) bool {
			if first {
				first = false
				return true
			}
			if m != nil {
				walk(m, cond)
			}
			return false
		})
	}
	walkList(ss, false)
}

// delegates: the functions or methods of the package that the statements hand the function node
// `root` itself to (`b.processSubstring(root, props)`): the arm's work then sits in their bodies.
// processNode and friends receive `root.Args[i]`, never `root`, so they are not delegates.
func (c *ctx) delegates(ss []ast.Stmt, root *ast.Ident) (out []*ast.FuncDecl, pids []*ast.Ident) {
	for _, s := range ss {
		ast.Inspect(s, func(n ast.Node) bool {
			call, ok := n.(*ast.CallExpr)
			if !ok {
				return true
			}
			at := -1
			for i, a := range call.Args {
				if c.sameIdent(a, root) {
					at = i
				}
			}
			if at < 0 {
				return true
			}
			var fd *ast.FuncDecl
			if x, m, ok := sel(call.Fun); ok {
				if tv, ok := c.info.Types[x]; ok && tv.Type != nil {
					fd = c.funcDecl(strings.TrimPrefix(c.typeString(tv.Type), "*"), m)
				}
			} else if id, ok := unparen(call.Fun).(*ast.Ident); ok {
				fd = c.funcDecl("", id.Name)
			}
			if fd == nil || fd.Body == nil {
				return true
			}
			ps := params(fd.Type)
			if at < len(ps) && ps[at] != nil {
				out = append(out, fd)
				pids = append(pids, ps[at])
			}
			return true
		})
	}
	return
}

func (c *ctx) funcEntryOf(cc *ast.CaseClause, root *ast.Ident) funcEntry {
	fe := c.funcEntryBody(cc.List, cc.Body, root)
	// an arm that delegates to a helper: merge what the helper's body says (two levels at most)
	seen := map[*ast.FuncDecl]bool{}
	var follow func(ss []ast.Stmt, root *ast.Ident, depth int)
	follow = func(ss []ast.Stmt, root *ast.Ident, depth int) {
		if depth > 2 {
			return
		}
		fds, ps := c.delegates(ss, root)
		for i, fd := range fds {
			if seen[fd] {
				continue
			}
			seen[fd] = true
			g := c.funcEntryBody(nil, fd.Body.List, ps[i])
			if g.MinArgs > fe.MinArgs {
				fe.MinArgs = g.MinArgs
			}
			if g.MaxArgs != nil && (fe.MaxArgs == nil || *g.MaxArgs < *fe.MaxArgs) {
				fe.MaxArgs = g.MaxArgs
			}
			have := map[int64]bool{}
			for _, u := range fe.UsesArgs {
				have[u] = true
			}
			for _, u := range g.UsesArgs {
				if !have[u] {
					fe.UsesArgs = append(fe.UsesArgs, u)
				}
			}
			sort.Slice(fe.UsesArgs, func(a, b int) bool { return fe.UsesArgs[a] < fe.UsesArgs[b] })
			fe.Variadic = fe.Variadic || g.Variadic
			fe.Ctor = orderedSet(append(fe.Ctor, g.Ctor...))
			follow(fd.Body.List, ps[i], depth+1)
		}
	}
	follow(cc.Body, root, 1)
	return fe
}

func (c *ctx) funcEntryBody(labels []ast.Expr, body []ast.Stmt, root *ast.Ident) funcEntry {
	cc := &ast.CaseClause{List: labels, Body: body}
	fe := funcEntry{Names: []string{}, UsesArgs: []int64{}, Ctor: []string{}}
	for _, lab := range cc.List {
		if s, ok := strLit(lab); ok {
			fe.Names = append(fe.Names, s)
		} else {
			fe.Names = append(fe.Names, "?:"+nosp(c.src(lab)))
		}
	}
	var min int64
	var max *int64
	setMax := func(k int64) {
		if k < 0 {
			k = 0
		}
		if max == nil || k < *max {
			max = &k
		}
	}
	setMin := func(k int64) {
		if k > min {
			min = k
		}
	}
	// guards: top-level `if len(root.Args) <op> k { … return nil, <error> }`
	for _, s := range cc.Body {
		ifs, ok := s.(*ast.IfStmt)
		if !ok || ifs.Init != nil || !returnsError(ifs.Body) {
			continue
		}
		b, ok := unparen(ifs.Cond).(*ast.BinaryExpr)
		if !ok || !c.isLenArgs(b.X, root) {
			continue
		}
		k, ok := c.constInt(b.Y)
		if !ok {
			continue
		}
		switch b.Op {
		case token.NEQ:
			setMin(k)
			setMax(k)
		case token.LSS:
			setMin(k)
		case token.LEQ:
			setMin(k + 1)
		case token.GTR:
			setMax(k)
		case token.GEQ:
			setMax(k - 1)
		case token.EQL:
			if k == 0 {
				setMin(1)
			}
		}
	}
	uses := map[int64]bool{}
	c.argReads(cc.Body, root, func(i int64, conditional bool) {
		uses[i] = true
		if !conditional {
			setMin(i + 1)
		}
	})
	for i := range uses {
		fe.UsesArgs = append(fe.UsesArgs, i)
	}
	sort.Slice(fe.UsesArgs, func(a, b int) bool { return fe.UsesArgs[a] < fe.UsesArgs[b] })
	fe.MinArgs, fe.MaxArgs = min, max

	for _, s := range cc.Body {
		ast.Inspect(s, func(n ast.Node) bool {
			if x, ok := n.(*ast.RangeStmt); ok && c.isRootField(x.X, root, "Args") {
				fe.Variadic = true
			}
			c.ctorIdent(n, &fe)
			return true
		})
	}
	fe.Ctor = orderedSet(fe.Ctor)
	return fe
}

// ctorIdent records identifiers ending in "Func" that denote package-level functions or variables.
func (c *ctx) ctorIdent(n ast.Node, fe *funcEntry) {
	id, ok := n.(*ast.Ident)
	if !ok || !strings.HasSuffix(id.Name, "Func") || id.Name == "Func" {
		return
	}
	if o := c.obj(id); o != nil {
		if o.Parent() != c.scope() {
			return
		}
		switch o.(type) {
		case *types.Func, *types.Var:
		default:
			return
		}
	}
	fe.Ctor = append(fe.Ctor, id.Name)
}

// enclosingIfConds renders the conditions of the `if` statements on the stack that contain the
// node in their body (cond) or else branch (!(cond)), outermost first.
func (c *ctx) enclosingIfConds(stack []ast.Node, from int) []string {
	var out []string
	for i := from; i < len(stack); i++ {
		ifs, ok := stack[i].(*ast.IfStmt)
		if !ok || i+1 >= len(stack) {
			continue
		}
		cond := nosp(c.src(ifs.Cond))
		if ifs.Init != nil {
			cond = nosp(c.src(ifs.Init)) + ";" + cond
		}
		switch next := stack[i+1]; {
		case next == ast.Node(ifs.Body):
			out = append(out, cond)
		case ifs.Else != nil && next == ast.Node(ifs.Else):
			out = append(out, "!("+cond+")")
		}
	}
	return out
}

func (c *ctx) builderFacts() *leanFile {
	l := newLean("BuilderFacts", "build.go (processFunction, processAxis, processNode, processOperator)", true)

	// ---- processFunction
	funcTable := []funcEntry{}
	funcDefaultErrors := false
	if fd := c.funcDecl("builder", "processFunction"); fd != nil && fd.Body != nil {
		ps := params(fd.Type)
		if len(ps) >= 1 && ps[0] != nil {
			root := ps[0]
			for _, s := range fd.Body.List {
				sw, ok := s.(*ast.SwitchStmt)
				if !ok || sw.Tag == nil || !c.isRootField(sw.Tag, root, "FuncName") {
					continue
				}
				for _, cc := range caseClauses(sw.Body) {
					if cc.List == nil {
						funcDefaultErrors = stmtsReturnError(cc.Body)
						continue
					}
					funcTable = append(funcTable, c.funcEntryOf(cc, root))
				}
				break
			}
		}
	}

	// ---- processAxis
	axisTable := []axisEntry{}
	axisDefaultErrors := false
	shortcut, smartDesc := "?", "?"
	if fd := c.funcDecl("builder", "processAxis"); fd != nil && fd.Body != nil {
		ps := params(fd.Type)
		var root, props *ast.Ident
		if len(ps) == 3 {
			root, props = ps[0], ps[2]
		}
		var axisSwitch *ast.SwitchStmt
		if root != nil {
			for _, s := range fd.Body.List {
				if sw, ok := s.(*ast.SwitchStmt); ok && sw.Tag != nil && c.isRootField(sw.Tag, root, "AxisType") {
					axisSwitch = sw
					break
				}
			}
		}
		setsNonFlat := func(s ast.Stmt) bool {
			a, ok := s.(*ast.AssignStmt)
			if !ok || a.Tok != token.OR_ASSIGN || len(a.Lhs) != 1 || len(a.Rhs) != 1 {
				return false
			}
			st, ok := a.Lhs[0].(*ast.StarExpr)
			if !ok || props == nil || !c.sameIdent(st.X, props) {
				return false
			}
			x, f, ok := sel(a.Rhs[0])
			return ok && f == "NonFlat" && isIdentNamed(x, "builderProps")
		}
		if axisSwitch != nil {
			for _, cc := range caseClauses(axisSwitch.Body) {
				if cc.List == nil {
					axisDefaultErrors = stmtsReturnError(cc.Body)
					continue
				}
				builds := []axisBuild{}
				nonFlat := false
				for _, s := range cc.Body {
					if setsNonFlat(s) {
						nonFlat = true
					}
					ast.Inspect(s, func(n ast.Node) bool {
						lit, ok := n.(*ast.CompositeLit)
						if !ok || identName(lit.Type) == "" {
							return true
						}
						ab := axisBuild{Type: identName(lit.Type), Settings: []string{}}
						for _, el := range lit.Elts {
							kv, ok := el.(*ast.KeyValueExpr)
							if !ok {
								ab.Settings = append(ab.Settings, "?="+nosp(c.src(el)))
								continue
							}
							switch k := identName(kv.Key); k {
							case "name", "Input", "Predicate":
							default:
								ab.Settings = append(ab.Settings, k+"="+nosp(c.src(kv.Value)))
							}
						}
						sort.Strings(ab.Settings)
						builds = append(builds, ab)
						return true
					})
				}
				for _, lab := range cc.List {
					name, ok := strLit(lab)
					if !ok {
						name = "?:" + nosp(c.src(lab))
					}
					axisTable = append(axisTable, axisEntry{name, builds, nonFlat})
				}
			}
		}
		// shortcut and SmartDesc conditions (outside the axis switch)
		walkStack(fd.Body, func(n ast.Node, stack []ast.Node) bool {
			if axisSwitch != nil && n == ast.Node(axisSwitch) {
				return false
			}
			switch x := n.(type) {
			case *ast.CompositeLit:
				if identName(x.Type) == "descendantQuery" && shortcut == "?" {
					selfFalse := false
					for _, el := range x.Elts {
						if kv, ok := el.(*ast.KeyValueExpr); ok && identName(kv.Key) == "Self" && isIdentNamed(kv.Value, "false") {
							selfFalse = true
						}
					}
					if selfFalse {
						shortcut = strings.Join(c.enclosingIfConds(append(stack, n), 0), " && ")
					}
				}
			case *ast.AssignStmt:
				if x.Tok == token.OR_ASSIGN && len(x.Rhs) == 1 && smartDesc == "?" {
					if r, f, ok := sel(x.Rhs[0]); ok && f == "SmartDesc" && isIdentNamed(r, "flagsEnum") {
						conds := c.enclosingIfConds(append(stack, n), 0)
						if len(conds) > 0 {
							smartDesc = conds[len(conds)-1]
						}
					}
				}
			}
			return true
		})
	}

	// ---- processNode
	nodeCases := []string{}
	if fd := c.funcDecl("builder", "processNode"); fd != nil && fd.Body != nil {
		ps := params(fd.Type)
		if len(ps) >= 1 && ps[0] != nil {
			sw := findSwitch(fd.Body, false, func(tag ast.Expr) bool {
				x, m, call, ok := methodCall(tag)
				return ok && m == "Type" && len(call.Args) == 0 && c.sameIdent(x, ps[0])
			})
			if sw != nil {
				for _, cc := range caseClauses(sw.Body) {
					for _, lab := range cc.List {
						nodeCases = append(nodeCases, nosp(c.src(lab)))
					}
				}
			}
		}
	}

	// ---- processOperator
	operatorCases := [][]string{}
	numericOps := [][2]string{}
	logicalOps := [][2]string{}
	if fd := c.funcDecl("builder", "processOperator"); fd != nil && fd.Body != nil {
		ps := params(fd.Type)
		if len(ps) >= 1 && ps[0] != nil {
			root := ps[0]
			for _, s := range fd.Body.List {
				sw, ok := s.(*ast.SwitchStmt)
				if !ok || sw.Tag == nil || !c.isRootField(sw.Tag, root, "Op") {
					continue
				}
				for _, cc := range caseClauses(sw.Body) {
					if cc.List == nil {
						continue
					}
					labels := []string{}
					for _, lab := range cc.List {
						if s, ok := strLit(lab); ok {
							labels = append(labels, s)
						} else {
							labels = append(labels, "?:"+nosp(c.src(lab)))
						}
					}
					operatorCases = append(operatorCases, labels)
					// which query does the arm build, through which variable
					kind := ""
					var doVar *ast.Ident
					for _, st := range cc.Body {
						ast.Inspect(st, func(n ast.Node) bool {
							lit, ok := n.(*ast.CompositeLit)
							if !ok {
								return true
							}
							t := identName(lit.Type)
							if t != "numericQuery" && t != "logicalQuery" {
								return true
							}
							kind = t
							for _, el := range lit.Elts {
								if kv, ok := el.(*ast.KeyValueExpr); ok && identName(kv.Key) == "Do" {
									doVar, _ = unparen(kv.Value).(*ast.Ident)
								}
							}
							return true
						})
					}
					if kind == "" || doVar == nil {
						continue
					}
					var inner []opArm
					for _, st := range cc.Body {
						if arms, ok := c.opArms(st, root); ok {
							inner = arms
						}
					}
					for _, ic := range inner {
						for _, lab := range ic.labels {
							op, ok := strLit(lab)
							if !ok {
								op = "?:" + nosp(c.src(lab))
							}
							fn := "?"
							if v, rhs, ok := opAssign(ic.body); ok && c.sameIdent(v, doVar) && identName(rhs) != "" {
								fn = identName(rhs)
							}
							if kind == "numericQuery" {
								numericOps = append(numericOps, [2]string{op, fn})
							} else {
								logicalOps = append(logicalOps, [2]string{op, fn})
							}
						}
					}
				}
				break
			}
		}
	}

	// ---- render
	var q []string
	for _, f := range funcTable {
		max := "none"
		if f.MaxArgs != nil {
			max = fmt.Sprintf("some %d", *f.MaxArgs)
		}
		q = append(q, leanRec(leanStrList(f.Names), fmt.Sprint(f.MinArgs), max, leanNats(f.UsesArgs), leanBool(f.Variadic), leanStrList(f.Ctor)))
	}
	l.p("/-- ⟨names, minArgs, maxArgs, usesArgs, variadic, ctor⟩ per `case` of the switch on root.FuncName in processFunction -/\ndef funcTable : List FuncEntry := %s\n\n", leanLines(q))
	l.p("/-- the switch has a default arm returning a non-nil error -/\ndef funcDefaultErrors : Bool := %s\n\n", leanBool(funcDefaultErrors))
	q = nil
	for _, a := range axisTable {
		var bs []string
		for _, b := range a.Builds {
			bs = append(bs, leanTuple(leanStr(b.Type), leanStrList(b.Settings)))
		}
		q = append(q, leanRec(leanStr(a.Axis), leanList(bs), leanBool(a.NonFlat)))
	}
	l.p("/-- ⟨axis, builds, nonFlat⟩ per case label of `switch root.AxisType` in processAxis -/\ndef axisTable : List AxisEntry := %s\n\n", leanLines(q))
	l.p("def axisDefaultErrors : Bool := %s\n\n", leanBool(axisDefaultErrors))
	l.p("/-- the nested `if` conditions (outermost first, else branches as `!(…)`, `init;cond` when the `if` has an init\n    statement) leading to the `descendantQuery{… Self: false}` shortcut -/\ndef shortcutCondSrc : String := %s\n", leanStr(shortcut))
	l.p("/-- condition of the `if` that sets `inputFlags |= flagsEnum.SmartDesc` -/\ndef smartDescCondSrc : String := %s\n\n", leanStr(smartDesc))
	l.p("/-- case labels of the switch on root.Type() in processNode -/\ndef processNodeCases : List String := %s\n", leanStrList(nodeCases))
	q = nil
	for _, oc := range operatorCases {
		q = append(q, leanStrList(oc))
	}
	l.p("/-- outer switch of processOperator -/\ndef operatorCases : List (List String) := %s\n", leanList(q))
	l.p("def numericOpFuncs : List (String × String) := %s\n", leanPairs(numericOps))
	l.p("def logicalOpFuncs : List (String × String) := %s\n", leanPairs(logicalOps))
	c.facts["builderFacts"] = map[string]interface{}{
		"funcTable": funcTable, "funcDefaultErrors": funcDefaultErrors, "axisTable": axisTable,
		"axisDefaultErrors": axisDefaultErrors, "shortcutCondSrc": shortcut, "smartDescCondSrc": smartDesc,
		"processNodeCases": nodeCases, "operatorCases": operatorCases, "numericOpFuncs": numericOps,
		"logicalOpFuncs": logicalOps,
	}
	return l
}
