package main

import (
	"fmt"
	"go/ast"
	"go/constant"
	"go/token"
	"go/types"
	"sort"
	"strconv"
	"strings"
	"unicode"
)

// ---------------------------------------------------------------- NameTables.lean

type rng [3]int64

// rangeTable reads `var name = &unicode.RangeTable{R16: []unicode.Range16{{lo, hi, stride}, …}, R32: …}`.
func (c *ctx) rangeTable(name string) ([]rng, bool) {
	vs := c.varDecl(name)
	if vs == nil {
		return nil, false
	}
	idx := -1
	for i, n := range vs.Names {
		if n.Name == name {
			idx = i
		}
	}
	if idx < 0 || idx >= len(vs.Values) {
		return nil, false
	}
	e := unparen(vs.Values[idx])
	if u, ok := e.(*ast.UnaryExpr); ok && u.Op == token.AND {
		e = unparen(u.X)
	}
	lit, ok := e.(*ast.CompositeLit)
	if !ok {
		return nil, false
	}
	var out []rng
	seen := false
	for _, el := range lit.Elts {
		kv, ok := el.(*ast.KeyValueExpr)
		if !ok {
			return nil, false
		}
		key := identName(kv.Key)
		if key != "R16" && key != "R32" {
			continue // LatinOffset does not change membership
		}
		rows, ok := unparen(kv.Value).(*ast.CompositeLit)
		if !ok {
			return nil, false
		}
		seen = true
		for _, row := range rows.Elts {
			r, ok := unparen(row).(*ast.CompositeLit)
			if !ok || len(r.Elts) != 3 {
				return nil, false
			}
			var v rng
			for i, x := range r.Elts {
				pos := i
				if kv, ok := x.(*ast.KeyValueExpr); ok {
					switch identName(kv.Key) {
					case "Lo":
						pos = 0
					case "Hi":
						pos = 1
					case "Stride":
						pos = 2
					default:
						return nil, false
					}
					x = kv.Value
				}
				n, ok := c.constInt(x)
				if !ok || n < 0 {
					return nil, false
				}
				v[pos] = n
			}
			out = append(out, v)
		}
	}
	return out, seen
}

func leanRanges(rs []rng) string {
	if len(rs) == 0 {
		return "[]"
	}
	var sb strings.Builder
	sb.WriteString("[\n  ")
	for i, r := range rs {
		if i > 0 {
			if i%6 == 0 {
				sb.WriteString(",\n  ")
			} else {
				sb.WriteString(", ")
			}
		}
		fmt.Fprintf(&sb, "(0x%04X, 0x%04X, %d)", r[0], r[1], r[2])
	}
	sb.WriteString("]")
	return sb.String()
}

// stringOfParam: e is `string(x)` with x the given identifier.
func (c *ctx) stringOf(e ast.Expr, id *ast.Ident) bool {
	name, call, ok := funcCall(e)
	return ok && name == "string" && len(call.Args) == 1 && c.sameIdent(call.Args[0], id)
}

// cmpStringOf: e is `string(r) <op> "c"` (either operand order); returns the literal.
func (c *ctx) cmpStringOf(e ast.Expr, op token.Token, r *ast.Ident) (string, bool) {
	b, ok := unparen(e).(*ast.BinaryExpr)
	if !ok || b.Op != op {
		return "", false
	}
	if s, ok := strLit(b.Y); ok && c.stringOf(b.X, r) {
		return s, true
	}
	if s, ok := strLit(b.X); ok && c.stringOf(b.Y, r) {
		return s, true
	}
	// the same comparison written on the rune itself: `r == '*'` (string(r) is a one-character string exactly
	// when r is that character)
	runeLit := func(e ast.Expr) (string, bool) {
		if bl, ok := unparen(e).(*ast.BasicLit); ok && bl.Kind == token.CHAR {
			if v, err := strconv.Unquote(bl.Value); err == nil {
				return v, true
			}
		}
		return "", false
	}
	if s, ok := runeLit(b.Y); ok && c.sameIdent(b.X, r) {
		return s, true
	}
	if s, ok := runeLit(b.X); ok && c.sameIdent(b.Y, r) {
		return s, true
	}
	return "", false
}

func flatten(e ast.Expr, op token.Token) []ast.Expr {
	e = unparen(e)
	if b, ok := e.(*ast.BinaryExpr); ok && b.Op == op {
		return append(flatten(b.X, op), flatten(b.Y, op)...)
	}
	return []ast.Expr{e}
}

// unicodeIs: e is `unicode.Is(<table>, r)`; returns the table identifier's name.
func (c *ctx) unicodeIs(e ast.Expr, r *ast.Ident) (string, bool) {
	x, m, call, ok := methodCall(e)
	if !ok || m != "Is" || !isIdentNamed(x, "unicode") || len(call.Args) != 2 || !c.sameIdent(call.Args[1], r) {
		return "", false
	}
	id, ok := unparen(call.Args[0]).(*ast.Ident)
	if !ok {
		return "", false
	}
	if o := c.obj(id); o != nil && o.Parent() != c.scope() {
		return "", false // not the package-level table
	}
	return id.Name, true
}

func (c *ctx) nameTables() *leanFile {
	l := newLean("NameTables", "parse.go (tables `first`, `second`, func isName) and the Go toolchain's unicode.Nd", false)
	first, ok1 := c.rangeTable("first")
	second, ok2 := c.rangeTable("second")
	if !ok1 {
		first = nil
	}
	if !ok2 {
		second = nil
	}

	star := false
	var excludes []int64
	shapeOK := false
	if fd := c.funcDecl("", "isName"); fd != nil && fd.Body != nil {
		ps := params(fd.Type)
		var r *ast.Ident
		if len(ps) == 1 {
			r = ps[0]
		}
		ast.Inspect(fd.Body, func(n ast.Node) bool {
			if e, ok := n.(ast.Expr); ok && r != nil {
				if s, ok := c.cmpStringOf(e, token.EQL, r); ok && s == "*" {
					star = true
				}
			}
			return true
		})
		var ret *ast.ReturnStmt
		if len(fd.Body.List) == 1 {
			ret, _ = fd.Body.List[0].(*ast.ReturnStmt)
		}
		if ret != nil && len(ret.Results) == 1 && r != nil {
			conj := flatten(ret.Results[0], token.LAND)
			shapeOK = len(conj) >= 1
			for i, cj := range conj {
				if s, ok := c.cmpStringOf(cj, token.NEQ, r); ok && len([]rune(s)) == 1 {
					excludes = append(excludes, int64([]rune(s)[0]))
					if i == len(conj)-1 {
						shapeOK = false // no membership disjunction at the end
					}
					continue
				}
				if i != len(conj)-1 {
					shapeOK = false
					continue
				}
				dis := flatten(cj, token.LOR)
				good := len(dis) == 2 || len(dis) == 3
				if good {
					t1, ok1 := c.unicodeIs(dis[0], r)
					t2, ok2 := c.unicodeIs(dis[1], r)
					good = ok1 && ok2 && t1 == "first" && t2 == "second"
				}
				if good && len(dis) == 3 {
					s, ok := c.cmpStringOf(dis[2], token.EQL, r)
					good = ok && s == "*"
				}
				if !good {
					shapeOK = false
				}
			}
		} else if r != nil {
			// not a single return: still report the exclusions that occur, in source order
			ast.Inspect(fd.Body, func(n ast.Node) bool {
				if e, ok := n.(*ast.BinaryExpr); ok {
					if s, ok := c.cmpStringOf(e, token.NEQ, r); ok && len([]rune(s)) == 1 {
						excludes = append(excludes, int64([]rune(s)[0]))
					}
				}
				return true
			})
		}
	}
	shapeOK = shapeOK && ok1 && ok2

	var nd []rng
	for _, r := range unicode.Nd.R16 {
		nd = append(nd, rng{int64(r.Lo), int64(r.Hi), int64(r.Stride)})
	}
	for _, r := range unicode.Nd.R32 {
		nd = append(nd, rng{int64(r.Lo), int64(r.Hi), int64(r.Stride)})
	}

	l.p("/-- var `first`: (lo, hi, stride) -/\ndef nameFirst : List (Nat × Nat × Nat) := %s\n\n", leanRanges(first))
	l.p("/-- var `second`: (lo, hi, stride) -/\ndef nameSecond : List (Nat × Nat × Nat) := %s\n\n", leanRanges(second))
	l.p("/-- isName contains the comparison `string(r) == \"*\"` -/\ndef starIsNameChar : Bool := %s\n", leanBool(star))
	l.p("/-- code points c excluded by `string(r) != \"c\"` conjuncts of isName, source order -/\ndef nameExcludes : List Nat := %s\n", leanNats(excludes))
	l.p("/-- isName is a single `return` of excludes && (unicode.Is(first, r) || unicode.Is(second, r) [|| string(r) == \"*\"]) -/\ndef isNameShapeOk : Bool := %s\n\n", leanBool(shapeOK))
	l.p("/-- unicode.Nd (R16 then R32) of the Go toolchain that ran the extractor -/\ndef unicodeNd : List (Nat × Nat × Nat) := %s\n", leanRanges(nd))
	c.facts["nameTables"] = map[string]interface{}{
		"nameFirst": first, "nameSecond": second, "starIsNameChar": star, "nameExcludes": excludes,
		"isNameShapeOk": shapeOK, "unicodeNd": nd,
	}
	return l
}

// ---------------------------------------------------------------- Constants.lean

// depthGuard recognises, as the FIRST statement of fd,
//
//	if S = S + 1; S > N { panic(..) | … return }      (also S += 1 / S++)
//
// and returns N.
func (c *ctx) depthGuard(fd *ast.FuncDecl) (int64, bool) {
	if fd == nil || fd.Body == nil || len(fd.Body.List) == 0 {
		return 0, false
	}
	ifs, ok := fd.Body.List[0].(*ast.IfStmt)
	if !ok || ifs.Init == nil {
		return 0, false
	}
	var counter string
	switch s := ifs.Init.(type) {
	case *ast.AssignStmt:
		if len(s.Lhs) != 1 || len(s.Rhs) != 1 {
			return 0, false
		}
		lhs := nosp(c.src(s.Lhs[0]))
		switch s.Tok {
		case token.ASSIGN:
			b, ok := unparen(s.Rhs[0]).(*ast.BinaryExpr)
			if !ok || b.Op != token.ADD {
				return 0, false
			}
			one, isC := c.constInt(b.Y)
			other := b.X
			if !isC {
				one, isC = c.constInt(b.X)
				other = b.Y
			}
			if !isC || one != 1 || nosp(c.src(other)) != lhs {
				return 0, false
			}
		case token.ADD_ASSIGN:
			if one, ok := c.constInt(s.Rhs[0]); !ok || one != 1 {
				return 0, false
			}
		default:
			return 0, false
		}
		counter = lhs
	case *ast.IncDecStmt:
		if s.Tok != token.INC {
			return 0, false
		}
		counter = nosp(c.src(s.X))
	default:
		return 0, false
	}
	if counter == "" {
		return 0, false
	}
	cond, ok := unparen(ifs.Cond).(*ast.BinaryExpr)
	if !ok {
		return 0, false
	}
	var limit int64
	switch cond.Op {
	case token.GTR: // S > N
		n, ok := c.constInt(cond.Y)
		if !ok || nosp(c.src(cond.X)) != counter {
			return 0, false
		}
		limit = n
	case token.GEQ: // S >= N+1
		n, ok := c.constInt(cond.Y)
		if !ok || nosp(c.src(cond.X)) != counter {
			return 0, false
		}
		limit = n - 1
	default:
		return 0, false
	}
	// the branch must leave the function
	leaves := c.containsPanic(ifs.Body)
	if ifs.Body != nil && len(ifs.Body.List) > 0 {
		if _, ok := ifs.Body.List[len(ifs.Body.List)-1].(*ast.ReturnStmt); ok {
			leaves = true
		}
	}
	if !leaves || limit < 0 {
		return 0, false
	}
	return limit, true
}

func (c *ctx) constants() *leanFile {
	l := newLean("Constants", "parse.go (parseExpression), build.go (processNode), cache.go (defaultCap)", false)
	pd, okP := c.depthGuard(c.funcDecl("parser", "parseExpression"))
	// the parser's guard must panic (build turns it into an error)
	if fd := c.funcDecl("parser", "parseExpression"); okP && (fd == nil || !c.containsPanic(fd.Body.List[0])) {
		okP = false
	}
	bd, okB := c.depthGuard(c.funcDecl("builder", "processNode"))
	var dc int64
	okD := false
	if o, ok := c.scope().Lookup("defaultCap").(*types.Const); ok && o.Val() != nil {
		if v, exact := constant.Int64Val(constant.ToInt(o.Val())); exact && v >= 0 {
			dc, okD = v, true
		}
	}
	l.p("/-- (*parser).parseExpression: `if p.d = p.d + 1; p.d > N { panic(..) }` -/\ndef parseDepthLimit : Option Nat := %s\n", leanOptNat(pd, okP))
	l.p("/-- (*builder).processNode: `if b.parseDepth = b.parseDepth + 1; b.parseDepth > N { … return }` -/\ndef buildDepthLimit : Option Nat := %s\n", leanOptNat(bd, okB))
	l.p("/-- const defaultCap -/\ndef defaultCap : Option Nat := %s\n", leanOptNat(dc, okD))
	opt := func(v int64, ok bool) interface{} {
		if !ok {
			return nil
		}
		return v
	}
	c.facts["constants"] = map[string]interface{}{
		"parseDepthLimit": opt(pd, okP), "buildDepthLimit": opt(bd, okB), "defaultCap": opt(dc, okD),
	}
	return l
}

// ---------------------------------------------------------------- ScannerFacts.lean

// firstClauseLabels returns the source text of the labels of the first non-default clause of
// the first switch statement in fd.
func (c *ctx) firstClauseLabels(fd *ast.FuncDecl, unquote bool) []string {
	out := []string{}
	if fd == nil || fd.Body == nil {
		return out
	}
	sw := findSwitch(fd.Body, false, func(ast.Expr) bool { return true })
	if sw == nil {
		return out
	}
	for _, cc := range caseClauses(sw.Body) {
		if cc.List == nil {
			continue
		}
		for _, e := range cc.List {
			if unquote {
				if s, ok := strLit(e); ok {
					out = append(out, s)
				} else {
					out = append(out, "?:"+nosp(c.src(e)))
				}
			} else {
				out = append(out, nosp(c.src(e)))
			}
		}
		break
	}
	return out
}

type charTok struct {
	Char int64  `json:"char"`
	Tok  string `json:"tok"`
}
type twoCharTok struct {
	Char1 int64  `json:"char1"`
	Tok1  string `json:"tok1"`
	Char2 int64  `json:"char2"`
	Tok2  string `json:"tok2"`
}

// typAssign: s is `<x>.typ = itemXx`; returns itemXx.
func typAssign(s ast.Stmt) (string, bool) {
	a, ok := s.(*ast.AssignStmt)
	if !ok || a.Tok != token.ASSIGN || len(a.Lhs) != 1 || len(a.Rhs) != 1 {
		return "", false
	}
	if _, f, ok := sel(a.Lhs[0]); !ok || f != "typ" {
		return "", false
	}
	name := identName(a.Rhs[0])
	return name, name != ""
}

func isNextChar(s ast.Stmt) bool {
	es, ok := s.(*ast.ExprStmt)
	if !ok {
		return false
	}
	_, m, _, ok := methodCall(es.X)
	return ok && m == "nextChar"
}

func (c *ctx) scannerFacts() *leanFile {
	l := newLean("ScannerFacts", "parse.go (asItemType, nextItem, isNodeType, isStep, isPrimaryExpr, parse)", false)

	singles := []charTok{}
	if fd := c.funcDecl("", "asItemType"); fd != nil && fd.Body != nil {
		if sw := findSwitch(fd.Body, false, func(ast.Expr) bool { return true }); sw != nil {
			for _, cc := range caseClauses(sw.Body) {
				tok := "?"
				if len(cc.Body) == 1 {
					if r, ok := cc.Body[0].(*ast.ReturnStmt); ok && len(r.Results) == 1 && identName(r.Results[0]) != "" {
						tok = identName(r.Results[0])
					}
				}
				for _, e := range cc.List {
					if ch, ok := charLit(e); ok {
						singles = append(singles, charTok{int64(ch), tok})
					}
				}
			}
		}
	}

	nextSingles := []int64{}
	twos := []twoCharTok{}
	if fd := c.funcDecl("scanner", "nextItem"); fd != nil && fd.Body != nil {
		sw := findSwitch(fd.Body, false, func(tag ast.Expr) bool { _, f, ok := sel(tag); return ok && f == "curr" })
		if sw != nil {
			firstMulti := true
			for _, cc := range caseClauses(sw.Body) {
				if len(cc.List) > 1 && firstMulti {
					firstMulti = false
					for _, e := range cc.List {
						if ch, ok := charLit(e); ok {
							nextSingles = append(nextSingles, int64(ch))
						} else {
							nextSingles = nil // unknown label: give up on the list
							break
						}
					}
					continue
				}
				if len(cc.List) != 1 || len(cc.Body) < 3 {
					continue
				}
				ch1, ok := charLit(cc.List[0])
				if !ok {
					continue
				}
				t1, ok := typAssign(cc.Body[0])
				if !ok || !isNextChar(cc.Body[1]) {
					continue
				}
				ifs, ok := cc.Body[2].(*ast.IfStmt)
				if !ok || ifs.Init != nil || ifs.Body == nil || len(ifs.Body.List) < 1 {
					continue
				}
				cond, ok := unparen(ifs.Cond).(*ast.BinaryExpr)
				if !ok || cond.Op != token.EQL {
					continue
				}
				if _, f, ok := sel(cond.X); !ok || f != "curr" {
					continue
				}
				ch2, ok := charLit(cond.Y)
				if !ok {
					continue
				}
				t2, ok := typAssign(ifs.Body.List[0])
				if !ok {
					continue
				}
				twos = append(twos, twoCharTok{int64(ch1), t1, int64(ch2), t2})
			}
		}
	}
	if nextSingles == nil {
		nextSingles = []int64{}
	}
	// The arms of a switch on constants are mutually exclusive, so their order carries no meaning:
	// list them in a fixed order of the first character (the one of the committed facts: < > ! . /),
	// any other first character after these by code point.
	rank := func(ch int64) int64 {
		if i := strings.IndexRune("<>!./", rune(ch)); i >= 0 && ch < 0x80 {
			return int64(i)
		}
		return 0x100 + ch
	}
	sort.SliceStable(twos, func(i, j int) bool { return rank(twos[i].Char1) < rank(twos[j].Char1) })

	nodeTypeNames := c.firstClauseLabels(c.funcDecl("", "isNodeType"), true)
	stepTokens := c.firstClauseLabels(c.funcDecl("", "isStep"), false)
	primaryTokens := c.firstClauseLabels(c.funcDecl("", "isPrimaryExpr"), false)

	requiresEOF := false
	if fd := c.funcDecl("", "parse"); fd != nil && fd.Body != nil {
		after := token.NoPos
		ast.Inspect(fd.Body, func(n ast.Node) bool {
			if _, m, call, ok := methodCall2(n); ok && m == "parseExpression" && after == token.NoPos {
				after = call.End()
			}
			return true
		})
		if after != token.NoPos {
			ast.Inspect(fd.Body, func(n ast.Node) bool {
				if n == nil || n.Pos() < after {
					return true
				}
				switch x := n.(type) {
				case *ast.BinaryExpr:
					if x.Op == token.NEQ || x.Op == token.EQL {
						_, f1, ok1 := sel(x.X)
						_, f2, ok2 := sel(x.Y)
						if (ok1 && f1 == "typ" && isIdentNamed(x.Y, "itemEOF")) || (ok2 && f2 == "typ" && isIdentNamed(x.X, "itemEOF")) {
							requiresEOF = true
						}
					}
				case *ast.CallExpr:
					name := ""
					if n, _, ok := funcCall(x); ok {
						name = n
					} else if _, m, _, ok := methodCall(x); ok {
						name = m
					}
					if name == "checkItem" || name == "skipItem" {
						for _, a := range x.Args {
							if isIdentNamed(a, "itemEOF") {
								requiresEOF = true
							}
						}
					}
				}
				return true
			})
		}
	}

	var q []string
	for _, s := range singles {
		q = append(q, leanTuple(fmt.Sprint(s.Char), leanStr(s.Tok)))
	}
	l.p("/-- asItemType: `case 'c': return itemXx` -/\ndef singleCharTokens : List (Nat × String) := %s\n", leanList(q))
	l.p("/-- the rune list of the first multi-value case in nextItem's switch on s.curr -/\ndef nextItemSingles : List Nat := %s\n", leanNats(nextSingles))
	q = nil
	for _, s := range twos {
		q = append(q, leanTuple(fmt.Sprint(s.Char1), leanStr(s.Tok1), fmt.Sprint(s.Char2), leanStr(s.Tok2)))
	}
	l.p("/-- nextItem: `case c1: typ = t1; nextChar; if curr == c2 { typ = t2 … }` -/\ndef twoCharTokens : List (Nat × String × Nat × String) := %s\n", leanList(q))
	l.p("def nodeTypeNames : List String := %s\n", leanStrList(nodeTypeNames))
	l.p("def stepTokens : List String := %s\n", leanStrList(stepTokens))
	l.p("def primaryTokens : List String := %s\n", leanStrList(primaryTokens))
	l.p("/-- func parse checks for itemEOF after parseExpression -/\ndef parseRequiresEOF : Bool := %s\n", leanBool(requiresEOF))
	c.facts["scannerFacts"] = map[string]interface{}{
		"singleCharTokens": singles, "nextItemSingles": nextSingles, "twoCharTokens": twos,
		"nodeTypeNames": nodeTypeNames, "stepTokens": stepTokens, "primaryTokens": primaryTokens,
		"parseRequiresEOF": requiresEOF,
	}
	return l
}

// methodCall2 is methodCall on an arbitrary node.
func methodCall2(n ast.Node) (ast.Expr, string, *ast.CallExpr, bool) {
	e, ok := n.(ast.Expr)
	if !ok {
		return nil, "", nil, false
	}
	if _, isCall := e.(*ast.CallExpr); !isCall {
		return nil, "", nil, false
	}
	return methodCall(e)
}
