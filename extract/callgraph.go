package main

import (
	"fmt"
	"go/ast"
	"go/types"
	"sort"
	"strings"
)

// ---------------------------------------------------------------- call graph

type panicSite struct {
	Func    string `json:"func"`
	ArgType string `json:"argType"`
	node    string // call-graph node that executes the panic (a closure node for function literals)
}

type callGraph struct {
	c        *ctx
	edges    map[string]map[string]bool
	nodes    map[string]bool
	sigs     []*types.Signature // one closure node per distinct function type
	sigNames []string
	byMethod map[string][]string // method name -> "Recv.Method" of every package method
	panics   []panicSite

	callFuns  map[ast.Expr]bool     // expressions in call position
	immediate map[*ast.FuncLit]bool // literals that are called on the spot (`func(){…}()`, also deferred)
	skipIdent map[*ast.Ident]bool   // selector names (handled with their selector)
	usedAnyCl bool
}

const anyClosure = "<closures:?>"

func (g *callGraph) edge(from, to string) {
	if from == "" || to == "" {
		return
	}
	g.nodes[from], g.nodes[to] = true, true
	if g.edges[from] == nil {
		g.edges[from] = map[string]bool{}
	}
	g.edges[from][to] = true
}

// typeKey prints a type without parameter names (so that identical function types print alike).
func (g *callGraph) typeKey(t types.Type) string {
	t = types.Unalias(t)
	switch x := t.(type) {
	case *types.Signature:
		var ps []string
		for i := 0; i < x.Params().Len(); i++ {
			p := g.typeKey(x.Params().At(i).Type())
			if x.Variadic() && i == x.Params().Len()-1 {
				p = "..." + strings.TrimPrefix(p, "[]")
			}
			ps = append(ps, p)
		}
		s := "func(" + strings.Join(ps, ", ") + ")"
		switch x.Results().Len() {
		case 0:
		case 1:
			s += " " + g.typeKey(x.Results().At(0).Type())
		default:
			var rs []string
			for i := 0; i < x.Results().Len(); i++ {
				rs = append(rs, g.typeKey(x.Results().At(i).Type()))
			}
			s += " (" + strings.Join(rs, ", ") + ")"
		}
		return s
	case *types.Pointer:
		return "*" + g.typeKey(x.Elem())
	case *types.Slice:
		return "[]" + g.typeKey(x.Elem())
	case *types.Array:
		return fmt.Sprintf("[%d]%s", x.Len(), g.typeKey(x.Elem()))
	case *types.Map:
		return "map[" + g.typeKey(x.Key()) + "]" + g.typeKey(x.Elem())
	case *types.Interface:
		if x.Empty() {
			return "interface{}"
		}
	}
	return g.c.typeString(t)
}

// closureNode: the pseudo node standing for "some function value of this type is called".
func (g *callGraph) closureNode(t types.Type) string {
	if t == nil {
		g.usedAnyCl = true
		return anyClosure
	}
	sig, ok := types.Unalias(t).Underlying().(*types.Signature)
	if !ok {
		g.usedAnyCl = true
		return anyClosure
	}
	for i, s := range g.sigs {
		if types.Identical(s, sig) {
			return g.sigNames[i]
		}
	}
	name := "<closures:" + g.typeKey(sig) + ">"
	g.sigs = append(g.sigs, sig)
	g.sigNames = append(g.sigNames, name)
	g.nodes[name] = true
	return name
}

func (g *callGraph) typeOf(e ast.Expr) types.Type {
	if tv, ok := g.c.info.Types[e]; ok {
		return tv.Type
	}
	if id, ok := e.(*ast.Ident); ok {
		if o := g.c.obj(id); o != nil {
			return o.Type()
		}
	}
	return nil
}

// methodName: "Recv.Method" for a method of a package type, "" for a foreign one.
func (g *callGraph) methodName(fn *types.Func) string {
	sig, ok := fn.Type().(*types.Signature)
	if !ok || sig.Recv() == nil || fn.Pkg() != g.c.pkg {
		return ""
	}
	t := types.Unalias(sig.Recv().Type())
	if p, ok := t.(*types.Pointer); ok {
		t = types.Unalias(p.Elem())
	}
	if n, ok := t.(*types.Named); ok {
		return n.Obj().Name() + "." + fn.Name()
	}
	return ""
}

// targets of `x.sel` used as a method (called or taken as a value); dynamic=true when it
// is a field / variable of function type instead.
func (g *callGraph) selectorTargets(s *ast.SelectorExpr) (targets []string, dynamic bool, external bool) {
	selInfo := g.c.info.Selections[s]
	if selInfo == nil {
		// qualified identifier pkg.F, or no type information
		switch o := g.c.info.Uses[s.Sel].(type) {
		case *types.Func:
			if o.Pkg() == g.c.pkg {
				return []string{o.Name()}, false, false
			}
			return nil, false, true
		case *types.Var:
			return nil, true, false
		case nil:
			// unknown: every package method of that name (over-approximation)
			return g.byMethod[s.Sel.Name], len(g.byMethod[s.Sel.Name]) == 0, false
		}
		return nil, false, true
	}
	switch selInfo.Kind() {
	case types.FieldVal:
		return nil, true, false
	default: // MethodVal, MethodExpr
		fn, ok := selInfo.Obj().(*types.Func)
		if !ok {
			return nil, true, false
		}
		if types.IsInterface(selInfo.Recv()) {
			return g.implementers(selInfo.Recv(), fn.Name()), false, false
		}
		if name := g.methodName(fn); name != "" {
			return []string{name}, false, false
		}
		return nil, false, true
	}
}

// implementers: method `name` of every package-level named type whose value or pointer
// implements the interface (the possible dynamic types of an interface value); falls back to
// every package method of that name when the interface type is unavailable.
func (g *callGraph) implementers(recv types.Type, name string) []string {
	iface, ok := types.Unalias(recv).Underlying().(*types.Interface)
	if !ok || g.c.pkg == nil {
		return g.byMethod[name]
	}
	var out []string
	scope := g.c.pkg.Scope()
	for _, n := range scope.Names() {
		tn, ok := scope.Lookup(n).(*types.TypeName)
		if !ok || tn.IsAlias() || types.IsInterface(tn.Type()) {
			continue
		}
		for _, t := range []types.Type{tn.Type(), types.NewPointer(tn.Type())} {
			if !types.Implements(t, iface) {
				continue
			}
			if sel := types.NewMethodSet(t).Lookup(g.c.pkg, name); sel != nil {
				if fn, ok := sel.Obj().(*types.Func); ok {
					if m := g.methodName(fn); m != "" {
						out = append(out, m)
					}
				}
			}
			break
		}
	}
	return sortedSet(out)
}

// funcFields: the function-typed fields of a (pointer to a) struct type.
func funcFields(t types.Type) []types.Type {
	if t == nil {
		return nil
	}
	t = types.Unalias(t)
	if p, ok := t.Underlying().(*types.Pointer); ok {
		t = p.Elem()
	}
	st, ok := t.Underlying().(*types.Struct)
	if !ok {
		return nil
	}
	var out []types.Type
	for i := 0; i < st.NumFields(); i++ {
		if _, ok := st.Field(i).Type().Underlying().(*types.Signature); ok {
			out = append(out, st.Field(i).Type())
		}
	}
	return out
}

// externalCall: a function outside the package may call back the function values it is given
// (arguments) or holds (function-typed fields of its receiver, e.g. sync.Pool.New).
func (g *callGraph) externalCall(from string, call *ast.CallExpr) {
	for _, a := range call.Args {
		if t := g.typeOf(a); t != nil {
			if _, ok := t.Underlying().(*types.Signature); ok {
				g.edge(from, g.closureNode(t))
			}
		}
	}
	if s, ok := unparen(call.Fun).(*ast.SelectorExpr); ok {
		if si := g.c.info.Selections[s]; si != nil {
			for _, ft := range funcFields(si.Recv()) {
				g.edge(from, g.closureNode(ft))
			}
		}
	}
}

func (g *callGraph) call(from string, call *ast.CallExpr) {
	c := g.c
	fun := unparen(call.Fun)
	if tv, ok := c.info.Types[fun]; ok && tv.IsType() {
		return // conversion
	}
	switch f := fun.(type) {
	case *ast.Ident:
		switch o := c.obj(f).(type) {
		case *types.Builtin, *types.TypeName:
			return
		case *types.Func:
			if o.Pkg() == c.pkg {
				g.edge(from, o.Name())
			} else {
				g.externalCall(from, call)
			}
			return
		case *types.Var:
			g.edge(from, g.closureNode(o.Type()))
			return
		case nil:
			if c.funcDecl("", f.Name) != nil {
				g.edge(from, f.Name)
			} else if f.Name != "panic" && f.Name != "len" && f.Name != "append" && f.Name != "make" && f.Name != "recover" {
				g.edge(from, g.closureNode(nil))
			}
			return
		}
	case *ast.SelectorExpr:
		targets, dynamic, external := g.selectorTargets(f)
		for _, t := range targets {
			g.edge(from, t)
		}
		if dynamic {
			g.edge(from, g.closureNode(g.typeOf(f)))
		}
		if external {
			g.externalCall(from, call)
		}
		return
	case *ast.FuncLit:
		return // body is walked in place (immediate call)
	}
	// anything else (index expression, call result, …): a function value
	g.edge(from, g.closureNode(g.typeOf(fun)))
}

// walk attributes the calls below n to node `from`; fn is the enclosing top-level function
// (for panic sites).  Function literals get the closure node of their type.
func (g *callGraph) walk(from, fn string, n ast.Node) {
	if n == nil {
		return
	}
	c := g.c
	ast.Inspect(n, func(m ast.Node) bool {
		switch x := m.(type) {
		case *ast.FuncLit:
			if g.immediate[x] {
				return true
			}
			g.walk(g.closureNode(g.typeOf(x)), fn, x.Body)
			return false
		case *ast.CallExpr:
			if c.isBuiltin(x, "panic") {
				at := "?"
				if len(x.Args) == 1 {
					at = g.panicArgType(x.Args[0])
				}
				g.panics = append(g.panics, panicSite{Func: fn, ArgType: at, node: from})
				return true
			}
			g.call(from, x)
		case *ast.SelectorExpr:
			g.skipIdent[x.Sel] = true
			if g.callFuns[x] {
				return true
			}
			// method value: x.M not called
			if si := c.info.Selections[x]; si != nil && si.Kind() != types.FieldVal {
				targets, _, _ := g.selectorTargets(x)
				cn := g.closureNode(g.typeOf(x))
				for _, t := range targets {
					g.edge(cn, t)
				}
			}
		case *ast.Ident:
			if g.skipIdent[x] || g.callFuns[x] {
				return true
			}
			if o, ok := c.info.Uses[x].(*types.Func); ok && o.Pkg() == c.pkg {
				if sig, ok := o.Type().(*types.Signature); ok && sig.Recv() == nil {
					g.edge(g.closureNode(sig), o.Name()) // function used as a value
				}
			}
		}
		return true
	})
}

func (g *callGraph) panicArgType(e ast.Expr) string {
	t := g.typeOf(e)
	if t == nil {
		return "?"
	}
	if b, ok := t.Underlying().(*types.Basic); ok && b.Info()&types.IsString != 0 {
		return "string"
	}
	if errT, ok := types.Universe.Lookup("error").Type().Underlying().(*types.Interface); ok && types.Implements(t, errT) {
		return "error"
	}
	return g.c.typeString(t)
}

func (c *ctx) buildCallGraph() *callGraph {
	g := &callGraph{c: c, edges: map[string]map[string]bool{}, nodes: map[string]bool{}, byMethod: map[string][]string{},
		callFuns: map[ast.Expr]bool{}, immediate: map[*ast.FuncLit]bool{}, skipIdent: map[*ast.Ident]bool{}}
	for _, fd := range c.allFuncDecls() {
		g.nodes[declName(fd)] = true
		if fd.Recv != nil {
			g.byMethod[fd.Name.Name] = append(g.byMethod[fd.Name.Name], declName(fd))
		}
	}
	for _, m := range g.byMethod {
		sort.Strings(m)
	}
	for _, f := range c.files {
		ast.Inspect(f, func(n ast.Node) bool {
			if call, ok := n.(*ast.CallExpr); ok {
				fun := unparen(call.Fun)
				g.callFuns[fun] = true
				if lit, ok := fun.(*ast.FuncLit); ok {
					g.immediate[lit] = true
				}
			}
			return true
		})
	}
	c.topLevel(func(name, file string, n ast.Node) {
		if _, isBody := n.(*ast.BlockStmt); isBody {
			g.walk(name, name, n)
		} else {
			// a package variable's initialiser runs at init time: no caller node, but its
			// function literals and function values still feed the closure nodes
			g.walk("<init>", name, n)
		}
	})
	if g.usedAnyCl {
		for _, s := range g.sigNames {
			g.edge(anyClosure, s)
		}
	}
	return g
}

func (g *callGraph) succ(n string) []string {
	var out []string
	for m := range g.edges[n] {
		out = append(out, m)
	}
	sort.Strings(out)
	return out
}

func (g *callGraph) reach(roots ...string) map[string]bool {
	seen := map[string]bool{}
	var stack []string
	for _, r := range roots {
		if g.nodes[r] && !seen[r] {
			seen[r] = true
			stack = append(stack, r)
		}
	}
	for len(stack) > 0 {
		n := stack[len(stack)-1]
		stack = stack[:len(stack)-1]
		for _, m := range g.succ(n) {
			if !seen[m] {
				seen[m] = true
				stack = append(stack, m)
			}
		}
	}
	return seen
}

// cycles: the SCCs (size > 1 or self-loop) of the graph restricted to `within`, the outgoing
// edges of `cut` removed; each sorted, the list sorted by first element.
func (g *callGraph) cycles(within map[string]bool, cut map[string]bool) [][]string {
	var names []string
	for n := range within {
		names = append(names, n)
	}
	sort.Strings(names)
	succ := func(n string) []string {
		if cut[n] {
			return nil
		}
		var out []string
		for _, m := range g.succ(n) {
			if within[m] {
				out = append(out, m)
			}
		}
		return out
	}
	index := map[string]int{}
	low := map[string]int{}
	on := map[string]bool{}
	var st []string
	next := 0
	out := [][]string{}
	var strong func(v string)
	strong = func(v string) {
		index[v], low[v] = next, next
		next++
		st = append(st, v)
		on[v] = true
		for _, w := range succ(v) {
			if _, seen := index[w]; !seen {
				strong(w)
				if low[w] < low[v] {
					low[v] = low[w]
				}
			} else if on[w] && index[w] < low[v] {
				low[v] = index[w]
			}
		}
		if low[v] == index[v] {
			var comp []string
			for {
				w := st[len(st)-1]
				st = st[:len(st)-1]
				on[w] = false
				comp = append(comp, w)
				if w == v {
					break
				}
			}
			self := false
			if len(comp) == 1 {
				for _, w := range succ(v) {
					if w == v {
						self = true
					}
				}
			}
			if len(comp) > 1 || self {
				sort.Strings(comp)
				out = append(out, comp)
			}
		}
	}
	for _, n := range names {
		if _, seen := index[n]; !seen {
			strong(n)
		}
	}
	sort.Slice(out, func(i, j int) bool { return out[i][0] < out[j][0] })
	return out
}

func sortedKeys(m map[string]bool) []string {
	out := []string{}
	for k, v := range m {
		if v {
			out = append(out, k)
		}
	}
	sort.Strings(out)
	return out
}

type guard struct {
	Func  string `json:"func"`
	Limit int64  `json:"limit"`
}

func (c *ctx) callGraphFacts() *leanFile {
	l := newLean("CallGraph", "all non-test files (static call graph, interface calls expanded by method name, function values by type)", true)
	g := c.buildCallGraph()
	c.cg = g

	// guards: the two known ones first (pipeline order), then any other function of that shape
	guards := []guard{}
	isGuard := map[string]bool{}
	try := func(fd *ast.FuncDecl) {
		if fd == nil || isGuard[declName(fd)] {
			return
		}
		if n, ok := c.depthGuard(fd); ok {
			guards = append(guards, guard{declName(fd), n})
			isGuard[declName(fd)] = true
		}
	}
	try(c.funcDecl("parser", "parseExpression"))
	try(c.funcDecl("builder", "processNode"))
	var rest []*ast.FuncDecl
	rest = append(rest, c.allFuncDecls()...)
	sort.Slice(rest, func(i, j int) bool { return declName(rest[i]) < declName(rest[j]) })
	for _, fd := range rest {
		try(fd)
	}

	compile := g.reach("build")
	compileCycles := g.cycles(compile, nil)
	unguarded := g.cycles(compile, isGuard)
	eval := g.reach("NodeIterator.MoveNext", "Expr.Evaluate", "Expr.Select")
	evalCycles := g.cycles(eval, nil)

	var q []string
	for _, gd := range guards {
		q = append(q, leanRec(leanStr(gd.Func), fmt.Sprint(gd.Limit)))
	}
	l.p("/-- functions whose first statement increments a depth counter and leaves when it exceeds the limit -/\ndef guards : List Guard := %s\n\n", leanList(q))
	l.p("/-- reachable from `build` (compilation, not evaluation).  Nodes `<closures:T>` stand for \"some function value of\n    type T is called\": they point to everything the function literals of type T call and to the package functions\n    / methods of type T that are used as values -/\ndef compileFuncs : List String := %s\n\n", leanLines(quoteAll(sortedKeys(compile))))
	l.p("/-- strongly connected components (size > 1, or self-loop) of the call graph restricted to compileFuncs -/\ndef compileCycles : List (List String) := %s\n\n", leanLines(listAll(compileCycles)))
	l.p("/-- the same after deleting the guard functions' outgoing edges: [] iff every cycle passes a guard -/\ndef unguardedCompileCycles : List (List String) := %s\n\n", leanLines(listAll(unguarded)))
	l.p("/-- reachable from NodeIterator.MoveNext, Expr.Evaluate, Expr.Select -/\ndef evalFuncs : List String := %s\n\n", leanLines(quoteAll(sortedKeys(eval))))
	l.p("def evalCycles : List (List String) := %s\n", leanLines(listAll(evalCycles)))

	edges := map[string][]string{}
	for n := range g.edges {
		edges[n] = g.succ(n)
	}
	c.facts["callGraphFacts"] = map[string]interface{}{
		"guards": guards, "compileFuncs": sortedKeys(compile), "compileCycles": compileCycles,
		"unguardedCompileCycles": unguarded, "evalFuncs": sortedKeys(eval), "evalCycles": evalCycles,
		"edges": edges,
	}
	return l
}

func quoteAll(xs []string) []string {
	out := []string{}
	for _, x := range xs {
		out = append(out, leanStr(x))
	}
	return out
}

func listAll(xss [][]string) []string {
	out := []string{}
	for _, xs := range xss {
		out = append(out, leanStrList(xs))
	}
	return out
}

// ---------------------------------------------------------------- PanicSites.lean

func (c *ctx) panicFacts() *leanFile {
	l := newLean("PanicSites", "all non-test files (calls of the builtin panic)", true)
	g := c.cg
	if g == nil {
		g = c.buildCallGraph()
		c.cg = g
	}
	compile := g.reach("build")
	sites := append([]panicSite{}, g.panics...)
	sort.SliceStable(sites, func(i, j int) bool {
		if sites[i].Func != sites[j].Func {
			return sites[i].Func < sites[j].Func
		}
		return sites[i].ArgType < sites[j].ArgType
	})
	comp := []panicSite{}
	for _, s := range sites {
		if compile[s.node] {
			comp = append(comp, s)
		}
	}
	render := func(ss []panicSite) string {
		var q []string
		for _, s := range ss {
			q = append(q, leanRec(leanStr(s.Func), leanStr(s.ArgType)))
		}
		return leanLines(q)
	}
	l.p("/-- every call of the builtin panic: ⟨enclosing top-level function, static type of the argument⟩ -/\ndef panicSites : List PanicSite := %s\n\n", render(sites))
	l.p("/-- those executed by a node of compileFuncs (a site inside a function literal belongs to the literal's closure node) -/\ndef compilePanicSites : List PanicSite := %s\n", render(comp))
	c.facts["panicFacts"] = map[string]interface{}{"panicSites": sites, "compilePanicSites": comp}
	return l
}
