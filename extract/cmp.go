package main

import (
	"go/ast"
	"go/token"
	"go/types"
	"sort"
)

// ---------------------------------------------------------------- role tracking ("L"/"R"/"?")

type roles struct {
	c   *ctx
	env map[types.Object]string
	nm  map[string]string // fallback by name when no type information
}

func (r *roles) get(id *ast.Ident) string {
	if id == nil {
		return "?"
	}
	if o := r.c.obj(id); o != nil {
		if v, ok := r.env[o]; ok {
			return v
		}
		return "?"
	}
	if v, ok := r.nm[id.Name]; ok {
		return v
	}
	return "?"
}

// set joins a new role into the variable's role (conflicts stick at "?"); reports a change.
func (r *roles) set(id *ast.Ident, role string) bool {
	if id == nil || id.Name == "_" {
		return false
	}
	if o := r.c.obj(id); o != nil {
		old, ok := r.env[o]
		switch {
		case !ok:
			r.env[o] = role
			return true
		case old != role && old != "?":
			r.env[o] = "?"
			return true
		}
		return false
	}
	old, ok := r.nm[id.Name]
	switch {
	case !ok:
		r.nm[id.Name] = role
		return true
	case old != role && old != "?":
		r.nm[id.Name] = "?"
		return true
	}
	return false
}

func (r *roles) isConst(e ast.Expr) bool {
	if tv, ok := r.c.info.Types[e]; ok && tv.Value != nil {
		return true
	}
	_, isLit := unparen(e).(*ast.BasicLit)
	return isLit
}

// of computes the role of an expression.
func (r *roles) of(e ast.Expr) string {
	switch x := unparen(e).(type) {
	case *ast.Ident:
		return r.get(x)
	case *ast.TypeAssertExpr:
		return r.of(x.X)
	case *ast.CallExpr:
		if s, ok := unparen(x.Fun).(*ast.SelectorExpr); ok {
			if id, ok := unparen(s.X).(*ast.Ident); ok {
				if _, isPkg := r.c.obj(id).(*types.PkgName); !isPkg {
					return r.get(id) // method call x.M(..): the role of x
				}
			} else {
				return r.of(s.X) // a.b.M(..), f().M(..)
			}
		}
		// package function / conversion: the common role of the non-constant arguments
		role := ""
		for _, a := range x.Args {
			if r.isConst(a) {
				continue
			}
			ra := r.of(a)
			if role == "" {
				role = ra
			} else if role != ra {
				return "?"
			}
		}
		if role == "" {
			return "?"
		}
		return role
	}
	return "?"
}

// track seeds the two parameters and propagates through the simple assignments of body.
func (c *ctx) track(body ast.Node, left, right *ast.Ident) *roles {
	r := &roles{c: c, env: map[types.Object]string{}, nm: map[string]string{}}
	r.set(left, "L")
	r.set(right, "R")
	if body == nil {
		return r
	}
	for iter := 0; iter < 8; iter++ {
		changed := false
		ast.Inspect(body, func(n ast.Node) bool {
			switch s := n.(type) {
			case *ast.AssignStmt:
				if len(s.Rhs) == 1 && len(s.Lhs) >= 1 {
					if id, ok := s.Lhs[0].(*ast.Ident); ok {
						if r.set(id, r.of(s.Rhs[0])) {
							changed = true
						}
					}
				} else if len(s.Rhs) == len(s.Lhs) {
					for i := range s.Lhs {
						if id, ok := s.Lhs[i].(*ast.Ident); ok {
							if r.set(id, r.of(s.Rhs[i])) {
								changed = true
							}
						}
					}
				}
			case *ast.ValueSpec:
				for i, id := range s.Names {
					if i < len(s.Values) && len(s.Values) == len(s.Names) {
						if r.set(id, r.of(s.Values[i])) {
							changed = true
						}
					}
				}
			case *ast.RangeStmt:
				if s.Tok == token.DEFINE || s.Tok == token.ASSIGN {
					if id, ok := s.Value.(*ast.Ident); ok {
						if r.set(id, r.of(s.X)) {
							changed = true
						}
					}
				}
			}
			return true
		})
		if !changed {
			break
		}
	}
	return r
}

// ---------------------------------------------------------------- CmpTable.lean

type cellCall struct {
	Cell  string `json:"cell"`
	Cmp   string `json:"cmp"`
	Left  string `json:"arg2"`
	Right string `json:"arg3"`
}

// cmpOps reads `switch op { case "<op>": return a <tok> b … }; return false`.
func (c *ctx) cmpOps(name string) (ops [][2]string, deflt bool, hasDeflt bool) {
	ops = [][2]string{}
	fd := c.funcDecl("", name)
	if fd == nil || fd.Body == nil {
		return
	}
	ps := params(fd.Type)
	if len(ps) != 3 || ps[0] == nil || ps[1] == nil || ps[2] == nil {
		return
	}
	var sw *ast.SwitchStmt
	swIdx := -1
	for i, s := range fd.Body.List {
		if x, ok := s.(*ast.SwitchStmt); ok && x.Init == nil && c.sameIdent(x.Tag, ps[0]) {
			sw, swIdx = x, i
			break
		}
	}
	if sw == nil {
		return
	}
	isReturnFalse := func(st ast.Stmt) bool {
		r, ok := st.(*ast.ReturnStmt)
		if !ok || len(r.Results) != 1 {
			return false
		}
		id, ok := unparen(r.Results[0]).(*ast.Ident)
		if !ok || id.Name != "false" {
			return false
		}
		o := c.obj(id)
		return o == nil || o.Parent() == types.Universe
	}
	defaultArmFalse := false
	for _, cc := range caseClauses(sw.Body) {
		for _, lab := range cc.List {
			op, ok := strLit(lab)
			if !ok {
				op = "?:" + nosp(c.src(lab))
			}
			tok := "?"
			if len(cc.Body) == 1 {
				if r, ok := cc.Body[0].(*ast.ReturnStmt); ok && len(r.Results) == 1 {
					if b, ok := unparen(r.Results[0]).(*ast.BinaryExpr); ok && c.sameIdent(b.X, ps[1]) && c.sameIdent(b.Y, ps[2]) {
						tok = b.Op.String()
					}
					// `return cmpNumberNumberF(op, conv(a), conv(b))`: the operands converted to numbers, in order
					if name, call, ok := funcCall(r.Results[0]); ok && name == "cmpNumberNumberF" && len(call.Args) == 3 && c.sameIdent(call.Args[0], ps[0]) {
						f1, c1, ok1 := funcCall(call.Args[1])
						f2, c2, ok2 := funcCall(call.Args[2])
						if ok1 && ok2 && f1 == f2 && len(c1.Args) == 1 && len(c2.Args) == 1 && c.sameIdent(c1.Args[0], ps[1]) && c.sameIdent(c2.Args[0], ps[2]) {
							tok = "num:" + f1
						}
					}
				}
			}
			ops = append(ops, [2]string{op, tok})
		}
		if cc.List == nil {
			// a default arm inside the switch: the same as a `return false` after the switch when that is all it
			// does and the switch is the last statement; any other default arm is a shape not covered
			if len(cc.Body) == 1 && isReturnFalse(cc.Body[0]) && swIdx == len(fd.Body.List)-1 {
				defaultArmFalse = true
			} else {
				ops = append(ops, [2]string{"default", "?"})
			}
		}
	}
	// source order of the arms carries no meaning: list them in a fixed order
	rank := map[string]int{"or": 0, "and": 1, "=": 2, "!=": 3, "<": 4, "<=": 5, ">": 6, ">=": 7}
	sort.SliceStable(ops, func(i, j int) bool {
		ri, oki := rank[ops[i][0]]
		rj, okj := rank[ops[j][0]]
		if oki && okj {
			return ri < rj
		}
		return oki && !okj
	})
	if defaultArmFalse {
		return ops, false, true
	}
	// the statement after the switch must be the last one and `return false`
	if swIdx == len(fd.Body.List)-2 && isReturnFalse(fd.Body.List[swIdx+1]) {
		return ops, false, true
	}
	return
}

// litElems returns the elements of a slice/array composite literal by index, whether written
// positionally (`{a, b}`), with index keys (`{0: a, 1: b}`, in any order) or mixed (an element without
// key follows the previous index, as in Go).  Indices that are skipped hold nil (the zero value).
// ok = false when a key is not a constant in 0..63 or an index occurs twice.
func (c *ctx) litElems(lit *ast.CompositeLit) (elems []ast.Expr, ok bool) {
	byIndex := map[int64]ast.Expr{}
	next, size := int64(0), int64(0)
	for _, e := range lit.Elts {
		if kv, isKV := e.(*ast.KeyValueExpr); isKV {
			k, isConst := c.constInt(kv.Key)
			if !isConst {
				return nil, false
			}
			next, e = k, kv.Value
		}
		if _, dup := byIndex[next]; dup || next < 0 || next > 63 {
			return nil, false
		}
		byIndex[next] = e
		next++
		if next > size {
			size = next
		}
	}
	for i := int64(0); i < size; i++ {
		elems = append(elems, byIndex[i])
	}
	return elems, true
}

func (c *ctx) cmpTable() *leanFile {
	l := newLean("CmpTable", "operator.go (logicalFuncs, cmp*F, cmpXxxYyy, eqFunc..neFunc)", false)

	// logicalFuncs
	type cell struct {
		name string
		ok   bool
	}
	var table [][]cell
	var cells []string
	if vs := c.varDecl("logicalFuncs"); vs != nil && len(vs.Values) == 1 {
		unknownRow := []cell{{"?", true}}
		if lit, ok := unparen(vs.Values[0]).(*ast.CompositeLit); ok {
			rowElts, ok := c.litElems(lit)
			if !ok {
				table = append(table, unknownRow)
			}
			for _, row := range rowElts {
				if row == nil { // index skipped by the keys: a nil row
					table = append(table, []cell{})
					continue
				}
				rl, ok := unparen(row).(*ast.CompositeLit)
				if !ok {
					table = append(table, unknownRow)
					continue
				}
				elts, ok := c.litElems(rl)
				if !ok {
					table = append(table, unknownRow)
					continue
				}
				var r []cell
				for _, e := range elts {
					switch {
					case e == nil || isNil(e): // skipped index: the zero value, nil
						r = append(r, cell{"", false})
					case identName(e) != "":
						r = append(r, cell{identName(e), true})
						cells = append(cells, identName(e))
					default:
						r = append(r, cell{"?", true})
					}
				}
				table = append(table, r)
			}
		}
	}
	cells = orderedSet(cells)

	comparators := []string{"cmpNumberNumberF", "cmpStringStringF", "cmpBooleanBooleanF"}
	isComparator := map[string]bool{}
	opsOf := map[string][][2]string{}
	var defaults []string
	defaultsJ := map[string]bool{}
	for _, name := range comparators {
		isComparator[name] = true
		ops, d, has := c.cmpOps(name)
		opsOf[name] = ops
		if has {
			defaults = append(defaults, leanTuple(leanStr(name), leanBool(d)))
			defaultsJ[name] = d
		}
	}

	// cells
	calls := []cellCall{}
	var panics []string
	panicsJ := map[string]bool{}
	for _, name := range cells {
		fd := c.funcDecl("", name)
		if fd == nil || fd.Body == nil {
			continue
		}
		ps := params(fd.Type)
		var left, right *ast.Ident
		if len(ps) == 4 {
			left, right = ps[2], ps[3]
		}
		r := c.track(fd.Body, left, right)
		ast.Inspect(fd.Body, func(n ast.Node) bool {
			if fn, call, ok := funcCall2(n); ok && isComparator[fn] {
				cc := cellCall{name, fn, "?", "?"}
				if len(call.Args) == 3 {
					cc.Left, cc.Right = r.of(call.Args[1]), r.of(call.Args[2])
				}
				calls = append(calls, cc)
			}
			return true
		})
		p := c.containsPanic(fd.Body)
		panics = append(panics, leanTuple(leanStr(name), leanBool(p)))
		panicsJ[name] = p
	}

	// eqFunc..neFunc: every function declaration that dispatches through logicalFuncs[..][..]
	opFuncs := [][2]string{}
	for _, fd := range c.allFuncDecls() {
		if fd.Recv != nil || fd.Body == nil {
			continue
		}
		ps := params(fd.Type)
		ast.Inspect(fd.Body, func(n ast.Node) bool {
			call, ok := n.(*ast.CallExpr)
			if !ok {
				return true
			}
			i2, ok := unparen(call.Fun).(*ast.IndexExpr)
			if !ok {
				return true
			}
			i1, ok := unparen(i2.X).(*ast.IndexExpr)
			if !ok || !isIdentNamed(i1.X, "logicalFuncs") {
				return true
			}
			op := "?"
			if len(call.Args) == 4 && len(ps) == 3 {
				r := c.track(fd.Body, ps[1], ps[2])
				if s, ok := strLit(call.Args[1]); ok &&
					r.of(i1.Index) == "L" && r.of(i2.Index) == "R" && r.of(call.Args[2]) == "L" && r.of(call.Args[3]) == "R" {
					op = s
				}
			}
			opFuncs = append(opFuncs, [2]string{fd.Name.Name, op})
			return true
		})
	}

	var rows []string
	var tableJ [][]interface{}
	for _, row := range table {
		var q []string
		var j []interface{}
		for _, ce := range row {
			q = append(q, leanOptStr(ce.name, ce.ok))
			if ce.ok {
				j = append(j, ce.name)
			} else {
				j = append(j, nil)
			}
		}
		rows = append(rows, leanList(q))
		tableJ = append(tableJ, j)
	}
	l.p("/-- var logicalFuncs, nil ↦ none -/\ndef cmpTable : List (List (Option String)) := %s\n\n", leanLines(rows))
	l.p("/-- cmpNumberNumberF: (case label, Go operator of `return a <tok> b`) -/\ndef cmpNumOps : List (String × String) := %s\n", leanPairs(opsOf["cmpNumberNumberF"]))
	l.p("def cmpStrOps : List (String × String) := %s\n", leanPairs(opsOf["cmpStringStringF"]))
	l.p("def cmpBoolOps : List (String × String) := %s\n", leanPairs(opsOf["cmpBooleanBooleanF"]))
	l.p("/-- value returned after the switch (entry present only for a literal `return false`) -/\ndef cmpDefault : List (String × Bool) := %s\n\n", leanList(defaults))
	var q []string
	for _, cc := range calls {
		q = append(q, leanTuple(leanStr(cc.Cell), leanStr(cc.Cmp), leanStr(cc.Left), leanStr(cc.Right)))
	}
	l.p("/-- (cell, comparator called, role of its 2nd argument, role of its 3rd argument); \"L\" = derived from the cell's\n    parameter m (left operand), \"R\" = from n, \"?\" = unknown -/\ndef cellCalls : List (String × String × String × String) := %s\n\n", leanLines(q))
	l.p("/-- whether the cell body contains a call to panic -/\ndef cellPanics : List (String × Bool) := %s\n\n", leanLines(panics))
	l.p("/-- the operator literal passed to logicalFuncs[t1][t2](t, \"<op>\", m, n) (\"?\" unless indices and operands are (m, n, m, n)) -/\ndef opFuncs : List (String × String) := %s\n", leanPairs(opFuncs))
	c.facts["cmpTable"] = map[string]interface{}{
		"cmpTable": tableJ, "cmpNumOps": opsOf["cmpNumberNumberF"], "cmpStrOps": opsOf["cmpStringStringF"],
		"cmpBoolOps": opsOf["cmpBooleanBooleanF"], "cmpDefault": defaultsJ, "cellCalls": calls,
		"cellPanics": panicsJ, "opFuncs": opFuncs,
	}
	return l
}

// funcCall2 is funcCall on an arbitrary node.
func funcCall2(n ast.Node) (string, *ast.CallExpr, bool) {
	call, ok := n.(*ast.CallExpr)
	if !ok {
		return "", nil, false
	}
	return funcCall(call)
}
