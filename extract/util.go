package main

import (
	"fmt"
	"go/ast"
	"go/token"
	"go/types"
	"sort"
	"strconv"
	"strings"
	"unicode"
)

// ---------------------------------------------------------------- AST helpers (all nil-safe)

func unparen(e ast.Expr) ast.Expr {
	for {
		p, ok := e.(*ast.ParenExpr)
		if !ok {
			return e
		}
		e = p.X
	}
}

// obj returns the types.Object an identifier uses or defines (nil when unknown).
func (c *ctx) obj(id *ast.Ident) types.Object {
	if id == nil {
		return nil
	}
	if o := c.info.Uses[id]; o != nil {
		return o
	}
	return c.info.Defs[id]
}

// sameIdent reports whether e is an identifier denoting the same variable as id
// (object identity when type information is available, the name otherwise).
func (c *ctx) sameIdent(e ast.Expr, id *ast.Ident) bool {
	x, ok := unparen(e).(*ast.Ident)
	if !ok || id == nil || x.Name == "_" {
		return false
	}
	ox, oi := c.obj(x), c.obj(id)
	if ox != nil && oi != nil {
		return ox == oi
	}
	return x.Name == id.Name
}

func isIdentNamed(e ast.Expr, name string) bool {
	x, ok := unparen(e).(*ast.Ident)
	return ok && x.Name == name
}

func identName(e ast.Expr) string {
	if x, ok := unparen(e).(*ast.Ident); ok {
		return x.Name
	}
	return ""
}

// strLit: e is a string literal.
func strLit(e ast.Expr) (string, bool) {
	b, ok := unparen(e).(*ast.BasicLit)
	if !ok || b.Kind != token.STRING {
		return "", false
	}
	s, err := strconv.Unquote(b.Value)
	if err != nil {
		return "", false
	}
	return s, true
}

// charLit: e is a rune literal.
func charLit(e ast.Expr) (rune, bool) {
	b, ok := unparen(e).(*ast.BasicLit)
	if !ok || b.Kind != token.CHAR {
		return 0, false
	}
	s, err := strconv.Unquote(b.Value)
	if err != nil {
		return 0, false
	}
	rs := []rune(s)
	if len(rs) != 1 {
		return 0, false
	}
	return rs[0], true
}

// sel splits `x.name`.
func sel(e ast.Expr) (ast.Expr, string, bool) {
	s, ok := unparen(e).(*ast.SelectorExpr)
	if !ok || s.Sel == nil {
		return nil, "", false
	}
	return s.X, s.Sel.Name, true
}

// isRecvField: e is `<recv>.<field>`; returns the field.
func (c *ctx) recvField(e ast.Expr, recv *ast.Ident) (string, bool) {
	x, name, ok := sel(e)
	if !ok || !c.sameIdent(x, recv) {
		return "", false
	}
	return name, true
}

// methodCall: e is `x.m(args)`.
func methodCall(e ast.Expr) (x ast.Expr, m string, call *ast.CallExpr, ok bool) {
	call, ok = unparen(e).(*ast.CallExpr)
	if !ok {
		return nil, "", nil, false
	}
	x, m, ok = sel(call.Fun)
	return x, m, call, ok
}

// funcCall: e is `f(args)` with f a plain identifier.
func funcCall(e ast.Expr) (string, *ast.CallExpr, bool) {
	call, ok := unparen(e).(*ast.CallExpr)
	if !ok {
		return "", nil, false
	}
	id, ok := unparen(call.Fun).(*ast.Ident)
	if !ok {
		return "", nil, false
	}
	return id.Name, call, true
}

func nosp(s string) string {
	return strings.Map(func(r rune) rune {
		if unicode.IsSpace(r) {
			return -1
		}
		return r
	}, s)
}

func onesp(s string) string { return strings.Join(strings.Fields(s), " ") }

// isBuiltin: the call is a call of the builtin `name` (not shadowed).
func (c *ctx) isBuiltin(call *ast.CallExpr, name string) bool {
	if call == nil {
		return false
	}
	id, ok := unparen(call.Fun).(*ast.Ident)
	if !ok || id.Name != name {
		return false
	}
	o := c.info.Uses[id]
	if o == nil {
		return true
	}
	_, isB := o.(*types.Builtin)
	return isB
}

func (c *ctx) containsPanic(n ast.Node) bool {
	found := false
	if n == nil {
		return false
	}
	ast.Inspect(n, func(m ast.Node) bool {
		if call, ok := m.(*ast.CallExpr); ok && c.isBuiltin(call, "panic") {
			found = true
		}
		return !found
	})
	return found
}

func isNil(e ast.Expr) bool { return isIdentNamed(e, "nil") }

// params returns the flattened parameter identifiers (nil for unnamed parameters).
func params(ft *ast.FuncType) []*ast.Ident {
	var out []*ast.Ident
	if ft == nil || ft.Params == nil {
		return nil
	}
	for _, f := range ft.Params.List {
		if len(f.Names) == 0 {
			out = append(out, nil)
		}
		out = append(out, f.Names...)
	}
	return out
}

func recvIdent(fd *ast.FuncDecl) *ast.Ident {
	if fd == nil || fd.Recv == nil || len(fd.Recv.List) != 1 || len(fd.Recv.List[0].Names) != 1 {
		return nil
	}
	return fd.Recv.List[0].Names[0]
}

// declName is "Recv.Method" or "Func".
func declName(fd *ast.FuncDecl) string {
	if fd == nil {
		return "?"
	}
	if fd.Recv != nil && len(fd.Recv.List) == 1 {
		return recvName(fd.Recv.List[0].Type) + "." + fd.Name.Name
	}
	return fd.Name.Name
}

func (c *ctx) allFuncDecls() []*ast.FuncDecl {
	var out []*ast.FuncDecl
	for _, f := range c.files {
		for _, d := range f.Decls {
			if fd, ok := d.(*ast.FuncDecl); ok {
				out = append(out, fd)
			}
		}
	}
	return out
}

func (c *ctx) fileOf(n ast.Node) string {
	if n == nil || !n.Pos().IsValid() {
		return ""
	}
	name := c.fset.Position(n.Pos()).Filename
	if i := strings.LastIndexByte(name, '/'); i >= 0 {
		name = name[i+1:]
	}
	return name
}

// walkStack is ast.Inspect with the stack of ancestors (outermost first, n excluded).
func walkStack(root ast.Node, f func(n ast.Node, stack []ast.Node) bool) {
	if root == nil {
		return
	}
	var stack []ast.Node
	ast.Inspect(root, func(n ast.Node) bool {
		if n == nil {
			if len(stack) > 0 {
				stack = stack[:len(stack)-1]
			}
			return true
		}
		if !f(n, stack) {
			return false
		}
		stack = append(stack, n)
		return true
	})
}

// rootIdent strips selectors, indexes, derefs and slices down to the root identifier.
func rootIdent(e ast.Expr) *ast.Ident {
	for i := 0; i < 64 && e != nil; i++ {
		switch x := e.(type) {
		case *ast.Ident:
			return x
		case *ast.ParenExpr:
			e = x.X
		case *ast.SelectorExpr:
			e = x.X
		case *ast.IndexExpr:
			e = x.X
		case *ast.StarExpr:
			e = x.X
		case *ast.SliceExpr:
			e = x.X
		default:
			return nil
		}
	}
	return nil
}

// writeTargets: the expressions a statement assigns (declarations by `:=` excluded).
func (c *ctx) writeTargets(n ast.Node) []ast.Expr {
	var out []ast.Expr
	switch s := n.(type) {
	case *ast.AssignStmt:
		for _, l := range s.Lhs {
			if s.Tok == token.DEFINE {
				if id, ok := l.(*ast.Ident); ok {
					// Defs has an entry (possibly nil: the symbolic variable of a type switch) for
					// every identifier that := introduces; reused variables are in Uses instead
					if _, declared := c.info.Defs[id]; declared || id.Name == "_" {
						continue
					}
				}
			}
			out = append(out, l)
		}
	case *ast.IncDecStmt:
		out = append(out, s.X)
	case *ast.RangeStmt:
		if s.Tok == token.ASSIGN {
			if s.Key != nil {
				out = append(out, s.Key)
			}
			if s.Value != nil {
				out = append(out, s.Value)
			}
		}
	}
	return out
}

// recvFieldWrites: names of the receiver's fields assigned anywhere below n (function literals
// included): `r.F = …`, `r.F++`, `r.F += …`, `r.F[k] = …`, `r.F.G = …`.
func (c *ctx) recvFieldWrites(n ast.Node, recv *ast.Ident) []string {
	var out []string
	if n == nil || recv == nil {
		return nil
	}
	ast.Inspect(n, func(m ast.Node) bool {
		for _, t := range c.writeTargets(m) {
			if f, ok := c.fieldUnderRecv(t, recv); ok {
				out = append(out, f)
			}
		}
		return true
	})
	return out
}

// fieldUnderRecv: e is rooted at `<recv>.F`; returns F.
func (c *ctx) fieldUnderRecv(e ast.Expr, recv *ast.Ident) (string, bool) {
	for i := 0; i < 64 && e != nil; i++ {
		switch x := e.(type) {
		case *ast.ParenExpr:
			e = x.X
		case *ast.IndexExpr:
			e = x.X
		case *ast.StarExpr:
			e = x.X
		case *ast.SliceExpr:
			e = x.X
		case *ast.SelectorExpr:
			if c.sameIdent(x.X, recv) {
				return x.Sel.Name, true
			}
			e = x.X
		default:
			return "", false
		}
	}
	return "", false
}

func sortedSet(xs []string) []string {
	m := map[string]bool{}
	out := []string{}
	for _, x := range xs {
		if !m[x] {
			m[x] = true
			out = append(out, x)
		}
	}
	sort.Strings(out)
	return out
}

func orderedSet(xs []string) []string {
	m := map[string]bool{}
	out := []string{}
	for _, x := range xs {
		if !m[x] {
			m[x] = true
			out = append(out, x)
		}
	}
	return out
}

// caseClauses returns the clauses of a switch body.
func caseClauses(b *ast.BlockStmt) []*ast.CaseClause {
	var out []*ast.CaseClause
	if b == nil {
		return nil
	}
	for _, s := range b.List {
		if cc, ok := s.(*ast.CaseClause); ok {
			out = append(out, cc)
		}
	}
	return out
}

// findSwitch returns the first switch statement below n (function literals excluded unless
// deep) whose tag satisfies pred.
func findSwitch(n ast.Node, deep bool, pred func(tag ast.Expr) bool) *ast.SwitchStmt {
	var found *ast.SwitchStmt
	if n == nil {
		return nil
	}
	ast.Inspect(n, func(m ast.Node) bool {
		if found != nil {
			return false
		}
		if _, ok := m.(*ast.FuncLit); ok && !deep {
			return false
		}
		if sw, ok := m.(*ast.SwitchStmt); ok && sw.Tag != nil && pred(sw.Tag) {
			found = sw
			return false
		}
		return true
	})
	return found
}

func qualifier(self *types.Package) types.Qualifier {
	return func(p *types.Package) string {
		if p == self {
			return ""
		}
		return p.Name()
	}
}

func (c *ctx) typeString(t types.Type) string {
	if t == nil {
		return "?"
	}
	return types.TypeString(t, qualifier(c.pkg))
}

func (c *ctx) scope() *types.Scope {
	if c.pkg == nil {
		return types.NewScope(nil, token.NoPos, token.NoPos, "empty")
	}
	return c.pkg.Scope()
}

// ---------------------------------------------------------------- Lean rendering

func leanList(items []string) string { return "[" + strings.Join(items, ", ") + "]" }

// leanLines renders a list one entry per line.
func leanLines(items []string) string {
	if len(items) == 0 {
		return "[]"
	}
	return "[\n  " + strings.Join(items, ",\n  ") + "]"
}

func leanOptNat(v int64, ok bool) string {
	if !ok || v < 0 {
		return "none"
	}
	return fmt.Sprintf("some %d", v)
}

func leanOptStr(s string, ok bool) string {
	if !ok {
		return "none"
	}
	return "some " + leanStr(s)
}

func leanPairs(ps [][2]string) string {
	var q []string
	for _, p := range ps {
		q = append(q, "("+leanStr(p[0])+", "+leanStr(p[1])+")")
	}
	return leanList(q)
}

func leanNats(xs []int64) string {
	var q []string
	for _, x := range xs {
		q = append(q, strconv.FormatInt(x, 10))
	}
	return leanList(q)
}

func leanTuple(parts ...string) string { return "(" + strings.Join(parts, ", ") + ")" }
func leanRec(parts ...string) string   { return "⟨" + strings.Join(parts, ", ") + "⟩" }

// ---------------------------------------------------------------- rendering with substitution

// srcSubst is src(n) with every identifier that denotes an object in sub replaced by sub's text.
// The replacement is parenthesised where the identifier is an operand of an operator, selector,
// index, call or dereference, unless it is atomic (identifier, literal, call, already in
// parentheses); `(&x).f` is written `x.f`.
func (c *ctx) srcSubst(n ast.Node, sub map[types.Object]string) string {
	text := c.src(n)
	if len(sub) == 0 || text == "" {
		return text
	}
	base := c.fset.Position(n.Pos()).Offset
	type edit struct {
		from, to int
		s        string
	}
	var edits []edit
	walkStack(n, func(m ast.Node, stack []ast.Node) bool {
		id, ok := m.(*ast.Ident)
		if !ok {
			return true
		}
		o := c.info.Uses[id]
		s, ok := sub[o]
		if !ok || o == nil {
			return true
		}
		if len(stack) > 0 {
			operand := false
			switch p := stack[len(stack)-1].(type) {
			case *ast.BinaryExpr, *ast.UnaryExpr, *ast.StarExpr:
				operand = true
			case *ast.SelectorExpr:
				operand = true
				if strings.HasPrefix(s, "&") && isAtomicSrc(s[1:]) {
					s = s[1:]
				}
			case *ast.IndexExpr:
				operand = p.X == ast.Expr(id)
			case *ast.SliceExpr:
				operand = p.X == ast.Expr(id)
			case *ast.CallExpr:
				operand = p.Fun == ast.Expr(id)
			}
			if operand && !isAtomicSrc(s) {
				s = "(" + s + ")"
			}
		}
		from := c.fset.Position(id.Pos()).Offset - base
		edits = append(edits, edit{from, from + len(id.Name), s})
		return true
	})
	sort.Slice(edits, func(i, j int) bool { return edits[i].from < edits[j].from })
	var sb strings.Builder
	at := 0
	for _, e := range edits {
		if e.from < at || e.to > len(text) {
			return text // cannot happen: identifiers do not overlap
		}
		sb.WriteString(text[at:e.from])
		sb.WriteString(e.s)
		at = e.to
	}
	sb.WriteString(text[at:])
	return sb.String()
}

// isAtomicSrc: s needs no parentheses as an operand: an identifier / literal / selector chain,
// optionally followed by one balanced (...) or [...] group that ends the text, e.g. `float64(len(m)+1)`.
func isAtomicSrc(s string) bool {
	i := 0
	for i < len(s) && (s[i] == '_' || s[i] == '.' || s[i] >= '0' && s[i] <= '9' || s[i] >= 'a' && s[i] <= 'z' || s[i] >= 'A' && s[i] <= 'Z' || s[i] >= 0x80) {
		i++
	}
	if i == len(s) {
		return i > 0
	}
	if i == 0 && s[0] != '(' || s[i] != '(' && s[i] != '[' {
		return false
	}
	depth := 0
	for j := i; j < len(s); j++ {
		switch s[j] {
		case '(', '[':
			depth++
		case ')', ']':
			depth--
			if depth == 0 {
				return j == len(s)-1
			}
		case '"', '\'', '`':
			return false // literals inside the group: do not try to scan them
		}
	}
	return false
}

// pureExpr: e is built from identifiers of variables/constants, basic literals, parentheses, unary and
// binary operators (no `&`, no `<-`), calls of the builtin len and conversions to a basic type
// (float64(x), int(x), …): no side effects and no dependence on anything but the variables it names.
func (c *ctx) pureExpr(e ast.Expr) bool {
	switch x := e.(type) {
	case *ast.Ident:
		switch c.obj(x).(type) {
		case *types.Var, *types.Const:
			return true
		}
		return false
	case *ast.BasicLit:
		return true
	case *ast.ParenExpr:
		return c.pureExpr(x.X)
	case *ast.UnaryExpr:
		return x.Op != token.AND && x.Op != token.ARROW && c.pureExpr(x.X)
	case *ast.BinaryExpr:
		return c.pureExpr(x.X) && c.pureExpr(x.Y)
	case *ast.CallExpr:
		if len(x.Args) != 1 || x.Ellipsis.IsValid() || !c.pureExpr(x.Args[0]) {
			return false
		}
		if c.isBuiltin(x, "len") {
			_, isB := c.info.Uses[unparen(x.Fun).(*ast.Ident)].(*types.Builtin)
			return isB
		}
		if tv, ok := c.info.Types[x.Fun]; ok && tv.IsType() {
			_, basic := tv.Type.Underlying().(*types.Basic)
			return basic
		}
	}
	return false
}

// hoistedLocals finds, in the body of fd, the local variables that merely name a pure expression:
// declared by `v := e` (one variable, pureExpr e), never assigned again, address never taken, and no
// variable occurring in e can change while v is in scope (every write to it is in the same function
// literal as the declaration and textually before it; a loop re-executes the declaration).  Such a v
// can be replaced by e wherever it is used.  The result maps v to the source of e (hoisted locals inside e
// already replaced, whitespace removed).
func (c *ctx) hoistedLocals(fd *ast.FuncDecl) map[types.Object]string {
	out := map[types.Object]string{}
	if fd == nil || fd.Body == nil {
		return out
	}
	type site struct {
		pos token.Pos
		fn  ast.Node // innermost function literal (nil: fd itself)
	}
	where := func(n ast.Node, stack []ast.Node) site {
		s := site{pos: n.Pos()}
		for _, a := range stack {
			if _, ok := a.(*ast.FuncLit); ok {
				s.fn = a
			}
		}
		return s
	}
	writes := map[types.Object][]site{} // assignments (not the declaration) and &v
	type def struct {
		at  site
		rhs ast.Expr
	}
	defs := map[types.Object]def{}
	var order []types.Object
	walkStack(fd.Body, func(n ast.Node, stack []ast.Node) bool {
		if u, ok := n.(*ast.UnaryExpr); ok && u.Op == token.AND {
			if id := rootIdent(u.X); id != nil && c.obj(id) != nil {
				writes[c.obj(id)] = append(writes[c.obj(id)], where(n, stack))
			}
		}
		for _, t := range c.writeTargets(n) {
			if id := rootIdent(t); id != nil && c.obj(id) != nil {
				writes[c.obj(id)] = append(writes[c.obj(id)], where(n, stack))
			}
		}
		if as, ok := n.(*ast.AssignStmt); ok && as.Tok == token.DEFINE && len(as.Lhs) == 1 && len(as.Rhs) == 1 {
			if id, ok := as.Lhs[0].(*ast.Ident); ok && c.info.Defs[id] != nil && c.pureExpr(as.Rhs[0]) {
				defs[c.info.Defs[id]] = def{where(n, stack), as.Rhs[0]}
				order = append(order, c.info.Defs[id])
			}
		}
		return true
	})
	for _, v := range order { // source order: a definition only mentions earlier ones
		d := defs[v]
		ok := len(writes[v]) == 0
		ast.Inspect(d.rhs, func(n ast.Node) bool {
			id, isId := n.(*ast.Ident)
			if !isId || !ok {
				return ok
			}
			for _, w := range writes[c.obj(id)] {
				if w.fn != d.at.fn || w.pos >= d.at.pos {
					ok = false
				}
			}
			return ok
		})
		if ok {
			out[v] = nosp(c.srcSubst(d.rhs, out))
		}
	}
	return out
}
