package main

import (
	"fmt"
	"go/ast"
	"go/token"
	"go/types"
	"sort"
	"strconv"
	"strings"
	"unicode"
)

// ---------------------------------------------------------------- AST helpers (all nil-safe)

func unparen(e ast.Expr) ast.Expr {
	for {
		p, ok := e.(*ast.ParenExpr)
		if !ok {
			return e
		}
		e = p.X
	}
}

// obj returns the types.Object an identifier uses or defines (nil when unknown).
func (c *ctx) obj(id *ast.Ident) types.Object {
	if id == nil {
		return nil
	}
	if o := c.info.Uses[id]; o != nil {
		return o
	}
	return c.info.Defs[id]
}

// sameIdent reports whether e is an identifier denoting the same variable as id
// (object identity when type information is available, the name otherwise).
func (c *ctx) sameIdent(e ast.Expr, id *ast.Ident) bool {
	x, ok := unparen(e).(*ast.Ident)
	if !ok || id == nil || x.Name == "_" {
		return false
	}
	ox, oi := c.obj(x), c.obj(id)
	if ox != nil && oi != nil {
		return ox == oi
	}
	return x.Name == id.Name
}

func isIdentNamed(e ast.Expr, name string) bool {
	x, ok := unparen(e).(*ast.Ident)
	return ok && x.Name == name
}

func identName(e ast.Expr) string {
	if x, ok := unparen(e).(*ast.Ident); ok {
		return x.Name
	}
	return ""
}

// strLit: e is a string literal.
func strLit(e ast.Expr) (string, bool) {
	b, ok := unparen(e).(*ast.BasicLit)
	if !ok || b.Kind != token.STRING {
		return "", false
	}
	s, err := strconv.Unquote(b.Value)
	if err != nil {
		return "", false
	}
	return s, true
}

// charLit: e is a rune literal.
func charLit(e ast.Expr) (rune, bool) {
	b, ok := unparen(e).(*ast.BasicLit)
	if !ok || b.Kind != token.CHAR {
		return 0, false
	}
	s, err := strconv.Unquote(b.Value)
	if err != nil {
		return 0, false
	}
	rs := []rune(s)
	if len(rs) != 1 {
		return 0, false
	}
	return rs[0], true
}

// sel splits `x.name`.
func sel(e ast.Expr) (ast.Expr, string, bool) {
	s, ok := unparen(e).(*ast.SelectorExpr)
	if !ok || s.Sel == nil {
		return nil, "", false
	}
	return s.X, s.Sel.Name, true
}

// isRecvField: e is `<recv>.<field>`; returns the field.
func (c *ctx) recvField(e ast.Expr, recv *ast.Ident) (string, bool) {
	x, name, ok := sel(e)
	if !ok || !c.sameIdent(x, recv) {
		return "", false
	}
	return name, true
}

// methodCall: e is `x.m(args)`.
func methodCall(e ast.Expr) (x ast.Expr, m string, call *ast.CallExpr, ok bool) {
	call, ok = unparen(e).(*ast.CallExpr)
	if !ok {
		return nil, "", nil, false
	}
	x, m, ok = sel(call.Fun)
	return x, m, call, ok
}

// funcCall: e is `f(args)` with f a plain identifier.
func funcCall(e ast.Expr) (string, *ast.CallExpr, bool) {
	call, ok := unparen(e).(*ast.CallExpr)
	if !ok {
		return "", nil, false
	}
	id, ok := unparen(call.Fun).(*ast.Ident)
	if !ok {
		return "", nil, false
	}
	return id.Name, call, true
}

func nosp(s string) string {
	return strings.Map(func(r rune) rune {
		if unicode.IsSpace(r) {
			return -1
		}
		return r
	}, s)
}

func onesp(s string) string { return strings.Join(strings.Fields(s), " ") }

// isBuiltin: the call is a call of the builtin `name` (not shadowed).
func (c *ctx) isBuiltin(call *ast.CallExpr, name string) bool {
	if call == nil {
		return false
	}
	id, ok := unparen(call.Fun).(*ast.Ident)
	if !ok || id.Name != name {
		return false
	}
	o := c.info.Uses[id]
	if o == nil {
		return true
	}
	_, isB := o.(*types.Builtin)
	return isB
}

func (c *ctx) containsPanic(n ast.Node) bool {
	found := false
	if n == nil {
		return false
	}
	ast.Inspect(n, func(m ast.Node) bool {
		if call, ok := m.(*ast.CallExpr); ok && c.isBuiltin(call, "panic") {
			found = true
		}
		return !found
	})
	return found
}

func isNil(e ast.Expr) bool { return isIdentNamed(e, "nil") }

// params returns the flattened parameter identifiers (nil for unnamed parameters).
func params(ft *ast.FuncType) []*ast.Ident {
	var out []*ast.Ident
	if ft == nil || ft.Params == nil {
		return nil
	}
	for _, f := range ft.Params.List {
		if len(f.Names) == 0 {
			out = append(out, nil)
		}
		out = append(out, f.Names...)
	}
	return out
}

func recvIdent(fd *ast.FuncDecl) *ast.Ident {
	if fd == nil || fd.Recv == nil || len(fd.Recv.List) != 1 || len(fd.Recv.List[0].Names) != 1 {
		return nil
	}
	return fd.Recv.List[0].Names[0]
}

// declName is "Recv.Method" or "Func".
func declName(fd *ast.FuncDecl) string {
	if fd == nil {
		return "?"
	}
	if fd.Recv != nil && len(fd.Recv.List) == 1 {
		return recvName(fd.Recv.List[0].Type) + "." + fd.Name.Name
	}
	return fd.Name.Name
}

func (c *ctx) allFuncDecls() []*ast.FuncDecl {
	var out []*ast.FuncDecl
	for _, f := range c.files {
		for _, d := range f.Decls {
			if fd, ok := d.(*ast.FuncDecl); ok {
				out = append(out, fd)
			}
		}
	}
	return out
}

func (c *ctx) fileOf(n ast.Node) string {
	if n == nil || !n.Pos().IsValid() {
		return ""
	}
	name := c.fset.Position(n.Pos()).Filename
	if i := strings.LastIndexByte(name, '/'); i >= 0 {
		name = name[i+1:]
	}
	return name
}

// walkStack is ast.Inspect with the stack of ancestors (outermost first, n excluded).
func walkStack(root ast.Node, f func(n ast.Node, stack []ast.Node) bool) {
	if root == nil {
		return
	}
	var stack []ast.Node
	ast.Inspect(root, func(n ast.Node) bool {
		if n == nil {
			if len(stack) > 0 {
				stack = stack[:len(stack)-1]
			}
			return true
		}
		if !f(n, stack) {
			return false
		}
		stack = append(stack, n)
		return true
	})
}

// rootIdent strips selectors, indexes, derefs and slices down to the root identifier.
func rootIdent(e ast.Expr) *ast.Ident {
	for i := 0; i < 64 && e != nil; i++ {
		switch x := e.(type) {
		case *ast.Ident:
			return x
		case *ast.ParenExpr:
			e = x.X
		case *ast.SelectorExpr:
			e = x.X
		case *ast.IndexExpr:
			e = x.X
		case *ast.StarExpr:
			e = x.X
		case *ast.SliceExpr:
			e = x.X
		default:
			return nil
		}
	}
	return nil
}

// writeTargets: the expressions a statement assigns (declarations by `:=` excluded).
func (c *ctx) writeTargets(n ast.Node) []ast.Expr {
	var out []ast.Expr
	switch s := n.(type) {
	case *ast.AssignStmt:
		for _, l := range s.Lhs {
			if s.Tok == token.DEFINE {
				if id, ok := l.(*ast.Ident); ok {
					// Defs has an entry (possibly nil: the symbolic variable of a type switch) for
					// every identifier that := introduces; reused variables are in Uses instead
					if _, declared := c.info.Defs[id]; declared || id.Name == "_" {
						continue
					}
				}
			}
			out = append(out, l)
		}
	case *ast.IncDecStmt:
		out = append(out, s.X)
	case *ast.RangeStmt:
		if s.Tok == token.ASSIGN {
			if s.Key != nil {
				out = append(out, s.Key)
			}
			if s.Value != nil {
				out = append(out, s.Value)
			}
		}
	}
	return out
}

// recvFieldWrites: names of the receiver's fields assigned anywhere below n (function literals
// included): `r.F = …`, `r.F++`, `r.F += …`, `r.F[k] = …`, `r.F.G = …`.
func (c *ctx) recvFieldWrites(n ast.Node, recv *ast.Ident) []string {
	var out []string
	if n == nil || recv == nil {
		return nil
	}
	ast.Inspect(n, func(m ast.Node) bool {
		for _, t := range c.writeTargets(m) {
			if f, ok := c.fieldUnderRecv(t, recv); ok {
				out = append(out, f)
			}
		}
		return true
	})
	return out
}

// fieldUnderRecv: e is rooted at `<recv>.F`; returns F.
func (c *ctx) fieldUnderRecv(e ast.Expr, recv *ast.Ident) (string, bool) {
	for i := 0; i < 64 && e != nil; i++ {
		switch x := e.(type) {
		case *ast.ParenExpr:
			e = x.X
		case *ast.IndexExpr:
			e = x.X
		case *ast.StarExpr:
			e = x.X
		case *ast.SliceExpr:
			e = x.X
		case *ast.SelectorExpr:
			if c.sameIdent(x.X, recv) {
				return x.Sel.Name, true
			}
			e = x.X
		default:
			return "", false
		}
	}
	return "", false
}

func sortedSet(xs []string) []string {
	m := map[string]bool{}
	out := []string{}
	for _, x := range xs {
		if !m[x] {
			m[x] = true
			out = append(out, x)
		}
	}
	sort.Strings(out)
	return out
}

func orderedSet(xs []string) []string {
	m := map[string]bool{}
	out := []string{}
	for _, x := range xs {
		if !m[x] {
			m[x] = true
			out = append(out, x)
		}
	}
	return out
}

// caseClauses returns the clauses of a switch body.
func caseClauses(b *ast.BlockStmt) []*ast.CaseClause {
	var out []*ast.CaseClause
	if b == nil {
		return nil
	}
	for _, s := range b.List {
		if cc, ok := s.(*ast.CaseClause); ok {
			out = append(out, cc)
		}
	}
	return out
}

// findSwitch returns the first switch statement below n (function literals excluded unless
// deep) whose tag satisfies pred.
func findSwitch(n ast.Node, deep bool, pred func(tag ast.Expr) bool) *ast.SwitchStmt {
	var found *ast.SwitchStmt
	if n == nil {
		return nil
	}
	ast.Inspect(n, func(m ast.Node) bool {
		if found != nil {
			return false
		}
		if _, ok := m.(*ast.FuncLit); ok && !deep {
			return false
		}
		if sw, ok := m.(*ast.SwitchStmt); ok && sw.Tag != nil && pred(sw.Tag) {
			found = sw
			return false
		}
		return true
	})
	return found
}

func qualifier(self *types.Package) types.Qualifier {
	return func(p *types.Package) string {
		if p == self {
			return ""
		}
		return p.Name()
	}
}

func (c *ctx) typeString(t types.Type) string {
	if t == nil {
		return "?"
	}
	return types.TypeString(t, qualifier(c.pkg))
}

func (c *ctx) scope() *types.Scope {
	if c.pkg == nil {
		return types.NewScope(nil, token.NoPos, token.NoPos, "empty")
	}
	return c.pkg.Scope()
}

// ---------------------------------------------------------------- Lean rendering

func leanList(items []string) string { return "[" + strings.Join(items, ", ") + "]" }

// leanLines renders a list one entry per line.
func leanLines(items []string) string {
	if len(items) == 0 {
		return "[]"
	}
	return "[\n  " + strings.Join(items, ",\n  ") + "]"
}

func leanOptNat(v int64, ok bool) string {
	if !ok || v < 0 {
		return "none"
	}
	return fmt.Sprintf("some %d", v)
}

func leanOptStr(s string, ok bool) string {
	if !ok {
		return "none"
	}
	return "some " + leanStr(s)
}

func leanPairs(ps [][2]string) string {
	var q []string
	for _, p := range ps {
		q = append(q, "("+leanStr(p[0])+", "+leanStr(p[1])+")")
	}
	return leanList(q)
}

func leanNats(xs []int64) string {
	var q []string
	for _, x := range xs {
		q = append(q, strconv.FormatInt(x, 10))
	}
	return leanList(q)
}

func leanTuple(parts ...string) string { return "(" + strings.Join(parts, ", ") + ")" }
func leanRec(parts ...string) string   { return "⟨" + strings.Join(parts, ", ") + "⟩" }
